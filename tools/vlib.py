"""Shared machinery of the checks: regeneration, Coq build, hygiene, extraction build,
evidence, known findings, violation reporting.  See DESIGN.md sections 3 and 5."""
import fcntl
import glob
import hashlib
import json
import os
import re
import subprocess
import sys
import time

ROOT = os.path.dirname(os.path.dirname(os.path.abspath(__file__)))
COQ = os.path.join(ROOT, "coq")
BUILD = os.path.join(ROOT, "build")
REPO = os.environ.get("VERIF_REPO", "/repo")
PY = "/venv/bin/python"
COQ_DIRS = ["lib", "gen", "model", "hw", "proofs", "props", "extract"]
NCPU = int(os.environ.get("VERIF_JOBS", "16"))

HYGIENE_RE = re.compile(
    r"\b(Admitted|admit|Axiom|Axioms|Parameter|Parameters|Conjecture|Hypothesis|Variable|Admit Obligations|"
    r"Unset Guard Checking|bypass_check|Unset Positivity Checking|Unset Universe Checking)\b|-type-in-type|"
    r"-impredicative-set")


def py_env(extra=None):
    env = dict(os.environ)
    env["PYTHONPATH"] = REPO
    env["PYTHONHASHSEED"] = env.get("PYTHONHASHSEED", "0")
    env["PYTHONDONTWRITEBYTECODE"] = "1"
    if extra:
        env.update(extra)
    return env


def seed():
    try:
        return int(os.environ.get("VERIF_SEED", "0"))
    except ValueError:
        return 0


class Lock:
    def __init__(self, name="build"):
        os.makedirs(BUILD, exist_ok=True)
        self.path = os.path.join(BUILD, name + ".lock")

    def __enter__(self):
        self.f = open(self.path, "w")
        fcntl.flock(self.f, fcntl.LOCK_EX)
        return self

    def __exit__(self, *a):
        fcntl.flock(self.f, fcntl.LOCK_UN)
        self.f.close()


def regenerate():
    """coq/gen from /repo, _CoqProject from the directory listing. Returns translator report."""
    p = subprocess.run([sys.executable, os.path.join(ROOT, "tools", "gen_models.py")], capture_output=True, text=True,
                       env=py_env(), timeout=300)
    try:
        rep = json.loads(p.stdout)
    except Exception:
        rep = {"gen_models": "generator failed: " + (p.stderr or p.stdout)[-1500:]}
    files = []
    for d in COQ_DIRS:
        files += sorted(glob.glob(os.path.join(COQ, d, "*.v")))
    lines = ["-R . VV",
             "-arg -w -arg -notation-overridden,-deprecated-hint-without-locality,-deprecated-instance-without-locality,"
             "-deprecated-hint-rewrite-without-locality"]
    lines += [os.path.relpath(f, COQ) for f in files]
    text = "\n".join(lines) + "\n"
    cp = os.path.join(COQ, "_CoqProject")
    old = open(cp).read() if os.path.exists(cp) else None
    if old != text or not os.path.exists(os.path.join(COQ, "Makefile")):
        open(cp, "w").write(text)
        subprocess.run(["coq_makefile", "-f", "_CoqProject", "-o", "Makefile"], cwd=COQ, capture_output=True, timeout=120)
    return rep


def coq_make(targets, timeout=1500):
    """make the given .vo targets (paths relative to coq/). Returns (ok, log)."""
    cmd = ["timeout", str(timeout), "make", "-j%d" % NCPU, "-k"] + list(targets)
    t0 = time.time()
    p = subprocess.run(cmd, cwd=COQ, capture_output=True, text=True)
    log = p.stdout + p.stderr
    return p.returncode == 0, log, time.time() - t0, " ".join(cmd)


def coq_deps(vfile):
    """transitive .v dependencies inside the project of coq/<vfile> (including itself)."""
    seen = set()
    todo = [vfile]
    while todo:
        f = todo.pop()
        if f in seen:
            continue
        seen.add(f)
        try:
            src = open(os.path.join(COQ, f)).read()
        except OSError:
            continue
        for m in re.finditer(r"From\s+VV\s+Require\s+(?:Import\s+|Export\s+)?(.*?)\.(?=\s)", src, re.S):
            for name in m.group(1).split():
                path = name.replace(".", "/") + ".v"
                if os.path.exists(os.path.join(COQ, path)):
                    todo.append(path)
        for m in re.finditer(r"Require\s+(?:Import|Export)\s+VV\.([\w.]+)\s*\.", src):
            path = m.group(1).replace(".", "/") + ".v"
            if os.path.exists(os.path.join(COQ, path)):
                todo.append(path)
    return sorted(seen)


STMT_RE = re.compile(r"^\s*(Theorem|Lemma|Corollary|Example|Fact|Proposition)\s+([\w']+)", re.M)


def strip_comments(src):
    out = []
    depth = 0
    i = 0
    while i < len(src):
        if src.startswith("(*", i):
            depth += 1
            i += 2
        elif src.startswith("*)", i) and depth:
            depth -= 1
            i += 2
        else:
            if depth == 0:
                out.append(src[i])
            i += 1
    return "".join(out)


def obligations(vfiles):
    """[(file, kind, name)] of statements in the given files."""
    res = []
    for f in vfiles:
        try:
            src = strip_comments(open(os.path.join(COQ, f)).read())
        except OSError:
            continue
        for m in STMT_RE.finditer(src):
            res.append((f, m.group(1), m.group(2)))
    return res


def hygiene(vfiles):
    hits = []
    for f in vfiles:
        try:
            src = strip_comments(open(os.path.join(COQ, f)).read())
        except OSError:
            continue
        # Section variables/hypotheses are allowed only inside a Section
        depth = 0
        for ln, line in enumerate(src.split("\n"), 1):
            if re.match(r"\s*Section\s", line):
                depth += 1
            m = HYGIENE_RE.search(line)
            if m:
                word = m.group(0)
                if word in ("Variable", "Hypothesis") and depth > 0:
                    pass
                else:
                    hits.append("%s:%d: %s" % (f, ln, line.strip()[:120]))
            if re.match(r"\s*End\s", line) and depth:
                depth -= 1
    return hits


def build_property(pid, extra_targets=()):
    """Regenerate, build props/<pid>.vo (always recompiling the props file to capture
    Print Assumptions). Returns dict describing the proof side."""
    with Lock():
        t0 = time.time()
        gen_report = regenerate()
        prop = "props/%s.v" % pid
        deps = coq_deps(prop)
        vo = os.path.join(COQ, prop + "o")
        if os.path.exists(vo):
            os.unlink(vo)
        targets = [prop + "o"] + list(extra_targets)
        ok, log, wall, cmd = coq_make(targets)
        built = [f for f in deps if os.path.exists(os.path.join(COQ, f + "o"))]
    obl = obligations(deps)
    discharged = [o for o in obl if o[0] in built]
    failed_files = [f for f in deps if f not in built]
    hyg = hygiene(deps)
    # Print Assumptions output
    assumptions = []
    cur = None
    for line in log.split("\n"):
        if line.startswith("Closed under the global context"):
            assumptions.append("Closed under the global context")
        elif line.startswith("Axioms:"):
            cur = []
            assumptions.append(cur)
        elif cur is not None and (line.startswith(" ") or re.match(r"^[\w.']+ :", line) or re.match(r"^[\w.']+$", line)) and line.strip():
            cur.append(line.strip())
        else:
            cur = None
    flat = []
    for a in assumptions:
        flat.append(a if isinstance(a, str) else "Axioms: " + " | ".join(a))
    errors = []
    for m in re.finditer(r'File "\./([^"]+)", line (\d+), characters[^\n]*\n((?:.*\n){0,12}?)(?=File "|make|\Z|COQC)', log):
        errors.append({"file": m.group(1), "line": int(m.group(2)), "message": m.group(3).strip()[:600]})
    gen_fail = {k: v for k, v in gen_report.items() if v}
    return {
        "ok": ok and not hyg and not failed_files,
        "log": log, "cmd": "cd /verif/coq && " + cmd, "wall": time.time() - t0,
        "deps": deps, "obligations": obl, "discharged": discharged, "failed_files": failed_files,
        "hygiene": hyg, "assumptions": flat, "errors": errors, "gen_report": gen_report, "gen_fail": gen_fail,
    }


def build_extraction(name="velamodel"):
    """build/<name> from coq/extract/Extract<Name>.v (which must write extract/<name>.ml and export a
    function `run : Z -> list Z -> list Z`) + ocaml/driver.ml. `velamodel` <- extract/Extract.v.
    Returns (ok, log)."""
    vfile = "extract/Extract.v" if name == "velamodel" else "extract/Extract%s.v" % (name[0].upper() + name[1:])
    with Lock():
        regenerate()
        ok, log, _, _ = coq_make([vfile + "o"])
        if not ok:
            return False, log
        ml = os.path.join(BUILD, "ml_" + name)
        os.makedirs(ml, exist_ok=True)
        src_ml = os.path.join(COQ, "extract", name + ".ml")
        if not os.path.exists(src_ml):
            return False, log + "\nno extracted %s.ml" % name
        exe = os.path.join(BUILD, name if name != "velamodel" else "velaverif")
        stamp = os.path.join(ml, "stamp")
        h = hashlib.sha256()
        for f in (src_ml, src_ml + "i", os.path.join(ROOT, "ocaml", "driver.ml")):
            h.update(open(f, "rb").read())
        if os.path.exists(exe) and os.path.exists(stamp) and open(stamp).read() == h.hexdigest():
            return True, log
        subprocess.run(["cp", src_ml, os.path.join(ml, "velamodel.ml")])
        subprocess.run(["cp", src_ml + "i", os.path.join(ml, "velamodel.mli")])
        subprocess.run(["cp", os.path.join(ROOT, "ocaml", "driver.ml"), ml])
        p = None
        for opt in (["-O3"], []):
            p = subprocess.run(["ocamlfind", "ocamlopt"] + opt + ["-w", "-a", "-package", "str", "-linkpkg", "velamodel.mli",
                                "velamodel.ml", "driver.ml", "-o", exe], cwd=ml, capture_output=True, text=True)
            if p.returncode == 0:
                break
        if p.returncode != 0:
            return False, log + p.stdout + p.stderr
        open(stamp, "w").write(h.hexdigest())
        return True, log


def run_model(subcmd, lines, timeout=1800, exe_name="velaverif"):
    """run build/<exe_name> <subcmd> feeding one case per line; returns list of output lines"""
    exe = os.path.join(BUILD, exe_name)
    def unlimit():
        import resource
        try:
            resource.setrlimit(resource.RLIMIT_STACK, (resource.RLIM_INFINITY, resource.RLIM_INFINITY))
        except Exception:
            pass
    p = subprocess.run([exe, subcmd], input="\n".join(lines) + "\n", capture_output=True, text=True, timeout=timeout,
                       preexec_fn=unlimit)
    if p.returncode != 0:
        raise RuntimeError("velaverif %s failed: %s" % (subcmd, p.stderr[-2000:]))
    out = p.stdout.split("\n")
    if out and out[-1] == "":
        out.pop()
    return out


# ---------------------------------------------------------------------------------------------
def load_known():
    p = os.path.join(ROOT, "known_findings.json")
    if not os.path.exists(p):
        return []
    return json.load(open(p)).get("findings", [])


def match_known(pid, key):
    """key: dict identifying the failing input/call site. A finding matches when it is open, for
    this property, and every item of its `match` equals the same item of key."""
    for f in load_known():
        if f.get("property") != pid or f.get("status") != "open":
            continue
        m = f.get("match", {})
        if m and all(key.get(k) == v for k, v in m.items()):
            return f
    return None


class Result:
    """Accumulates what a check run did and turns it into stdout lines, evidence and exit code."""

    def __init__(self, pid, tier, level):
        self.pid, self.tier, self.level = pid, tier, level
        self.t0 = time.time()
        self.cov = {}
        self.assumptions = []
        self.violations = []   # (replay path, suffix)
        self.known = []
        self.notes = []

    def violation(self, key, detail, what, no_input=False):
        """key: dict used for known-finding matching and the replay file name"""
        kf = match_known(self.pid, key)
        if kf is not None:
            line = "KNOWN-FINDING: property=%s %s" % (self.pid, kf.get("what", what))
            if line not in self.known:
                self.known.append(line)
                print(line, flush=True)
            return False
        h = hashlib.sha256(json.dumps(key, sort_keys=True, default=str).encode()).hexdigest()[:12]
        os.makedirs(os.path.join(ROOT, "replay"), exist_ok=True)
        path = os.path.join(ROOT, "replay", "%s-%s.json" % (self.pid, h))
        with open(path, "w") as f:
            json.dump({"property": self.pid, "what": what, "key": key, "detail": detail,
                       "no_failing_input_found": bool(no_input)}, f, indent=1, default=str)
        line = "VIOLATION property=%s replay=%s" % (self.pid, path)
        if no_input:
            line += " no-failing-input-found"
        if all(v != line for v in self.violations):
            self.violations.append(line)
            print(line, flush=True)
            print("  " + what[:300], flush=True)
        return True

    def finish(self):
        ev = {
            "property_id": self.pid, "tier": self.tier, "seed": seed(), "level": self.level,
            "coverage": self.cov, "assumptions": self.assumptions,
            "wall_s": round(time.time() - self.t0, 2), "violations": len(self.violations),
        }
        if self.known:
            ev["coverage"]["known_findings_reported"] = self.known
        if self.notes:
            ev["coverage"]["notes"] = self.notes
        os.makedirs(os.path.join(ROOT, "evidence"), exist_ok=True)
        with open(os.path.join(ROOT, "evidence", self.pid + ".json"), "w") as f:
            json.dump(ev, f, indent=1, default=str)
        print("%s %s: %s (%.1fs)" % (self.pid, self.tier, "FAIL" if self.violations else "ok", time.time() - self.t0))
        return 1 if self.violations else 0


def proof_coverage(res, b, extra_trusted=()):
    """fill the proof-level keys of evidence from a build_property() result"""
    res.cov["obligations"] = len(b["obligations"])
    res.cov["discharged"] = len(b["discharged"]) if not b["hygiene"] else 0
    res.cov["checker_cmd"] = b["cmd"]
    tb = ["Coq 8.16.1 kernel (coqc, full .vo build; vm_compute used for finite tables; no native_compute)",
          "Print Assumptions of the property theorems: " + ("; ".join(sorted(set(b["assumptions"]))) or "none captured"),
          "tools/py2gallina.py (Python-ast -> Gallina translator, Python ints as Z) for coq/gen/*"]
    tb += list(extra_trusted)
    res.cov["trusted_base"] = tb
    res.cov["theorems"] = ["%s %s (%s)" % (k, n, f) for f, k, n in b["obligations"] if f.startswith("props/")]
    res.cov["files"] = b["deps"]
    if b["gen_fail"]:
        res.cov["untranslated"] = b["gen_fail"]
    coqchk_coverage(res, b)


def coqchk(pid, timeout=2400):
    """independent re-check (coqchk) of props/<pid>.vo and everything it depends on; returns (ok, axioms, tail)"""
    cmd = ["coqchk", "-silent", "-o", "-R", ".", "VV", "VV.props.%s" % pid]
    try:
        p = subprocess.run(cmd, cwd=COQ, capture_output=True, text=True, timeout=timeout)
    except subprocess.TimeoutExpired:
        return None, [], "coqchk timed out"
    out = p.stdout + p.stderr
    axioms = []
    m = re.search(r"\* Axioms:\s*(.*?)(?=\n\* |\Z)", out, re.S)
    if m:
        axioms = [a.strip() for a in m.group(1).split("\n") if a.strip()]
    return p.returncode == 0, axioms, out[-1500:]


def coqchk_coverage(res, b):
    """thorough tier: add the independent checker's verdict and the axioms it lists to the evidence; a rejection
    is reported as a broken proof obligation"""
    if res.tier != "thorough" or not b["ok"]:
        return
    with Lock():      # the build lock: nobody rewrites a .vo while the checker reads it
        ok, axioms, tail = coqchk(res.pid)
    res.cov["coqchk"] = {"cmd": "cd /verif/coq && coqchk -silent -o -R . VV VV.props.%s" % res.pid,
                         "accepted": ok, "axioms": axioms or ["<none>"]}
    res.cov["trusted_base"] = list(res.cov.get("trusted_base", [])) + [
        "coqchk (independent checker) on props/%s.vo and its dependencies: %s; axioms it lists: %s"
        % (res.pid, "accepted" if ok else "NOT accepted" if ok is False else "timed out", ", ".join(axioms) or "<none>")]
    if ok is False:
        res.violation({"machinery": "coqchk"}, {"tail": tail}, "coqchk rejects props/%s.vo or a dependency: %s" % (res.pid, tail[-300:]),
                      no_input=True)


def report_broken_build(res, b, searcher=None):
    """Protocol of DESIGN.md section 5 step 3 for a broken proof obligation."""
    if b["ok"]:
        return False
    first = b["errors"][0] if b["errors"] else {"file": (b["failed_files"] or ["?"])[0], "line": 0, "message": b["log"][-800:]}
    what = "proof obligation no longer checks: %s line %s: %s" % (first["file"], first["line"], first["message"][:200])
    if b["hygiene"]:
        what = "hygiene: forbidden construct in development: " + "; ".join(b["hygiene"][:3])
    found = None
    if searcher is not None:
        try:
            found = searcher()
        except Exception as ex:  # the search is best effort
            res.notes.append("search failed: %r" % (ex,))
    if found:
        key, detail, w = found
        res.violation(key, dict(detail, broken_obligation=first, gen_fail=b["gen_fail"]), w)
    else:
        res.violation({"obligation": first["file"], "kind": "proof"},
                      {"broken_obligation": first, "failed_files": b["failed_files"], "hygiene": b["hygiene"],
                       "gen_fail": b["gen_fail"], "log_tail": b["log"][-3000:]}, what, no_input=True)
    return True
