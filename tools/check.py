#!/venv/bin/python
"""Entry point: check.py <property id> [quick|thorough]"""
import importlib
import os
import sys
import traceback

HERE = os.path.dirname(os.path.abspath(__file__))
sys.path.insert(0, HERE)
import vlib  # noqa: E402

sys.path.insert(0, vlib.REPO)
import codec_build  # noqa: E402
codec_build.install()   # the C codec is rebuilt from /repo's current sources


def main():
    if len(sys.argv) < 2:
        print("usage: check <Cxx> [quick|thorough]")
        return 2
    pid = sys.argv[1].upper()
    tier = sys.argv[2] if len(sys.argv) > 2 else os.environ.get("VERIF_TIER", "quick")
    if tier not in ("quick", "thorough"):
        tier = "quick"
    try:
        mod = importlib.import_module("checks." + pid.lower())
    except ImportError as ex:
        print("no check for %s: %s" % (pid, ex))
        return 2
    try:
        return mod.run(tier)
    except Exception:
        traceback.print_exc()
        # the machinery itself failed: that is not a statement about the property
        print("CHECK-ERROR property=%s (internal error of the check, see traceback)" % pid)
        return 3


if __name__ == "__main__":
    sys.exit(main())
