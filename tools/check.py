#!/venv/bin/python
"""Entry point: check.py <property id> [quick|thorough]"""
import importlib
import os
import sys
import traceback

HERE = os.path.dirname(os.path.abspath(__file__))
sys.path.insert(0, HERE)
import vlib  # noqa: E402

sys.path.insert(0, vlib.REPO)
import codec_build  # noqa: E402
codec_build.install()   # the C codec is rebuilt from /repo's current sources


def main():
    if len(sys.argv) < 2:
        print("usage: check <Cxx> [quick|thorough]")
        return 2
    pid = sys.argv[1].upper()
    tier = sys.argv[2] if len(sys.argv) > 2 else os.environ.get("VERIF_TIER", "quick")
    if tier not in ("quick", "thorough"):
        tier = "quick"
    try:
        mod = importlib.import_module("checks." + pid.lower())
    except ImportError as ex:
        print("no check for %s: %s" % (pid, ex))
        return 2
    try:
        return mod.run(tier)
    except Exception:
        tb = traceback.format_exc()
        sys.stderr.write(tb)
        # the machinery itself failed on this tree: the property is not shown to hold, and no failing input was found.
        # (On the unchanged tree this is a defect of the check; on a changed tree it is how a change that the harness cannot
        # digest - an artefact it can no longer read, an interface that moved - surfaces instead of passing silently.)
        import hashlib
        import json
        os.makedirs(os.path.join(vlib.ROOT, "replay"), exist_ok=True)
        path = os.path.join(vlib.ROOT, "replay", "%s-checkerror-%s.json" % (pid, hashlib.sha256(tb.encode()).hexdigest()[:10]))
        with open(path, "w") as f:
            json.dump({"property": pid, "what": "the check could not be carried out (internal error); the property is not shown to hold",
                       "no_failing_input_found": True, "traceback": tb[-6000:]}, f, indent=1)
        print("CHECK-ERROR property=%s (internal error of the check, see %s)" % (pid, path))
        print("VIOLATION property=%s replay=%s no-failing-input-found" % (pid, path))
        return 1


if __name__ == "__main__":
    sys.exit(main())
