import sys; sys.path.insert(0,'/verif/tools')
import vlib
with vlib.Lock():
    vlib.regenerate()
    ok,log,w,c=vlib.coq_make(sys.argv[1:])
print(ok, round(w,1)); print(log[-2500:] if not ok else '')
