"""C13 -- any structurally valid model compiles or is rejected with a diagnosis (partial).
Proof part: exception-freedom of modelled arithmetic cores (props/C13.v).  Exploration part (not a
proof): a sweep of generated valid models x option combinations through vela.main in fresh
processes; any exit by internal exception / no termination is a concrete violation."""
import collections
import json
import os

import vlib
import compiles

FAMS = ["conv_chain", "single", "unsupported", "mixed_cpu", "diamond", "lut_heavy", "conv_chain_big", "single", "unsupported",
        "ew_dag", "multi_custom", "weights_heavy", "multi_subgraph", "siamese", "siamese:big", "lut_mixed", "memcpy_reshape", "branchy",
        "mixed_exact", "one_channel_tail", "narrowing_chain", "upscale_chain", "pow2_rescale", "multi_input", "split_conv", "lstm", "ew_chain", "concat_split", "rewrite_patterns"]


def classify(r):
    tb = r.get("traceback") or ""
    if r["status"] == "crash" and "netgen.py" in tb and "ethosu/vela" not in tb:
        # the generator of the check failed before the compiler was called: an internal error of the check, not a verdict
        raise RuntimeError("network generator failed for job %r:\n%s" % (r.get("job"), tb[-1500:]))
    if r["status"] in ("crash", "timeout"):
        exc = (r.get("exception") or "").split(":")[0]
        return {"crash_site": r.get("crash_site", "?"), "exception_type": exc}
    out = r.get("stdout", "")
    if r["status"] == "vela_error" and not out.strip():
        return {"crash_site": "non-zero exit without any diagnostic", "exception_type": "silent"}
    if r["status"] == "ok" and not compiles.artefact(r):
        return {"crash_site": "status 0 but no output model written", "exception_type": "nooutput"}
    return None


def run(tier):
    res = vlib.Result("C13", tier, "other")
    b = vlib.build_property("C13")
    n = 50 if tier == "quick" else 2000
    jobs = compiles.corpus_jobs(capture=False) + compiles.plan(FAMS, n, vlib.seed(), tag="c13", capture=False)
    # every single-operator kind and every unsupported-corner kind at least once (twice in thorough)
    import netgen
    import random as _r
    rk = _r.Random("c13kinds/%d" % vlib.seed())
    for rep in range(1 if tier == "quick" else 6):
        for kind in netgen.SINGLE_KINDS:
            jobs.append({"family": "single:" + kind, "seed": "c13k-%d-%d" % (vlib.seed(), rep), "args": compiles.config_args(rk), "capture": False})
        for kind in netgen.UNSUPPORTED_KINDS:
            jobs.append({"family": "unsupported:" + kind, "seed": "c13k-%d-%d" % (vlib.seed(), rep), "args": compiles.config_args(rk), "capture": False})
    # every kind of multi-subgraph model (WHILE / IF / CALL_ONCE), including NPU-supported operators inside IF branches
    for rep in range(1 if tier == "quick" else 6):
        for kind in sorted(set(netgen.MULTI_KINDS)):
            jobs.append({"family": "multi_subgraph:" + kind, "seed": "c13m-%d-%d" % (vlib.seed(), rep), "args": compiles.config_args(rk), "capture": False})
    # option-combination corners
    extra = [["--optimise", "Size", "--tensor-allocator", "Greedy", "--cpu-tensor-alignment", "256"],
             ["--arena-cache-size", "1024"], ["--max-block-dependency", "0"], ["--hillclimb-max-iterations", "1"],
             ["--force-symmetric-int-weights"], ["--verbose-all"], ["--arena-cache-size", "4294967296"],
             ["--accelerator-config", "ethos-u55-32", "--optimise", "Size"], ["--timing"], ["--show-cpu-operations", "--show-subgraph-io-summary"]]
    for i, a in enumerate(extra if tier == "thorough" else extra[:6]):
        jobs.append({"family": FAMS[i % len(FAMS)], "seed": "c13x-%d-%d" % (vlib.seed(), i), "args": a, "capture": False})
    # the reporting options on models that keep operators on the CPU (omitted optional inputs, odd ranks and types)
    for i, kind in enumerate(netgen.UNSUPPORTED_KINDS if tier == "thorough" else ["per_axis_fc", "float", "rank0", "dyn_slice", "batch"]):
        jobs.append({"family": "unsupported:" + kind, "seed": "c13r-%d-%d" % (vlib.seed(), i),
                     "args": ["--show-cpu-operations", "--show-subgraph-io-summary", "--verbose-operators"][: 1 + i % 3], "capture": False})
    # every reporting / debugging switch of the command line on its own, on models with and without CPU operators, with
    # several subgraphs, with tables and with an LSTM (the printers walk structures the plain compilation never touches)
    flags = [["--verbose-graph"], ["--verbose-quantization"], ["--verbose-packing"], ["--verbose-tensor-purpose"],
             ["--verbose-tensor-format"], ["--verbose-schedule"], ["--verbose-allocation"], ["--verbose-high-level-command-stream"],
             ["--verbose-register-command-stream"], ["--verbose-operators"], ["--verbose-weights"], ["--verbose-performance"],
             ["--verbose-progress"], ["--verbose-config"], ["--subgraph-output"], ["--enable-debug-db"], ["--recursion-limit", "2000"],
             ["--timing"], ["--verbose-all", "--subgraph-output", "--enable-debug-db"]]
    ffams = ["mixed_cpu", "lut_mixed", "multi_subgraph", "lstm", "conv_chain", "rewrite_patterns", "unsupported", "multi_custom"]
    for i, a in enumerate(flags):
        for rep in range(2 if tier == "quick" else len(ffams)):
            jobs.append({"family": ffams[(i + rep * 3) % len(ffams)], "seed": "c13f-%d-%d-%d" % (vlib.seed(), i, rep), "args": a, "capture": False})
    # the printers that map optimised operators back to source operators (debug database uids), on every single-operator
    # model: an operator that the graph optimiser decomposes (SOFTMAX, LSTM, PRELU, grouped convolutions, MEAN ...) registers
    # generated operators whose source uid is inherited, and in a one-operator model a wrong uid has no entry to fall on
    for rep in range(1 if tier == "quick" else 3):
        for i, kind in enumerate(netgen.SINGLE_KINDS):
            acc = ["ethos-u55-128", "ethos-u65-256", "ethos-u55-64", "ethos-u65-512"][(i + rep) % 4]
            jobs.append({"family": "single:" + kind, "seed": "c13d-%d-%d" % (vlib.seed(), rep),
                         "args": ["--accelerator-config", acc, "--verbose-performance", "--enable-debug-db"] +
                                 (["--verbose-all"] if rep == 2 else []), "capture": False})
    results = compiles.run_all(jobs, timeout=900)
    stat = collections.Counter(r["status"] for r in results)
    fams = collections.Counter(r["job"]["family"] for r in results)
    bad = collections.OrderedDict()
    for r in results:
        k = classify(r)
        if k:
            k["net"] = r.get("net_name")            # a recorded finding names the input, so another input is still reported
            bad.setdefault(json.dumps(k, sort_keys=True), []).append(r)
    distinct = set()
    for r in results:
        distinct.add((r.get("net_name"), tuple(r.get("net_desc") or []), tuple(r["job"]["args"][:6])))
    res.cov.update({
        "explanation": "Whole-compiler totality is not proved. Proved: exception-freedom of modelled arithmetic sites "
                       "(props/C13.v; more in props/C05, C09, C19). Explored: %d generated valid models x CLI option "
                       "points compiled in fresh processes; a traceback, a timeout, a silent non-zero exit or a zero exit "
                       "without output is a violation." % len(results),
        "evaluations": len(results), "distinct_nontrivial": len(distinct),
        "rule": "distinct (generated network name, operator list, leading options); all are non-trivial (at least one operator)",
        "status_counts": dict(stat), "family_counts": dict(fams),
        "samples": [{"net": r.get("net_name"), "ops": r.get("net_desc"), "args": r["job"]["args"], "status": r["status"]} for r in results[:4]],
    })
    vlib.proof_coverage(res, b, ["generated TFLite models (tools/netgen.py) stand for 'structurally valid flatbuffers'"])
    res.assumptions += ["numpy version of /venv (%s) is one the package's unpinned dependency admits" % __import__("numpy").__version__]
    for ks, rs in bad.items():
        k = json.loads(ks)
        r = rs[0]
        res.violation(k, {"count": len(rs), "net": r.get("net_name"), "ops": r.get("net_desc"), "job": r["job"],
                          "exception": r.get("exception"), "traceback": r.get("traceback"), "stdout_tail": (r.get("stdout") or "")[-1500:],
                          "replay_cmd": "cd /verif && /venv/bin/python tools/vela_worker.py %s/job.json" % r["job"]["out_dir"]},
                      "compiler died with %s at %s on generated model %s (%d of %d compilations)" % (
                          k["exception_type"], k["crash_site"], r.get("net_name"), len(rs), len(results)))
    if not b["ok"] and not bad:
        vlib.report_broken_build(res, b, None)
    elif not b["ok"]:
        res.notes.append("proof obligation broken as well: " + json.dumps(b["errors"][:1]))
    compiles.prune_cache()
    return res.finish()
