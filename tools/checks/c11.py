"""C11 -- model interface and CPU-resident operators preserved verbatim (translation validation with
a proved checker, theorems check_preserved_sound / check_preserved_model_sound in props/C11.v). The
harness computes a matching per subgraph (untrusted witness); the extracted checker (build/preserve,
model/DispatchPreserve.v) decides on the WHOLE model: every subgraph of the source against the subgraph
of the same index of the output, equal subgraph counts. Also: the output parses with Vela's own reader
and with the plain flatbuffer walker."""
import collections
import hashlib
import json

import artefacts
import compiles
import models
import tflsum
import vlib

FAMS = ["mixed_cpu", "unsupported", "ew_dag", "multi_custom", "mixed_cpu", "diamond", "single", "unsupported", "lut_heavy", "conv_chain",
        "multi_subgraph", "lstm", "rewrite_patterns"]


def h(*parts):
    return int.from_bytes(hashlib.sha256(json.dumps(parts, sort_keys=True, default=str).encode()).digest()[:7], "big") + 1


def tens_sig(t):
    q = t["quant"] or {"scale": [], "zero_point": [], "qdim": 0}
    # an absent quantisation table and an empty one denote the same thing
    # (the variable flag only enters the signature when set, so that the signatures of ordinary tensors stay what they were)
    return h(t["name"], t["shape"], t["type"], q["scale"], q["zero_point"], q["qdim"] if q["scale"] else 0,
             q.get("min") or [], q.get("max") or [], *(["variable"] if t.get("variable") else []))


def op_sig(o, sg=None):
    # an absent options table and an empty one (no field set) carry the same options
    opts = o["options"] or {}
    otype = o["options_type"] if opts else ""
    # intermediates (the quantisation records an integer LSTM kernel reads its gate scales from) are part of what the
    # operator is: their signatures, in order
    inter = []
    if sg is not None and o.get("intermediates"):
        inter = [tens_sig(sg["tensors"][i]) if 0 <= i < len(sg["tensors"]) else -1 for i in o["intermediates"]]
    return h(o["opcode"], o["custom_code"], o["version"], otype, opts, o["custom_options"], *inter)


def flat_graph(sg):
    f = [len(sg["tensors"])]
    for t in sg["tensors"]:
        f += [tens_sig(t), h(t["data_sha"]) if t["data_len"] else 0]
    f.append(len(sg["operators"]))
    for o in sg["operators"]:
        npu = 1 if (o["opcode"] == "CUSTOM" and o["custom_code"] == "ethos-u") else 0
        f += [op_sig(o, sg), npu, len(o["inputs"])] + o["inputs"] + [len(o["outputs"])] + o["outputs"]
    f += [len(sg["inputs"])] + sg["inputs"] + [len(sg["outputs"])] + sg["outputs"]
    return f


def witness(src, out):
    """psi: out tensor -> src tensor by name (non-constants); phi: out CPU op -> src op by signature and output names"""
    by_name = collections.defaultdict(list)
    for i, t in enumerate(src["tensors"]):
        if not t["data_len"]:
            by_name[t["name"]].append(i)
    psi = {}
    used = set()
    for i, t in enumerate(out["tensors"]):
        if t["data_len"]:
            continue
        for j in by_name.get(t["name"], []):
            if j not in used:
                psi[i] = j
                used.add(j)
                break
    phi = {}
    usedo = set()
    for i, o in enumerate(out["operators"]):
        if o["opcode"] == "CUSTOM" and o["custom_code"] == "ethos-u":
            continue
        sig = op_sig(o, out)
        names = [out["tensors"][t]["name"] for t in o["outputs"]]
        best = None
        for j, s in enumerate(src["operators"]):
            if j in usedo or op_sig(s, src) != sig:
                continue
            if [src["tensors"][t]["name"] for t in s["outputs"]] == names:
                best = j
                break
            if best is None:
                best = j
        if best is not None:
            phi[i] = best
            usedo.add(best)
    return psi, phi


def explain(src, out, psi, phi):
    """diagnostic only: first concrete difference"""
    for k, (a, b) in enumerate(zip(out["inputs"], src["inputs"])):
        if tens_sig(out["tensors"][a]) != tens_sig(src["tensors"][b]):
            return "subgraph input %d differs: %r vs %r" % (k, {x: out["tensors"][a][x] for x in ("name", "shape", "type", "quant")},
                                                            {x: src["tensors"][b][x] for x in ("name", "shape", "type", "quant")})
    if len(out["inputs"]) != len(src["inputs"]) or len(out["outputs"]) != len(src["outputs"]):
        return "number of subgraph inputs/outputs differs"
    for k, (a, b) in enumerate(zip(out["outputs"], src["outputs"])):
        if tens_sig(out["tensors"][a]) != tens_sig(src["tensors"][b]):
            return "subgraph output %d differs: %r vs %r" % (k, {x: out["tensors"][a][x] for x in ("name", "shape", "type", "quant")},
                                                             {x: src["tensors"][b][x] for x in ("name", "shape", "type", "quant")})
    for i, o in enumerate(out["operators"]):
        if o["opcode"] == "CUSTOM" and o["custom_code"] == "ethos-u":
            continue
        if i not in phi:
            return "CPU operator %d (%s) of the output has no source operator with identical code/version/options" % (i, o["opcode"])
        s = src["operators"][phi[i]]
        for kind in ("inputs", "outputs"):
            if len(o[kind]) != len(s[kind]):
                return "operator %d (%s): number of %s differs" % (i, o["opcode"], kind)
            for a, b in zip(o[kind], s[kind]):
                if a < 0 or b < 0:
                    if not (a < 0 and b < 0):
                        return "operator %d (%s): optional %s differs" % (i, o["opcode"], kind)
                    continue
                ta, tb = out["tensors"][a], src["tensors"][b]
                if tens_sig(ta) != tens_sig(tb) or (ta["data_len"] and ta["data_sha"] != tb["data_sha"]) or \
                        (not ta["data_len"] and psi.get(a) != b):
                    return "operator %d (%s): %s tensor %r vs source %r (name/shape/type/quant/data or wiring differs)" % (
                        i, o["opcode"], kind[:-1], {x: ta[x] for x in ("name", "shape", "type", "quant", "data_sha")},
                        {x: tb[x] for x in ("name", "shape", "type", "quant", "data_sha")})
    return "data-dependency order or absorbed-operator accounting fails"


def flat_model(src, out):
    """input of CMD check_preserved_model: every subgraph of both models and one witness per output subgraph"""
    ss, oo = src["subgraphs"], out["subgraphs"]
    wits = [witness(ss[k], oo[k]) if k < len(ss) else ({}, {}) for k in range(len(oo))]
    flat = [len(ss)]
    for g in ss:
        flat += flat_graph(g)
    flat.append(len(oo))
    for g in oo:
        flat += flat_graph(g)
    flat.append(len(wits))
    for psi, phi in wits:
        flat += [len(psi)] + [x for kv in psi.items() for x in kv] + [len(phi)] + [x for kv in phi.items() for x in kv]
    return flat, wits


def explain_model(src, out, wits):
    """diagnostic only: (index of the first subgraph that differs or None, text)"""
    ss, oo = src["subgraphs"], out["subgraphs"]
    if len(ss) != len(oo):
        return None, "number of subgraphs differs: source %d, output %d" % (len(ss), len(oo))
    for k, (s, o, (psi, phi)) in enumerate(zip(ss, oo, wits)):
        one = [1] + flat_graph(s) + [1] + flat_graph(o) + [1, len(psi)] + [x for kv in psi.items() for x in kv] + \
              [len(phi)] + [x for kv in phi.items() for x in kv]
        if models.run("check_preserved_model", [one], exe_name="preserve") != [[1]]:
            return k, explain(s, o, psi, phi)
    return None, "subgraphs are accepted one by one but not together"


def reader_output_lists(data, rng=None):
    """what the real reader makes of the subgraph output lists of a model (bytes): per subgraph
    (original index list, [n] + duplicate-free list as tensor indices + original_output_positions).  With rng the
    output index vectors are first overwritten in place with random picks among their own entries (so that lists with
    repeated tensors, which generated models seldom have, are exercised)."""
    import contextlib, io
    from ethosu.vela import tflite_reader
    from ethosu.vela.tflite import Model
    buf = bytearray(data)
    model = Model.Model.GetRootAsModel(buf, 0)
    for k in range(model.SubgraphsLength()):
        v = model.Subgraphs(k).OutputsAsNumpy()
        if rng is not None and not isinstance(v, int) and len(v) >= 2:
            pool = [int(x) for x in v]
            new = [rng.choice(pool) for _ in pool]
            import struct
            raw = struct.pack("<%di" % len(pool), *pool)
            hits = [i for i in range(0, len(buf) - len(raw) + 1, 4) if buf[i:i + len(raw)] == raw and
                    struct.unpack_from("<I", buf, i - 4)[0] == len(pool)] if len(raw) else []
            if len(hits) == 1:
                struct.pack_into("<%di" % len(pool), buf, hits[0], *new)     # the vector's own bytes (length-prefixed int32)
    model = Model.Model.GetRootAsModel(buf, 0)
    with contextlib.redirect_stdout(io.StringIO()):
        g = tflite_reader.TFLiteGraph(buf, 1, {}, [], [])
    rows = []
    for k, (tsg, sg) in enumerate(zip(g.subgraphs, g.nng.subgraphs)):
        v = model.Subgraphs(k).OutputsAsNumpy()
        orig = [] if isinstance(v, int) else [int(x) for x in v]
        idx = {id(t): i for i, t in enumerate(tsg.tensors)}
        nv = len(tsg.virtual_outputs)
        held = sg.output_tensors[:len(sg.output_tensors) - nv] if nv else list(sg.output_tensors)
        pos = sg.original_output_positions
        rows.append((orig, [len(held)] + [idx[id(t)] for t in held] + [int(x) for x in (pos if pos is not None else [])]))
        if rng is None:                          # the input list, as it is in the file
            vi = model.Subgraphs(k).InputsAsNumpy()
            origi = [] if isinstance(vi, int) else [int(x) for x in vi]
            posi = sg.original_input_positions
            rows.append((origi, [len(sg.original_inputs)] + [idx[id(t)] for t in sg.original_inputs] +
                         [int(x) for x in (posi if posi is not None else [])]))
    return rows


def run(tier):
    res = vlib.Result("C11", tier, "translation_validation")
    b = vlib.build_property("C11")
    okx, xlog = vlib.build_extraction("preserve")
    n = 64 if tier == "quick" else 1600
    jobs = compiles.corpus_jobs(capture=False) + compiles.plan(FAMS, n, vlib.seed(), tag="c11", capture=False)
    # networks only this check compiles (interfaces that the execution-based checks' harnesses do not feed: a tensor listed
    # twice among the subgraph inputs)
    import glob, os
    for f in sorted(glob.glob(os.path.join(vlib.ROOT, "corpus", "c11", "*.json"))):
        d = json.load(open(f))
        path = os.path.join(os.path.dirname(f), d["tflite"])
        jobs.append({"tflite": path, "sha": hashlib.sha256(open(path, "rb").read()).hexdigest()[:16], "args": d["args"],
                     "capture": False, "family": "corpus", "seed": "c11/" + os.path.basename(f)})
    import netgen
    import random
    rk = random.Random("c11kinds/%d" % vlib.seed())
    for rep in range(1 if tier == "quick" else 8):
        for kind in netgen.UNSUPPORTED_KINDS:
            jobs.append({"family": "unsupported:" + kind, "seed": "c11k-%d-%d" % (vlib.seed(), rep), "args": compiles.config_args(rk), "capture": False})
    # every kind of multi-subgraph model (WHILE / IF / CALL_ONCE; 2..4 subgraphs) at least once
    for rep in range(1 if tier == "quick" else 12):
        for kind in sorted(set(netgen.MULTI_KINDS)):
            jobs.append({"family": "multi_subgraph:" + kind, "seed": "c11m-%d-%d" % (vlib.seed(), rep), "args": compiles.config_args(rk), "capture": False})
    # a CPU-resident producer that has an NPU block type, followed by each kind of NPU-supported successor
    for rep in range(1 if tier == "quick" else 4):
        for kind in ("pool_stride4", "dw_stride4", "big_stride", "dilation"):
            for fol in ("logistic", "tanh", "lrelu", "relu", "conv", "add_self"):
                acc = ["ethos-u55-128", "ethos-u65-256", "ethos-u55-64"][(len(jobs) + rep) % 3]
                jobs.append({"family": "unsupported:%s+%s" % (kind, fol), "seed": "c11f-%d-%d" % (vlib.seed(), rep),
                             "args": ["--accelerator-config", acc], "capture": False})
    results = compiles.run_all(jobs, timeout=900)
    cases, meta, skipped = [], [], collections.Counter()
    ol_cases, ol_errors = [], []
    reparse_fail = []
    from ethosu.vela import model_reader
    for r in results:
        if r["status"] != "ok":
            skipped[r["status"]] += 1
            continue
        art = artefacts.load(r)
        if not art:
            continue
        import os
        src_path = os.path.join(r["job"]["out_dir"], "model.tflite")
        if not os.path.exists(src_path):
            src_path = r["job"].get("tflite")          # corpus networks are compiled from their own file
        src = tflsum.summarise(src_path)
        out = art["summary"]
        # the written file parses back with Vela's own reader
        try:
            import contextlib, io
            with contextlib.redirect_stdout(io.StringIO()):
                nng, _ = model_reader.read_model(art["path"], model_reader.ModelReaderOptions())
            if nng is None:
                reparse_fail.append((r, "read_model returned nothing"))
        except BaseException as ex:  # noqa
            reparse_fail.append((r, "%s: %s" % (type(ex).__name__, ex)))
        try:
            data = open(src_path, "rb").read()
            for variant in range(4):
                for row in reader_output_lists(data, None if variant == 0 else random.Random("c11ol/%s/%d" % (r["job"]["seed"], variant))):
                    if variant == 0 or len(row[0]) >= 2:        # variant 0: output and input list of every subgraph
                        ol_cases.append(row)
        except BaseException as ex:  # noqa
            ol_errors.append("%s: %s: %s" % (r.get("net_name"), type(ex).__name__, ex))
        flat, wits = flat_model(src, out)
        cases.append(flat)
        meta.append((r, src, out, wits))
    outs = models.run_parallel("check_preserved_model", cases, exe_name="preserve") if okx and cases else []
    # the reader's duplicate-free output list and original_output_positions against model/OutputList.v (dedup, positions)
    ol_distinct = sorted(set((tuple(a), tuple(b)) for a, b in ol_cases))
    ol_outs = models.run_parallel("output_list", [list(a) for a, _ in ol_distinct], exe_name="preserve") if okx and ol_distinct else []
    ol_diffs = [(a, b, o) for (a, b), o in zip(ol_distinct, ol_outs) if list(b) != list(o)]
    programs, rejected, samples = 0, [], []
    with_cpu = multi_sg = subgraphs = cpu_consts_off0 = 0
    for (r, src, out, wits), o in zip(meta, outs):
        programs += 1
        s0, o0 = src["subgraphs"][0], out["subgraphs"][0]
        ncpu = 0
        for k, og in enumerate(out["subgraphs"]):
            subgraphs += 1
            for op in og["operators"]:
                if not (op["opcode"] == "CUSTOM" and op["custom_code"] == "ethos-u"):
                    ncpu += 1
                    if k + 1 < len(out["subgraphs"]) and len(out["subgraphs"]) > 1:
                        # constant operands of CPU operators in a subgraph that is not the last one
                        cpu_consts_off0 += sum(1 for t in op["inputs"] if t >= 0 and og["tensors"][t]["data_len"])
        if ncpu:
            with_cpu += 1
        if len(src["subgraphs"]) > 1:
            multi_sg += 1
        if o != [1]:
            k, why = explain_model(src, out, wits)
            rejected.append((r, why if k is None else "subgraph %d '%s': %s" % (k, src["subgraphs"][k]["name"], why), k, why))
        if len(samples) < 4 and ncpu and (ncpu < len(o0["operators"]) and len(samples) < 3 or len(src["subgraphs"]) > 1):
            samples.append({"net": r.get("net_name"),
                            "source_ops": [[x["opcode"] for x in g["operators"]] for g in src["subgraphs"]],
                            "output_ops": [[x["custom_code"] or x["opcode"] for x in g["operators"]] for g in out["subgraphs"]],
                            "matched_cpu_ops": sum(len(w[1]) for w in wits)})
    res.cov["output_list_correspondence"] = {
        "cases": len(ol_cases), "distinct_lists": len(ol_distinct), "lists_with_a_repeated_tensor": sum(1 for a, _ in ol_distinct if len(set(a)) < len(a)),
        "length_histogram": dict(collections.Counter(len(a) for a, _ in ol_distinct)), "differences": len(ol_diffs), "reader_errors": ol_errors[:5],
        "what": "tflite_reader.TFLiteGraph on every source model and on three variants whose output index vectors are overwritten in place "
                "with random picks among their own entries: (duplicate-free list, original_output_positions) == (dedup, positions) of model/OutputList.v"}
    for a, b, o in ol_diffs[:5]:
        res.violation({"correspondence": "output_list", "outputs": list(a)}, {"outputs": list(a), "reader": list(b), "model": list(o)},
                      "C11: the reader's output list for subgraph outputs %s is %s, the model says %s" % (list(a), list(b), list(o)))
    if ol_errors or (okx and not ol_distinct):
        res.violation({"correspondence": "output_list", "machinery": "reader run failed"}, {"errors": ol_errors[:5]},
                      "C11: output list correspondence could not run: %s" % (ol_errors[:1],))
    res.cov.update({
        "programs": programs, "disagreements_checked": len(rejected) + len(reparse_fail), "samples": samples or [{"note": "none"}],
        "programs_with_cpu_operators": with_cpu, "skipped": dict(skipped),
        "programs_with_several_subgraphs": multi_sg, "subgraph_pairs_validated": subgraphs,
        "constant_operands_of_cpu_operators_outside_the_last_subgraph": cpu_consts_off0,
        "evaluations": len(results), "distinct_nontrivial": with_cpu,
        "rule": "one program = (source model, output model) of one compilation, ALL subgraphs of both (the validator pairs subgraph k "
                "with subgraph k and requires equal counts); non-trivial = the output keeps at least one CPU operator",
    })
    vlib.proof_coverage(res, b, ["tools/tflsum.py (plain flatbuffer walk) produces both summaries; signatures are 56-bit hashes of "
                                 "(name, shape, type, quantisation) / (opcode, custom code, version, option fields, custom option bytes)",
                                 "the matching is computed by the harness and only checked by the proved validator"])
    res.assumptions += ["sampled compilations", "hash collisions of 56-bit signatures are ignored"]
    for r, why, k, why_sg in rejected:
        key = {"net": r.get("net_name"), "seed": r["job"]["seed"], "why": why[:40]}
        if why_sg == "number of subgraph inputs/outputs differs" and k is not None:
            import os
            sp = os.path.join(r["job"]["out_dir"], "model.tflite")
            s0 = tflsum.summarise(sp if os.path.exists(sp) else r["job"].get("tflite"))["subgraphs"][k]
            o0 = artefacts.load(r)["summary"]["subgraphs"][k]
            dedup = []
            for t in s0["outputs"]:
                if t not in dedup:
                    dedup.append(t)
            if len(dedup) < len(s0["outputs"]) and len(o0["outputs"]) == len(dedup) and len(o0["inputs"]) == len(s0["inputs"]):
                key = {"defect": "duplicate_subgraph_output_collapsed", "net": r.get("net_name"), "seed": r["job"]["seed"]}
                why = "a tensor listed twice among the subgraph outputs of the source appears once in the output model"
        res.violation(key,
                      {"job": r["job"], "reason": why, "ops": r.get("net_desc"),
                       "replay_cmd": "cd /verif && /venv/bin/python tools/vela_worker.py %s/job.json" % r["job"]["out_dir"]},
                      "C11: %s (net %s)" % (why[:300], r.get("net_name")))
    for r, why in reparse_fail:
        res.violation({"net": r.get("net_name"), "seed": r["job"]["seed"], "why": "reparse"},
                      {"job": r["job"], "reason": why}, "C11: output model does not parse back with Vela's reader: %s" % why[:200])
    if not rejected and not reparse_fail:
        if not b["ok"]:
            vlib.report_broken_build(res, b, None)
        elif not okx or programs == 0:
            res.violation({"machinery": "no program validated"}, {"extraction_ok": okx, "skipped": dict(skipped)},
                          "no output model could be validated", no_input=True)
    return res.finish()
