"""C09 -- quantised multipliers reproduce the real scale to reference precision.

Proof: coq/props/C09.v (quantise_scale / reduced_quantise_scale / quantise_pooling_scale are translated
from the source on every run and tied to integer twins by gen_*_eq lemmas).
Correspondence (device H): the float -> dyadic step of the translated functions and the hand model of
the elementwise mul/add/sub derivations (rounded dyadic arithmetic) are compared with the real Python
functions on Python floats, np.float64 and np.float32 arguments.
Property oracles (independent Python, exact integers / fractions) are evaluated on the implementation's
outputs, including the two call sites of register_command_stream_generator that turn the pairs into
OFM_SCALE / OPA_SCALE / OPB_SCALE registers."""
import math
import multiprocessing
import random
from fractions import Fraction

import vlib
import models

EXE = "scaling"
T31 = 1 << 31


# ------------------------------------------------------------------------------------------------
# exact decomposition of floats
def decomp(x):
    """(m, e) with x == m * 2**e exactly, from float.hex() (independent of math.frexp)"""
    h = float(x).hex()
    sign = 1
    if h[0] == "-":
        sign, h = -1, h[1:]
    mant, exp = h[2:].split("p")
    ip, _, fp = mant.partition(".")
    m = int(ip + fp, 16)
    e = int(exp) - 4 * len(fp)
    if m == 0:
        return 0, 0
    return sign * m, e


def strip(m, e):
    while m and m % 2 == 0:
        m //= 2
        e += 1
    return m, e


def pow2(e):
    return Fraction(1 << e) if e >= 0 else Fraction(1, 1 << -e)


def frac(m, e):
    return m * pow2(e)


def round_half_away(fr):
    a = abs(fr)
    r = (2 * a.numerator + a.denominator) // (2 * a.denominator)
    return r if fr >= 0 else -r


# ------------------------------------------------------------------------------------------------
# TFLite reference derivations transcribed (quantization_util.cc QuantizeMultiplier; add.cc/sub.cc/mul.cc Prepare)
def tfl_qm(d):
    d = float(d)
    if d == 0.0:
        return 0, 0
    q, shift = math.frexp(d)
    q_fixed = round_half_away(Fraction(q) * T31)
    if q_fixed == T31:
        q_fixed //= 2
        shift += 1
    if shift < -31:
        shift, q_fixed = 0, 0
    return q_fixed, shift


def tfl_value(t):
    return t[0] * pow2(t[1] - 31)


def vela_value(v):
    return v[0] * pow2(-v[1])


def tfl_add_ref(in1, in2, out, left_shift):
    in1, in2, out = float(in1), float(in2), float(out)      # params.scale (float) widened to double
    twice = 2.0 * max(in1, in2)
    return tfl_qm(in1 / twice), tfl_qm(in2 / twice), tfl_qm(twice / ((1 << left_shift) * out))


def tfl_mul_ref(in1, in2, out):
    """both reference evaluations: TFLite Micro (double) and TFLite mul.cc (float expression widened)"""
    import numpy as np
    d = tfl_qm(float(in1) * float(in2) / float(out))
    with np.errstate(all="ignore"):
        f = tfl_qm(float(np.float32(in1) * np.float32(in2) / np.float32(out)))
    return d, f


# ------------------------------------------------------------------------------------------------
# property oracles (exact)
def range_class(X):
    """"in": the scale must get an accurate pair; "out": it must get a zero multiplier; "edge": the two slivers
    [2^E * (1 - 2^-32), 2^E) for E = 31 and E = -33 whose significand rounds up to the next power of two: 2^31 is
    not representable with a shift >= 0 (degrading is right), 2^-33 = 2^30 * 2^-63 is (an accurate pair is right);
    the property text does not fix the edge of the range to a relative 2^-32, so either is accepted there,
    but a non-zero pair still has to be accurate."""
    up = 1 - pow2(-32)
    if X >= pow2(31) or X < pow2(-33) * up:
        return "out"
    if X >= pow2(31) * up or X < pow2(-33):
        return "edge"
    return "in"


def oracle_quantise(m, e, q, s):
    """m * 2^e > 0 is the scale, (q, s) what quantise_scale returned. None or a reason."""
    X = frac(m, e)
    rc = range_class(X)
    if q == 0:
        return None if rc != "in" else "scale in the hardware range degraded to a zero multiplier"
    if rc == "out":
        return "scale outside the hardware range gave multiplier %d, not 0" % q
    if not (1 << 30) <= q <= T31:
        return "multiplier %d not in [2^30, 2^31]" % q
    if not 0 <= s <= 63:
        return "shift %d not in [0, 63]" % s
    if abs(q * pow2(-s) - X) > X * pow2(-31):
        return "relative error of %d * 2^-%d exceeds 2^-31" % (q, s)
    t = tfl_qm(float(X)) if X == Fraction(float(X)) else None
    if t is not None and s <= 62 and tfl_value(t) != q * pow2(-s):
        return "differs from the reference QuantizeMultiplier %r" % (t,)
    return None


def oracle_reduced(m, e, q, s):
    X = frac(m, e)
    rc = range_class(X)
    if q == 0:
        return None if rc != "in" else "scale in the hardware range degraded to a zero reduced multiplier"
    if rc == "out":
        return "scale outside the range gave reduced multiplier %d, not 0" % q
    if not 0 < q <= 32767:
        return "reduced multiplier %d not in (0, 32767]" % q
    if abs(q * pow2(-s) - X) > X * pow2(-14):
        return "relative error of reduced pair (%d, %d) exceeds 2^-14" % (q, s)
    return None


def hw_scale(acc, scale, shift):
    """what the NPU does with a global OFM scale (natural rounding)"""
    return acc * scale if shift == 0 else (acc * scale + (1 << (shift - 1))) >> shift


def pool_first_failure(n, scale, shift, lo_mult, hi_mult, mode):
    """first accumulator in [lo_mult*n, hi_mult*n] whose scaled, rounded value is not acc/n rounded to nearest with
    halves up (non-negative accumulators); for negative accumulators any nearest integer is accepted.
    mode "full": the boundary accumulators of every quotient; "top": only the accumulators just below a tie in
    the residue classes closest to it at both ends of the range (where the error term is largest)."""
    amin, amax = lo_mult * n, hi_mult * n

    def bad(acc):
        r = hw_scale(acc, scale, shift)
        if acc >= 0:
            return r != (2 * acc + n) // (2 * n)
        return abs(2 * acc - 2 * r * n) > n
    if mode == "full":
        for j in range(lo_mult - 1, hi_mult + 2):
            lo = ((2 * j - 1) * n + 1) // 2          # smallest acc rounding (half up) to j
            for acc in (lo - 1, lo, lo + 1):
                if amin <= acc <= amax and bad(acc):
                    return acc
    else:   # the quotients at both ends of the range and around zero
        for j in sorted({lo_mult, lo_mult + 1, -1, 0, 1, 2, hi_mult - 1, hi_mult}):
            lo = ((2 * j - 1) * n + 1) // 2
            for acc in (lo - 1, lo, lo + 1):
                if amin <= acc <= amax and bad(acc):
                    return acc
    for d in range(1, 9):
        if (d - n) % 2:
            continue
        for sign in (1, -1):
            top = amax if sign > 0 else -amin
            if top <= 0:
                continue
            jmax = (2 * top - n + d) // (2 * n)
            for j in range(max(0, jmax - 2), jmax + 1):
                acc = sign * ((2 * n * j + n - d) // 2)
                if amin <= acc <= amax and bad(acc):
                    return acc
    return None


def pool_smallest_failure(n, scale, shift, hi_mult):
    """smallest failing non-negative accumulator just below a tie (failures are monotone within a residue class)"""
    best = None
    for d in range(1, 9):
        if (d - n) % 2:
            continue
        jmax = (2 * hi_mult * n - n + d) // (2 * n)

        def acc_of(j):
            return (2 * n * j + n - d) // 2

        def bad(j):
            a = acc_of(j)
            return hw_scale(a, scale, shift) != (2 * a + n) // (2 * n)
        if jmax < 0 or not bad(jmax):
            continue
        lo, hi = 0, jmax
        while lo < hi:
            mid = (lo + hi) // 2
            if bad(mid):
                hi = mid
            else:
                lo = mid + 1
        if best is None or acc_of(lo) < best:
            best = acc_of(lo)
    return best


def _pool_worker(job):
    """real quantise_pooling_scale(n) for n in [lo, hi) + exactness oracles; returns failures"""
    lo, hi, full_limit = job
    from ethosu.vela import scaling
    out = {"n": 0, "evals": 0, "bad": [], "fail16": []}
    for n in range(lo, hi):
        try:
            s, sh = scaling.quantise_pooling_scale(n)
            s, sh = int(s), int(sh)
        except AssertionError:
            out["bad"].append(("pooling-assert", n, None, "", 0, 0))
            continue
        out["n"] += 1
        if not (T31 <= s < (1 << 32) and 0 <= sh < 64):
            out["bad"].append(("pooling-range", n, None, "", s, sh))
        mode = "full" if (n <= full_limit or n % 997 == 0) else "top"
        for name, a, c in (("uint8", 0, 255), ("int8", -128, 127)):
            acc = pool_first_failure(n, s, sh, a, c, mode)
            out["evals"] += 1
            if acc is not None:
                out["bad"].append(("pooling-8bit", n, acc, name, s, sh))
        if n <= 32768 or n in REACH16:
            acc = pool_first_failure(n, s, sh, -32768, 32767, "full" if n <= (64 if full_limit > 1000 else 6) else "top")
            out["evals"] += 1
            if acc is not None:
                out["fail16"].append((n, acc, s, sh))
    return out


# window sizes n = h*w with h, w <= 256: accepted by the supported-operator checks for a VALID average pool
REACH16 = frozenset(h * w for h in range(1, 257) for w in range(1, 257))


def same_value(v, t, ls=0):
    return vela_value(v) == tfl_value(t) * pow2(ls)


# ------------------------------------------------------------------------------------------------
# exhaustive float32 significand sweeps (worker processes)
def _sweep_worker(job):
    exp_field, start, stop, step = job
    import numpy as np
    from ethosu.vela import scaling
    bits = (np.arange(start, stop, step, dtype=np.uint32) | np.uint32(exp_field << 23)).astype(np.uint32)
    vals = bits.view(np.float32)
    e = exp_field - 127 - 23
    cases = []
    impl_q = []
    impl_r = []
    first_bad = None
    for i in range(len(vals)):
        x = vals[i]
        m = int(bits[i] & 0x7FFFFF) | 0x800000
        cases.append((m, e))
        q = scaling.quantise_scale(x)
        r = scaling.reduced_quantise_scale(x)
        impl_q.append([int(q[0]), int(q[1])])
        impl_r.append([int(r[0]), int(r[1])])
    # exact integer oracle: scale = m * 2^e, 2^23 <= m < 2^24, so E = e + 24
    E = e + 24
    in_range = -32 <= E <= 31
    for (m, _), q, r in zip(cases, impl_q, impl_r):
        why = None
        if not in_range:
            if q[0] != 0 or r[0] != 0:
                why = "out of range but multiplier %r / %r" % (q, r)
        else:
            # |q 2^-s - m 2^e| <= m 2^(e-31)  with s = 31 - E:  |q 2^24 - m 2^31| <= m
            if q[1] != 31 - E or not (1 << 30) <= q[0] <= T31 or abs(q[0] * (1 << 24) - m * T31) > m:
                why = "quantise_scale %r inaccurate" % (q,)
            else:
                rs0 = 31 - E - 16
                K = max(rs0, -e, 0)
                if r[1] != rs0 or not 0 < r[0] <= 32767 or \
                        abs((r[0] << (K - rs0)) - (m << (K + e))) << 14 > (m << (K + e)):
                    why = "reduced_quantise_scale %r inaccurate" % (r,)
        if why and first_bad is None:
            first_bad = (m, e, why)
    mq = models.run("quantise_scale", cases, exe_name=EXE)
    mr = models.run("reduced_quantise_scale", cases, exe_name=EXE)
    diff = None
    ndiff = 0
    for c, a, b2, x, y in zip(cases, impl_q, mq, impl_r, mr):
        if a != b2 or x != y:
            ndiff += 1
            if diff is None:
                diff = (c, a, b2, x, y)
    distinct = len({tuple(a) for a in impl_q})
    return len(cases), ndiff, diff, first_bad, distinct


# ------------------------------------------------------------------------------------------------
# G. packed scale records of compiled single-operator networks (D2)
G_ACCS = [["--accelerator-config", "ethos-u55-128"], ["--accelerator-config", "ethos-u65-512"],
          ["--accelerator-config", "ethos-u65-256"], ["--accelerator-config", "ethos-u55-256", "--optimise", "Size"]]


def g_specs(thorough):
    specs = []
    i = 0
    for rep in range(8 if thorough else 1):
        for kind in ("conv", "conv_head", "dw", "fc"):
            for dtype, per_axis in (("int8", False), ("int8", True), ("uint8", False), ("int16", False), ("int16", True)):
                if kind == "fc" and per_axis:
                    continue
                specs.append({"kind": kind, "dtype": dtype, "per_axis": per_axis, "rep": rep, "args": G_ACCS[i % len(G_ACCS)]})
                i += 1
        # the choice between the full and the reduced form is by (IFM type, bias type): only int16 with an int64 bias is
        # reduced.  int16 with an int32 bias (valid; the reference then uses the full QuantizeMultiplier pair), and no bias
        for kind, dtype, bias in (("conv", "int16", "int32"), ("conv_head", "int16", "int32"), ("dw", "int16", "int32"),
                                  ("fc", "int16", "int32"), ("conv", "int8", "none"), ("fc", "int8", "none"), ("conv", "uint8", "none")):
            specs.append({"kind": kind, "dtype": dtype, "per_axis": False, "rep": rep, "bias": bias, "args": G_ACCS[i % len(G_ACCS)]})
            i += 1
        # convolutions sharing ONE filter and ONE bias constant with different output quantisations (siamese / unrolled
        # networks): every operator must get the records of its own output scale
        for j, (dtype, per_axis) in enumerate((("int8", False), ("int8", True), ("uint8", False), ("int16", False), ("int8", False))):
            specs.append({"kind": "siamese", "dtype": dtype, "per_axis": per_axis, "rep": rep, "variant": j,
                          "args": [["--accelerator-config", "ethos-u65-512"], ["--accelerator-config", "ethos-u55-128"],
                                   ["--accelerator-config", "ethos-u65-256"]][(j + rep) % 3]})
    return specs


def g_build(spec):
    """-> (Net, metas): metas, one per convolution-type source operator (keyed by the name of its output tensor):
    operator kind, data type and the float32 scales of the file"""
    import netgen
    import numpy as np
    rng = random.Random("c09g/%s/%s/%s/%s/%s/%s/%s" % (spec["kind"], spec["dtype"], spec["per_axis"], spec["rep"], spec.get("variant", 0),
                                                      spec.get("bias", "default"), vlib.seed()))
    net = netgen.Net("c09_%s_%s" % (spec["kind"], spec["dtype"]))
    dt, kind = spec["dtype"], spec["kind"]
    if kind == "fc":
        x = netgen._inp(net, rng, [1, rng.choice([8, 16, 33, 100])], dt)
        net.output(netgen.fully_connected(net, rng, x, rng.choice([2, 10, 16, 33])))
    elif kind == "conv_head":
        x = netgen._inp(net, rng, [1, 1, 1, rng.choice([8, 16, 17, 32, 64])], dt)
        net.output(netgen.conv2d(net, rng, x, rng.choice([2, 8, 10, 16, 33]), (1, 1), (1, 1), (1, 1), "SAME", "NONE",
                                 per_axis=spec["per_axis"]))
    elif kind == "conv":
        x = netgen._inp(net, rng, [1, rng.choice([4, 7, 9]), rng.choice([4, 6, 11]), rng.choice([3, 8, 16])], dt)
        k = rng.choice([(1, 1), (3, 3), (2, 3)])
        net.output(netgen.conv2d(net, rng, x, rng.choice([3, 8, 16, 33]), k, (1, 1), (1, 1), "SAME", rng.choice(["NONE", "RELU"]),
                                 per_axis=spec["per_axis"]))
    elif kind == "siamese":
        # as netgen.fam_siamese, with the data type (incl. int16 / int64 bias) and per-channel weights chosen by the spec
        h, w, c = rng.choice([8, 12, 16]), rng.choice([8, 12, 16]), rng.choice([2, 3, 4, 8])
        sc, zp = netgen._rs(rng, 0.005, 0.1), netgen._zp(rng, dt)
        a = net.input([1, h, w, c], dt, sc, zp, name="input0")
        b = net.input([1, h, w, c], dt, sc, zp, name="input1")
        k = rng.choice([(3, 3), (1, 1), (2, 2)])
        st = rng.choice([(2, 2), (1, 1)])
        oc = rng.choice([4, 8, 16])
        ya = netgen.conv2d(net, rng, a, oc, k, st, (1, 1), "SAME", rng.choice(["NONE", "RELU"]), per_axis=spec["per_axis"])
        shared = net.ops[-1]["inputs"][1:]
        outs = [ya, netgen.conv2d(net, rng, b, oc, k, st, (1, 1), "SAME", "NONE", share=shared)]
        if spec.get("variant", 0) % 2 == 0:      # a third user of the same constants behind another operator
            m = netgen.pool(net, rng, a, "MAX_POOL_2D", (1, 1), (1, 1), "VALID")
            outs.append(netgen.conv2d(net, rng, m, oc, k, st, (1, 1), "SAME", "NONE", share=shared))
        net.output(*outs)
    else:
        x = netgen._inp(net, rng, [1, rng.choice([4, 7, 9]), rng.choice([4, 6, 11]), rng.choice([3, 8, 16, 24])], dt)
        net.output(netgen.depthwise(net, rng, x, (3, 3), (1, 1), (1, 1), "SAME", per_axis=spec["per_axis"]))
    f32 = lambda v: float(np.float32(v))
    metas = {}
    for o in net.ops:
        if o["kind"] not in ("CONV_2D", "DEPTHWISE_CONV_2D", "FULLY_CONNECTED"):
            continue
        if spec.get("bias") == "int32" and len(o["inputs"]) > 2 and o["inputs"][2] is not None:
            bt_ = o["inputs"][2]
            bt_.dtype = "int32"
            bt_.data = np.asarray(bt_.data, dtype=np.int32)
        elif spec.get("bias") == "none" and len(o["inputs"]) > 2:
            o["inputs"] = o["inputs"][:2] + ([None] if o["kind"] == "FULLY_CONNECTED" else [])
        xin, wt, bt = o["inputs"][0], o["inputs"][1], (o["inputs"][2] if len(o["inputs"]) > 2 else None)
        y = o["outputs"][0]
        oc = y.shape[-1]
        ws = wt.scale if isinstance(wt.scale, (list, tuple)) else [wt.scale] * oc
        metas[y.name] = {"op": o["kind"], "dtype": dt, "oc": oc, "ifm_scale": f32(xin.scale), "ofm_scale": f32(y.scale),
                         "w_scales": [f32(v) for v in ws], "per_axis": bool(isinstance(wt.scale, (list, tuple))),
                         "bias_dtype": bt.dtype if bt is not None else None, "out": y.name,
                         # the reference rule: float product for uint8 and FULLY_CONNECTED, double product otherwise
                         "pprod": 24 if (dt == "uint8" or o["kind"] == "FULLY_CONNECTED") else 53,
                         "reduced": dt == "int16" and bt is not None and bt.dtype == "int64"}
    return net, metas


def g_read_records(words, flash, ncores):
    """walks the register command stream of the output file; for every convolution-type operation returns the scale
    bytes of each core (following the DMA that staged them from the read-only tensor).  Independent minimal reader."""
    from ethosu.vela.ethos_u55_regs.ethos_u55_regs import cmd0, cmd1
    c0 = {m.name: m.value for m in cmd0}
    c1 = {m.name: m.value for m in cmd1}
    FLASH = 0
    st = {"scale_region": 0, "base": [None, None], "len": [None, None], "dsrc": 0, "ddst": 0, "dlen": 0, "dsr": 0, "ddr": 0}
    staged = []         # (dst region, dst address, bytes) of DMAs out of the read-only tensor, latest last
    ops = []
    i = 0
    while i < len(words):
        w = words[i]
        code, param = w & 0x3FF, w >> 16
        if (w >> 14) & 1:
            val = words[i + 1] | (param << 32)
            if code == c1["NPU_SET_SCALE_BASE"]:
                st["base"][0] = val
            elif code == c1["NPU_SET_SCALE_LENGTH"]:
                st["len"][0] = words[i + 1]
            elif code == c1["NPU_SET_SCALE1_BASE"]:
                st["base"][1] = val
            elif code == c1["NPU_SET_SCALE1_LENGTH"]:
                st["len"][1] = words[i + 1]
            elif code == c1["NPU_SET_DMA0_SRC"]:
                st["dsrc"] = val
            elif code == c1["NPU_SET_DMA0_DST"]:
                st["ddst"] = val
            elif code == c1["NPU_SET_DMA0_LEN"]:
                st["dlen"] = val
            i += 2
            continue
        if code == c0["NPU_SET_SCALE_REGION"]:
            st["scale_region"] = param
        elif code == c0["NPU_SET_DMA0_SRC_REGION"]:
            st["dsr"] = param & 0x7
        elif code == c0["NPU_SET_DMA0_DST_REGION"]:
            st["ddr"] = param & 0x7
        elif code == c0["NPU_OP_DMA_START"]:
            if st["dsr"] == FLASH:
                staged.append((st["ddr"], st["ddst"], bytes(flash[st["dsrc"]:st["dsrc"] + st["dlen"]])))
        elif code in (c0["NPU_OP_CONV"], c0["NPU_OP_DEPTHWISE"]):
            per_core = []
            for c in range(ncores):
                base, ln = st["base"][c], st["len"][c]
                if base is None or ln is None:
                    per_core.append(None)
                    continue
                if st["scale_region"] == FLASH:
                    per_core.append(bytes(flash[base:base + ln]))
                    continue
                data = None
                for reg, dst, bs in reversed(staged):
                    if reg == st["scale_region"] and dst <= base and base + ln <= dst + len(bs):
                        data = bs[base - dst:base - dst + ln]
                        break
                per_core.append(data)
            ops.append(per_core)
        i += 1
    return ops


def g_decode(rec):
    bias = int.from_bytes(rec[0:5], "little")
    if bias >= 1 << 39:
        bias -= 1 << 40
    return bias, int.from_bytes(rec[5:9], "little"), rec[9] & 0x3F


def g_check(tier, res_violation_sink, okx):
    """compiles the networks, reads the records back, compares.  Returns (evals, dist, diffs, bads)"""
    import json
    import os
    import hashlib
    import shutil
    import numpy as np
    import compiles
    import artefacts
    specs = g_specs(tier == "thorough")
    ndir = os.path.join(vlib.BUILD, "c09_nets")
    os.makedirs(ndir, exist_ok=True)
    jobs, metas = [], []
    for sp in specs:
        net, ms = g_build(sp)
        data = net.build()
        sha = hashlib.sha256(data).hexdigest()[:16]
        path = os.path.join(ndir, "%s_%s.tflite" % (net.name, sha))
        if not os.path.exists(path):
            with open(path + ".tmp", "wb") as f:
                f.write(data)
            os.replace(path + ".tmp", path)
        jobs.append({"tflite": path, "sha": sha, "args": sp["args"], "capture": True, "family": "c09g", "seed": sha})
        for m in ms.values():
            m.update(spec=sp, path=path, sha=sha)
        metas.append(ms)
    results = compiles.run_all(jobs, timeout=300)
    evals, diffs, bads = 0, [], []
    dist = {"networks": len(jobs), "compiled_to_npu": 0, "not_on_npu": [], "unmapped": [], "records": 0,
            "by_kind": {}, "staged_by_dma": 0, "operators_sharing_constants": 0}
    cases, where = [], []
    for job, ms, r in zip(jobs, metas, results):
        sp = next(iter(ms.values()))["spec"]

        def tag_of(meta):
            return "%s%s/%s/%s%s" % (meta["op"], {"conv_head": "(head)", "siamese": "(shared constants)"}.get(sp["kind"], ""),
                                     meta["dtype"], "per-channel" if meta["per_axis"] else "per-tensor",
                                     {"int32": "/int32 bias", "none": "/no bias"}.get(sp.get("bias"), ""))
        tag0 = tag_of(next(iter(ms.values())))
        a = artefacts.load(r) if r.get("status") == "ok" else None
        if not a or not a["npu"] or not a.get("capture") or not a["capture"].get("streams"):
            dist["not_on_npu"].append(tag0 + ":" + str(r.get("status")))
            continue
        acc = artefacts.job_accel(job)
        ncores = 2 if acc == "ethos-u65-512" else 1
        npu = a["npu"][0]
        ops = g_read_records(npu["words"], npu["flash"], ncores)
        cops = [o for o in a["capture"]["streams"][0]["ops"] if o["cls"] in ("NpuConv2DOperation", "NpuConvDepthWiseOperation")]
        if len(ops) != len(cops) or not ops or len(a["npu"]) != 1:
            dist["unmapped"].append(tag0)
            continue
        dist["compiled_to_npu"] += 1
        if any(o.get("cmd", {}).get("kind") == "dma" for o in a["capture"]["streams"][0]["ops"]):
            dist["staged_by_dma"] += 1
        seen = {k: set() for k in ms}
        for per_core, co in zip(ops, cops):
            # the source operator of this NPU operation: Vela names an operator after its output tensor
            src = co["cmd"].get("primary_op_name")
            if src not in ms:
                src = (co["cmd"].get("ofm") or {}).get("name", "")
                src = src[:-4] if src.endswith("_cpu") else src
            if src not in ms:
                dist["unmapped"].append(tag0 + ":operator %s" % co["cmd"].get("primary_op_name"))
                continue
            meta = ms[src]
            tag = tag_of(meta)
            d0, d1 = co["cmd"]["ofm_box"]["start"][-1], co["cmd"]["ofm_box"]["end"][-1]
            for c in range(ncores):
                chans = list(range(d0 + c, d1, ncores))
                data = per_core[c]
                if not chans:
                    continue
                if data is None or len(data) < 10 * len(chans):
                    dist["unmapped"].append(tag + ":scale bytes")
                    continue
                for k, ch in enumerate(chans):
                    if ch in seen[src]:
                        continue
                    seen[src].add(ch)
                    _, mult, shift = g_decode(data[10 * k:10 * k + 10])
                    cases.append((meta["pprod"], 1 if meta["reduced"] else 0) + decomp(meta["ifm_scale"]) + decomp(meta["w_scales"][ch])
                                 + decomp(meta["ofm_scale"]))
                    where.append((meta, tag, ch, mult, shift, job))
        for src, meta in ms.items():
            tag = tag_of(meta)
            dist["by_kind"][tag] = dist["by_kind"].get(tag, 0) + len(seen[src])
            if len(seen[src]) != meta["oc"]:
                dist["unmapped"].append(tag + ":%s %d of %d channels" % (src, len(seen[src]), meta["oc"]))
        if sp["kind"] == "siamese":
            dist["operators_sharing_constants"] += len(ms)
    outs = models.run("conv_scale", cases, exe_name=EXE) if okx and cases else [None] * len(cases)
    for (meta, tag, ch, mult, shift, job), o in zip(where, outs):
        evals += 1
        dist["records"] += 1
        si, sw, so = meta["ifm_scale"], meta["w_scales"][ch], meta["ofm_scale"]
        # the reference, transcribed independently of the Coq model
        if meta["pprod"] == 24:
            eff = float(np.float64(np.float32(si) * np.float32(sw)) / np.float64(so))
        else:
            eff = float(np.float64(si) * np.float64(sw) / np.float64(so))
        q, stl = tfl_qm(eff)
        if o is not None and [q, stl] != o[2:4]:
            diffs.append(("tfl_conv_params(transcriptions)", {"scales": [si, sw, so], "pprod": meta["pprod"]}, [q, stl], o[2:4]))
        if meta["reduced"]:
            exp = ((q + 32768) >> 16 if q < 0x7FFF0000 else 0x7FFF, 15 - stl)
        else:
            exp = (q, 31 - stl)
        if o is not None and [mult, shift] != o[0:2]:
            diffs.append(("conv_packed_scale (record read back from %s)" % os.path.basename(meta["path"]),
                          {"net": tag, "channel": ch, "scales": [si, sw, so]}, [mult, shift], o[0:2]))
        got = Fraction(mult) * pow2(-shift)
        why = None
        exact = Fraction(si) * Fraction(sw) / Fraction(so)
        if meta["reduced"]:
            if not 0 < mult <= 32767:
                why = "reduced multiplier %d not in (0, 32767]" % mult
            elif abs(got - exact) > exact * pow2(-14):
                why = "relative error to the real scale exceeds 2^-14"
        else:
            if not (1 << 30) <= mult <= T31:
                why = "multiplier %d not in [2^30, 2^31]" % mult
            elif meta["pprod"] == 53 and abs(got - exact) > exact * (pow2(-31) + pow2(-51)):
                why = "relative error %.3g to the real scale exceeds 2^-31" % float(abs(got - exact) / exact)
            elif meta["pprod"] == 24 and abs(got - Fraction(eff)) > Fraction(eff) * pow2(-31):
                why = "relative error to the reference's effective scale exceeds 2^-31"
        if why is None and got != Fraction(exp[0]) * pow2(-exp[1]):
            why = "differs from the reference pair (%d, %d) [QuantizeMultiplier gives q=%d, shift=%d]" % (exp[0], exp[1], q, stl)
        if why and all(b_[0] != "packed-" + tag for b_ in bads):
            rdir = os.path.join(vlib.ROOT, "replay")
            os.makedirs(rdir, exist_ok=True)
            rp = os.path.join(rdir, "C09-net-%s.tflite" % meta["sha"])
            try:
                shutil.copyfile(meta["path"], rp)
            except OSError:
                rp = meta["path"]
            bads.append(("packed-" + tag,
                         {"artefact": "packed scale record", "operator": meta["op"], "kind": meta["spec"]["kind"], "dtype": meta["dtype"],
                          "per_channel": meta["per_axis"], "operator_output": meta["out"], "channel": ch, "network": meta["sha"]},
                         {"network": rp, "vela_args": job["args"], "operator": meta["op"], "operator_output": meta["out"], "spec": meta["spec"], "channel": ch,
                          "ifm_scale": si, "weight_scale": sw, "ofm_scale": so, "record": [mult, shift], "reference": list(exp),
                          "reference_rule": "double(float32(in*w))/double(out)" if meta["pprod"] == 24 else "double(in)*double(w)/double(out)",
                          "reason": why},
                         "compiled %s, operator writing %s: scale record of channel %d is (%d, %d): %s" % (tag, meta["out"], ch, mult, shift, why)))
    return evals, dist, diffs, bads


# ------------------------------------------------------------------------------------------------
# H. the (multiplier, shift) pairs IN FORCE at every pooling / elementwise operation of compiled multi-operator
#    networks (register snapshots of the emitted command stream)
H_FAMS = [("pow2_rescale", 6), ("ew_dag", 4), ("diamond", 3), ("multi_input", 2), ("single:quantize", 4), ("single:quant_chain", 4)]
H_ACCS = [["--accelerator-config", "ethos-u55-128"], ["--accelerator-config", "ethos-u65-512"], ["--accelerator-config", "ethos-u65-256"]]
K_OFM_SCALE, K_OPA_SCALE, K_OPB_SCALE = 1024 + 36, 1024 + 37, 1024 + 38
OP_POOL, OP_ELEMENTWISE = 5, 6


def h_parse_events(flat):
    """flat output of the extracted Npu.decode_stream -> [(code, param, {register: value})] of the operation events"""
    if not flat or flat[0] != 1:
        return None
    i, n, evs = 1, len(flat), []
    while i < n:
        t = flat[i]
        if t == 1:
            cnt = flat[i + 3]
            kv = flat[i + 4:i + 4 + 2 * cnt]
            evs.append((flat[i + 1], flat[i + 2], dict(zip(kv[0::2], kv[1::2]))))
            i += 4 + 2 * cnt
        elif t == 3:
            i += 2
        else:
            i += 3
    return evs


def h_walk(words):
    """fallback register-file walk in Python (same keys as Npu.decode_stream): used when build/velaverif is unavailable"""
    regs, evs, i = {}, [], 0
    while i < len(words):
        w = words[i]
        code, param = w & 0x3FF, w >> 16
        if (w >> 14) & 1:
            regs[1024 + code] = words[i + 1] + (param << 32)
            i += 2
            continue
        if code in (2, 3, 5, 6, 16):
            evs.append((code, param, dict(regs)))
        elif code >= 256:
            regs[code] = param
        i += 1
    return evs


def h_pair(regs, key):
    v = regs.get(key, 0)
    return (v & 0xFFFFFFFF, (v >> 32) & 0xFFFF)


R_IFM_PRECISION, R_IFM2_BROADCAST = 261, 384


def ew_per_tensor(a, c, ifm_is_first, smode, rev, opa, ls):
    """effective input multipliers (exact fractions, relative to the common left shift) that the programmed registers
    apply to the FIRST and to the SECOND source tensor, and the reference's (add.cc / sub.cc: scale / (2 * max)).
    Hardware reading (coq/hw/NpuExec.v): operand A is the IFM2 when the operand order is reversed, else the IFM; scale
    mode 1 multiplies operand A by the 32-bit OPA pair and only shifts operand B (an exact 1/2), mode 2 the converse."""
    scaled_is_ifm = (smode == 1) != bool(rev)
    scaled_is_first = scaled_is_ifm == ifm_is_first
    pair_val = vela_value(opa) * pow2(-ls)
    eff = (pair_val, Fraction(1, 2)) if scaled_is_first else (Fraction(1, 2), pair_val)
    t1, t2, _ = tfl_add_ref(a, c, 1.0, ls)
    return eff, (tfl_value(t1), tfl_value(t2))


def h_elementwise_why(kind, a, c, o, bits, opa, opb, ofm, smode=None, rev=None, ifm_is_first=None):
    """ADD / SUB / MUL: the registers in force against the reference derivation; None or a reason.
    a, c: scales of the first and second source tensor"""
    if kind == "MUL":
        refd, reff = tfl_mul_ref(a, c, o)
        if ofm[0] and ofm[1] <= 62 and not (same_value(ofm, refd) or same_value(ofm, reff)):
            return "OFM_SCALE %r, reference %r (double) / %r (float)" % (ofm, refd, reff)
        return None
    if opb[0] == 0:             # advanced scaling: only the operand with the smaller scale is rescaled
        ls = 20 if bits == 8 else 15
        t1, t2, to = tfl_add_ref(a, c, o, ls)
        tin = t1 if a < c else (t2 if c < a else t1)
        if opa[0] and opa[1] + ls <= 62 and not same_value(opa, tin, ls):
            return "OPA_SCALE %r, reference input multiplier %r (left shift %d)" % (opa, tin, ls)
        if ofm[0] and ofm[1] <= 62 and not same_value(ofm, to):
            return "OFM_SCALE %r, reference output multiplier %r" % (ofm, to)
        if smode is not None and a != c and ifm_is_first is not None and opa[0] and opa[1] + ls <= 62:
            if smode not in (1, 2):
                return "advanced scaling (OPB_SCALE 0) but IFM_PRECISION.scale_mode = %d" % smode
            eff, ref = ew_per_tensor(a, c, ifm_is_first, smode, rev, opa, ls)
            if eff != ref:
                return ("scale mode %d with operand order %s applies the input multipliers (%.6g, %.6g) to the (first, second) "
                        "tensor, the reference derivation gives (%.6g, %.6g)"
                        % (smode, "reversed" if rev else "plain", float(eff[0]), float(eff[1]), float(ref[0]), float(ref[1])))
        return None
    to = tfl_qm(2.0 * max(a, c) / (65536.0 * o))     # simplified scaling (equal input scales)
    half = 1 << 15 if bits == 8 else 1 << 14
    k = 0 if bits == 8 else 1
    if a != c:
        return "simplified scaling (OPB_SCALE %r) with different input scales" % (opb,)
    if opa[0] != half or opb[0] != half:
        return "OPA/OPB_SCALE %r %r, expected %d" % (opa, opb, half)
    if ofm[0] and ofm[1] + k <= 62 and not same_value((ofm[0], ofm[1] + k), to):
        return "OFM_SCALE %r, reference output multiplier %r" % (ofm, to)
    return None


def h_custom_nets():
    """ADD / SUB whose FIRST operand is the broadcast / scalar tensor (Vela runs them with reversed operand order), the
    broadcast tensor having the larger and the smaller scale, plus the plain order; int8, uint8, int16"""
    import netgen
    out = []
    for dt in ("int8", "uint8", "int16"):
        for kind in ("ADD", "SUB"):
            rng = random.Random("c09h-rev/%s/%s/%s" % (dt, kind, vlib.seed()))
            net = netgen.Net("c09_rev_%s_%s" % (kind.lower(), dt))
            h, w, c = rng.choice([3, 4, 6]), rng.choice([4, 5, 8]), rng.choice([4, 8, 16])
            x = netgen._inp(net, rng, [1, h, w, c], dt)
            big = netgen.const_like(net, rng, [1, 1, 1, c], dt, scale=x.scale * rng.uniform(1.5, 4.0))
            small = netgen.const_like(net, rng, rng.choice([[1, 1, 1, c], [1, 1, 1, 1]]), dt, scale=x.scale / rng.uniform(1.5, 4.0))
            outs = [netgen.elementwise(net, rng, kind, big, x, out_shape=[1, h, w, c]),
                    netgen.elementwise(net, rng, kind, small, x, out_shape=[1, h, w, c]),
                    netgen.elementwise(net, rng, kind, x, big, out_shape=[1, h, w, c]),
                    netgen.elementwise(net, rng, kind, x, small, out_shape=[1, h, w, c])]
            net.output(*outs)
            out.append(net)
    return out


def h_check(tier, okx):
    """-> (evals, dist, diffs, bads)"""
    import os
    import shutil
    import numpy as np
    import compiles
    import artefacts
    import netgen
    okv, vlog = vlib.build_extraction()
    reps = 6 if tier == "thorough" else 1
    jobs = []
    for rep in range(reps):
        for fam, n in H_FAMS:
            for i in range(n):
                jobs.append({"family": fam, "seed": "c09h-%d-%d-%d" % (vlib.seed(), rep, i), "args": H_ACCS[(i + rep) % len(H_ACCS)],
                             "capture": True})
    nets = [None] * len(jobs)
    ndir = os.path.join(vlib.BUILD, "c09_nets")
    os.makedirs(ndir, exist_ok=True)
    for i, net in enumerate(h_custom_nets()):
        import hashlib
        data = net.build()
        sha = hashlib.sha256(data).hexdigest()[:16]
        path = os.path.join(ndir, "%s_%s.tflite" % (net.name, sha))
        if not os.path.exists(path):
            with open(path + ".tmp", "wb") as f:
                f.write(data)
            os.replace(path + ".tmp", path)
        jobs.append({"tflite": path, "sha": sha, "args": H_ACCS[i % len(H_ACCS)], "capture": True, "family": "c09_reversed", "seed": net.name})
        nets.append(net)
    results = compiles.run_all(jobs, timeout=300)
    dist = {"networks": len(jobs), "decoder": "Npu.decode_stream (extracted)" if okv else "python register walk (build/velaverif unavailable)",
            "operations_judged": {}, "operations_not_judged": {}, "unmapped_networks": [], "same_multiplier_other_shift": 0,
            "add_sub_operand_assignment": {}}
    evals, diffs, bads = 0, [], []
    f32 = lambda v: float(np.float32(v))
    pool_cases, pool_where, q_cases, q_where = [], [], [], []

    def skip(why):
        dist["operations_not_judged"][why] = dist["operations_not_judged"].get(why, 0) + 1

    def judged(what):
        dist["operations_judged"][what] = dist["operations_judged"].get(what, 0) + 1

    def report(cls, job, r, net, co, regs, why, extra):
        if any(b_[0] == cls for b_ in bads):
            return
        rdir = os.path.join(vlib.ROOT, "replay")
        os.makedirs(rdir, exist_ok=True)
        src = job.get("tflite") or os.path.join(r["job"]["out_dir"], "model.tflite")
        rp = os.path.join(rdir, "C09-net-%s-%s.tflite" % (job["family"], job["seed"]))
        try:
            shutil.copyfile(src, rp)
        except OSError:
            rp = src
        name = co["cmd"].get("primary_op_name")
        bads.append((cls, {"artefact": "scale registers in force", "family": job["family"], "seed": job["seed"], "operator_output": name},
                     dict({"network": rp, "vela_args": job["args"], "net_desc": net.desc, "operator_output": name,
                           "OFM_SCALE": h_pair(regs, K_OFM_SCALE), "OPA_SCALE": h_pair(regs, K_OPA_SCALE),
                           "OPB_SCALE": h_pair(regs, K_OPB_SCALE), "reason": why}, **extra),
                     "compiled %s/%s, operation writing %s: %s" % (job["family"], job["seed"], name, why)))

    for job, r, net0 in zip(jobs, results, nets):
        a = artefacts.load(r) if r.get("status") == "ok" else None
        if not a or not a["npu"] or not a.get("capture") or len(a["capture"].get("streams", [])) != len(a["npu"]):
            dist["unmapped_networks"].append("%s/%s:%s" % (job["family"], job["seed"], r.get("status")))
            continue
        net = net0 if net0 is not None else netgen.generate(job["family"], job["seed"])
        src = {o["outputs"][0].name: o for o in net.ops if o["outputs"]}
        words = [[int(x) for x in n_["words"]] for n_ in a["npu"]]
        if okv:
            evss = [h_parse_events(o) for o in models.run("decode_stream", words)]
        else:
            evss = [h_walk(w) for w in words]
        for evs, stream in zip(evss, a["capture"]["streams"]):
            cops = stream["ops"]
            cls_of = {2: "NpuConv2DOperation", 3: "NpuConvDepthWiseOperation", 5: "NpuPoolingOperation", 6: "NpuElementWiseOperation",
                      16: "NpuDmaOperation"}
            if evs is None or len(evs) != len(cops) or any(cls_of.get(e[0]) != co["cls"] for e, co in zip(evs, cops)):
                dist["unmapped_networks"].append("%s/%s:operation list" % (job["family"], job["seed"]))
                continue
            prev = {}
            for (code, param, regs), co in zip(evs, cops):
                if code not in (OP_POOL, OP_ELEMENTWISE):
                    continue
                ofm, opa, opb = h_pair(regs, K_OFM_SCALE), h_pair(regs, K_OPA_SCALE), h_pair(regs, K_OPB_SCALE)
                if prev.get("ofm") and prev["ofm"][0] == ofm[0] and prev["ofm"][1] != ofm[1]:
                    dist["same_multiplier_other_shift"] += 1
                prev["ofm"] = ofm
                api, cmd = co["api"], co.get("cmd") or {}
                so = src.get(cmd.get("primary_op_name"))
                act = (api.get("activation") or {}).get("op_type")
                if so is None:
                    skip("operation made by the compiler (no source operator of that name)")
                    continue
                if act not in (None, "NONE_OR_RELU") or api.get("rescale") is not None:
                    skip("fused lookup-table activation / explicit rescale")
                    continue
                kind = so["kind"]
                ins = [t for t in so["inputs"] if t is not None]
                y = so["outputs"][0]
                if y.dtype not in ("int8", "uint8", "int16") or any(t.scale is None for t in ins) or y.scale is None:
                    skip("unquantised / 32-bit operands")
                    continue
                bits = 16 if ins[0].dtype == "int16" else 8
                evals += 1
                extra = {"source_operator": kind, "input_scales": [f32(t.scale) for t in ins], "output_scale": f32(y.scale)}
                if kind == "QUANTIZE" and code == OP_POOL and cmd.get("original_type", "").endswith("Quantize"):
                    si, s_o = f32(ins[0].scale), f32(y.scale)
                    if si == s_o:
                        skip("QUANTIZE with equal scales")
                        continue
                    t = tfl_qm(si / s_o)                         # quantize.cc: double(input scale) / double(output scale)
                    judged("QUANTIZE")
                    if Fraction(si / s_o).denominator & (Fraction(si / s_o).denominator - 1) == 0 and \
                            float(np.float32(si) / np.float32(s_o)) != si / s_o:
                        judged("QUANTIZE with a ratio that is not a float32 number")
                    q_cases.append((53,) + decomp(si) + decomp(s_o))
                    q_where.append((job, co, ofm, t))
                    exact = Fraction(si) / Fraction(s_o)
                    if t[0] and not (31 - t[1] > 62):
                        why = None
                        if tuple(ofm) != (t[0], 31 - t[1]):
                            why = "reference QuantizeMultiplier(double(s_in)/double(s_out)) = %r i.e. (%d, %d)" % (t, t[0], 31 - t[1])
                        elif abs(vela_value(ofm) - exact) > exact * (pow2(-31) + pow2(-52)):
                            why = "relative error to the real ratio exceeds 2^-31"
                        if why:
                            report("inforce-QUANTIZE", job, r, net, co, regs,
                                   "requantisation %r -> %r: OFM_SCALE in force %r, %s" % (si, s_o, ofm, why), extra)
                elif kind == "AVERAGE_POOL_2D" and code == OP_POOL and cmd.get("original_type", "").endswith("AvgPool"):
                    pad = api.get("padding") or {}
                    k = api.get("kernel") or {}
                    if any(pad.get(x, 0) for x in ("top", "left", "bottom", "right")) or f32(ins[0].scale) != f32(y.scale):
                        skip("padded or rescaling average pool")
                        continue
                    n = int(k.get("width", 1)) * int(k.get("height", 1))
                    judged("AVERAGE_POOL_2D")
                    pool_cases.append((n, 0))
                    pool_where.append((job, co, ofm))
                    lo, hi = {"uint8": (0, 255), "int8": (-128, 127), "int16": (-32768, 32767)}[y.dtype]
                    acc = pool_first_failure(n, ofm[0], ofm[1], lo, hi, "full" if y.dtype != "int16" else "top") if ofm[1] < 64 else 0
                    if acc is not None and not (y.dtype == "int16" and n > 32768):
                        report("inforce-AVERAGE_POOL_2D", job, r, net, co, regs,
                               "%dx%d average pool: OFM_SCALE in force %r, accumulator %d gives %d, round-half-up division gives %d"
                               % (k.get("height", 1), k.get("width", 1), ofm, acc, hw_scale(acc, ofm[0], ofm[1]), (2 * acc + n) // (2 * n)), extra)
                elif kind in ("ADD", "SUB", "MUL") and code == OP_ELEMENTWISE and len(ins) == 2 and \
                        cmd.get("original_type", "").endswith(kind.capitalize()):
                    judged(kind)
                    smode = (regs.get(R_IFM_PRECISION, 0) >> 8) & 3
                    rev = (regs.get(R_IFM2_BROADCAST, 0) >> 6) & 1
                    # which source tensor is the IFM: by the scales of the feature maps handed to the command stream generator
                    qa = ((api.get("ifm") or {}).get("quantization") or {}).get("scale_f32")
                    qb = ((api.get("ifm2") or {}).get("quantization") or {}).get("scale_f32")
                    a_, c_ = f32(ins[0].scale), f32(ins[1].scale)
                    ifm_is_first = None
                    if qa is not None and qb is not None and a_ != c_:
                        if (f32(qa), f32(qb)) == (a_, c_):
                            ifm_is_first = True
                        elif (f32(qa), f32(qb)) == (c_, a_):
                            ifm_is_first = False
                    if kind != "MUL" and opb[0] == 0 and ifm_is_first is not None:
                        kk = "%s order, %s, pair to the %s tensor" % ("reversed" if rev else "plain", ins[0].dtype,
                                                                       "smaller-scale" if ((smode == 1) != bool(rev)) == (ifm_is_first == (a_ < c_)) else "LARGER-scale")
                        dist["add_sub_operand_assignment"][kk] = dist["add_sub_operand_assignment"].get(kk, 0) + 1
                    why = h_elementwise_why(kind, a_, c_, f32(y.scale), bits, opa, opb, ofm, smode, rev, ifm_is_first)
                    if why:
                        report("inforce-" + ("MUL" if kind == "MUL" else "ADDSUB"), job, r, net, co, regs, "%s: %s" % (kind, why), extra)
                else:
                    evals -= 1
                    skip("operator kind %s not covered" % kind)
    # the registers in force against the extracted model of the functions that derived them
    if okx:
        for (job, co, ofm), o in zip(pool_where, models.run("pooling_scale", pool_cases, exe_name=EXE) if pool_cases else []):
            if o[0] != 1 or [ofm[0], ofm[1]] != o[1:3]:
                diffs.append(("pool_scale (OFM_SCALE in force, %s/%s)" % (job["family"], job["seed"]),
                              {"operator_output": co["cmd"].get("primary_op_name")}, list(ofm), o))
        for (job, co, ofm, t), o in zip(q_where, models.run("fused_quantize", q_cases, exe_name=EXE) if q_cases else []):
            if [ofm[0], ofm[1]] != o[0:2]:
                diffs.append(("fused_quantize_scale (OFM_SCALE in force, %s/%s)" % (job["family"], job["seed"]),
                              {"operator_output": co["cmd"].get("primary_op_name")}, list(ofm), o))
            if list(t) != o[2:4]:
                diffs.append(("tfl_requantize_params(transcriptions)", {"operator_output": co["cmd"].get("primary_op_name")}, list(t), o[2:4]))
    if not okv:
        dist["decoder_build_log_tail"] = vlog[-300:]
    return evals, dist, diffs, bads


# ------------------------------------------------------------------------------------------------
class _Emit:
    """stands in for CommandStreamEmitter: records the last write of each scale register"""

    def __init__(self):
        self.regs = {}

    def cmd1_with_offset(self, cmd, offset, param=0x0):
        self.regs[cmd.name] = (int(offset) & 0xFFFFFFFF, int(param) & 0xFFFF)


def _fm(api, dtype, scale):
    fm = api.NpuFeatureMap()
    fm.data_type = dtype
    fm.quantization = api.NpuQuantization(scale_f32=scale, zero_point=0)
    return fm


def run(tier):
    import numpy as np
    from ethosu.vela import scaling, api
    from ethosu.vela import register_command_stream_generator as rcsg
    thorough = tier == "thorough"
    res = vlib.Result("C09", tier, "proof")
    b = vlib.build_property("C09")
    vlib.proof_coverage(res, b, [
        "extraction (ExtrOcamlBasic only) + ocaml/driver.ml for the correspondence run",
        "lib/PyFloat.v: floats as exact dyadics; that the IEEE operations of quantise_scale (frexp, * 2^31, + 0.5, "
        "np.trunc) are exact at these magnitudes is assumed and exercised by the correspondence run",
        "model/Scaling.v apply_scale: the NPU applies a global OFM scale as (acc*scale + 2^(shift-1)) >> shift "
        "(natural rounding; modelled hardware semantics, see pooling_scale_double_round_differs)",
        "model/Scaling.v tfl_quantize_multiplier / tfl_add_params / tfl_mul_params: hand transcriptions of the TFLite "
        "reference (cross-checked here against an independent Python transcription)",
        "elementwise mul/add/sub: hand model (round-to-nearest-even dyadic arithmetic, unbounded exponents) tied by "
        "correspondence only"])
    okx, xlog = vlib.build_extraction(EXE)
    import time
    tsec = {}
    t_last = [time.time()]

    def lap(name):
        tsec[name] = round(time.time() - t_last[0], 1)
        t_last[0] = time.time()
    lap('build')
    rng = random.Random(vlib.seed())
    bad = []            # (class, key, detail, what): property violations with a concrete input
    diffs = []          # (name, case, impl, model)
    evals = 0
    nontrivial = set()
    dist = {}
    samples = []

    def note_bad(cls, key, detail, what):
        if all(c != cls for c, _, _, _ in bad):
            bad.append((cls, key, detail, what))

    def model(name, cases):
        return models.run(name, cases, exe_name=EXE) if okx and cases else [None] * len(cases)

    # ---------------------------------------------------------------------------------------------
    # A. quantise_scale / reduced_quantise_scale on boundary, sampled and malformed values
    vals = []
    for E in list(range(-40, 40)) + [-1074, -1050, -1022, -200, -149, -126, 100, 127, 128, 1000, 1023]:
        for mant in (1.0, 1.5, 1.0 + 2.0 ** -52, 2.0 - 2.0 ** -52, 2.0 - 2.0 ** -31, 2.0 - 2.0 ** -32 - 2.0 ** -52, 2.0 - 2.0 ** -32, 2.0 - 2.0 ** -33, 2.0 - 2.0 ** -32 + 2.0 ** -52,
                     2.0 - 2.0 ** -23, 1.0 + 2.0 ** -23, 1.9999999):
            try:
                vals.append(math.ldexp(mant, E))
            except OverflowError:
                pass
    vals += [0.1, 0.5, 1.0, 0.001, 0.008, 0.00097652, 0.0009765615959827986, 1 / 0x3000, 1.0 / 255, 40000.0, 32767.9,
             2.0 ** 15, 2.0 ** 31 - 1, 2.0 ** 31, 2.0 ** -33, 2.0 ** -33 * (1 - 2.0 ** -53), 5e-324, 2.2250738585072014e-308]
    nsamp = 4000 if not thorough else 60000
    for _ in range(nsamp):   # all exponents of the hardware range and beyond for sampled significands
        mant = 1.0 + rng.getrandbits(52) * 2.0 ** -52 if rng.random() < 0.7 else rng.choice(
            [1.0, 2.0 - 2.0 ** -52, 1.0 + rng.getrandbits(23) * 2.0 ** -23, 2.0 - rng.getrandbits(8) * 2.0 ** -52,
             2.0 - 2.0 ** -32 + (rng.getrandbits(6) - 32) * 2.0 ** -52])
        vals.append(math.ldexp(mant, rng.randrange(-45, 40) if rng.random() < 0.9 else rng.randrange(-1074, 1023)))
    typed = []
    for i, x in enumerate(vals):
        typed.append(("float", x))
        if i % 3 == 0:
            typed.append(("float64", np.float64(x)))
        with np.errstate(all="ignore"):
            f = np.float32(x)
        if i % 2 == 0 and np.isfinite(f):
            typed.append(("float32", f))
    malformed = [("float", 0.0), ("float", -0.0), ("float", -0.1), ("float32", np.float32(-3.5e-5)), ("float64", np.float64(-1e-300)),
                 ("int", 1), ("int", 3), ("float", -2.0 ** 31), ("float", -2.0 ** -33)]
    typed += malformed
    for x in (float("inf"), float("nan")):      # not representable in the model: the implementation must not return a pair
        try:
            scaling.quantise_scale(x)
            note_bad("nonfinite", {"function": "quantise_scale", "input": repr(x)}, {"input": repr(x)},
                     "quantise_scale(%r) returned a pair" % x)
        except (OverflowError, ValueError):
            pass
    qcases, impl_q, impl_r = [], [], []
    for kind, x in typed:
        m, e = decomp(x)
        if rng.random() < 0.5:
            m, e = strip(m, e)
        qcases.append((m, e))
        q = scaling.quantise_scale(x)
        r = scaling.reduced_quantise_scale(x)
        impl_q.append([int(q[0]), int(q[1])])
        impl_r.append([int(r[0]), int(r[1])])
        dist[kind] = dist.get(kind, 0) + 1
    mq = model("quantise_scale", qcases)
    mr = model("reduced_quantise_scale", qcases)
    neg_reduced_shift = 0
    for (kind, x), (m, e), q, r, a, c in zip(typed, qcases, impl_q, impl_r, mq, mr):
        evals += 2
        if okx and (q != a or r != c):
            diffs.append(("quantise_scale" if q != a else "reduced_quantise_scale", {"type": kind, "value": float(x).hex(), "m": m, "e": e},
                          q if q != a else r, a if q != a else c))
        if m > 0:
            why = oracle_quantise(m, e, q[0], q[1]) or oracle_reduced(m, e, r[0], r[1])
            if why:
                note_bad("quantise", {"function": "quantise_scale/reduced_quantise_scale", "value": float(x).hex(), "type": kind},
                         {"value": float(x).hex(), "type": kind, "quantise_scale": q, "reduced_quantise_scale": r, "reason": why},
                         "scale %s (%s): %s" % (float(x).hex(), kind, why))
            if q[0]:
                nontrivial.add(("q", q[1], q[0] & 0xFFFF))
            if r[0] and r[1] < 0:
                neg_reduced_shift += 1
    samples += [{"value": float(x).hex(), "type": k, "quantise_scale": q, "reduced_quantise_scale": r}
                for (k, x), q, r in list(zip(typed, impl_q, impl_r))[100:103]]

    # the two transcriptions of QuantizeMultiplier (Python above, Gallina in model/Scaling.v) agree
    tcases = [c for c in qcases if c[0] > 0][: (3000 if not thorough else 40000)]
    mt = model("tfl_quantize_multiplier", tcases)
    for (m, e), t in zip(tcases, mt):
        x = frac(m, e)
        if okx and Fraction(float(x)) == x and list(tfl_qm(float(x))) != t:
            diffs.append(("tfl_quantize_multiplier(transcriptions)", {"m": m, "e": e}, list(tfl_qm(float(x))), t))

    # ---------------------------------------------------------------------------------------------
    lap('A')
    # B. every float32 significand for selected exponents (quick: strided subset)
    # exponent fields: typical scales 2^-8 and 2^-1, both ends of the hardware range (shift 63 and 0) and one outside
    exp_fields = [119, 126, 95, 157, 94] if thorough else [119, 95, 157]
    step = 1 if thorough else 509
    jobs = []
    chunk = 1 << 17
    for ef in exp_fields:
        for start in range(0, 1 << 23, chunk * step if step > 1 else chunk):
            jobs.append((ef, start, min(1 << 23, start + (chunk * step if step > 1 else chunk)), step))
    sweep_n = 0
    sweep_distinct = 0
    if okx:
        with multiprocessing.Pool(min(vlib.NCPU, 16)) as pool:
            for n_c, nd, d, fb, distinct in pool.imap_unordered(_sweep_worker, jobs):
                sweep_n += n_c
                sweep_distinct += distinct
                if d:
                    (m, e), a, b2, x, y = d
                    diffs.append(("sweep quantise/reduced", {"type": "float32", "m": m, "e": e}, [a, x], [b2, y]))
                if fb:
                    m, e, why = fb
                    note_bad("quantise", {"function": "quantise_scale/reduced_quantise_scale", "value": float(frac(m, e)).hex(), "type": "float32"},
                             {"m": m, "e": e, "reason": why}, "float32 scale %d*2^%d: %s" % (m, e, why))
    evals += 2 * sweep_n
    dist["float32 significand sweep"] = {"exponent_fields": exp_fields, "stride": step, "values": sweep_n}

    # ---------------------------------------------------------------------------------------------
    lap('B')
    # C. quantise_pooling_scale: every window size, the rescale_bits the call sites can pass
    pcases = [(n, 0) for n in range(1, 65537)]
    for n in [1, 2, 3, 4, 9, 49, 64, 255, 256, 257, 1024, 4096, 65535, 65536]:
        for rb in list(range(-18, 20)) + [-33, -32, -31, 31, 32, 33, 40, 47, 48]:
            pcases.append((n, rb))
    pcases += [(0, 0), (65537, 0), (1 << 20, 0), (1 << 32, 0), ((1 << 32) + 1, 0), (1 << 33, 1)]
    impl_p = []
    for n, rb in pcases:
        try:
            s, sh = scaling.quantise_pooling_scale(n, rb)
            impl_p.append([1, int(s), int(sh)])
        except AssertionError:
            impl_p.append([0])
        except (ValueError, ZeroDivisionError):
            impl_p.append([2])
    mp = model("pooling_scale", pcases)
    for c, a, m_ in zip(pcases, impl_p, mp):
        evals += 1
        if okx and a != m_:
            diffs.append(("quantise_pooling_scale", {"n": c[0], "rescale_bits": c[1]}, a, m_))
    # exactness on the accumulators a window can produce.  Domains (see report): unsigned 8 bit [0, 255n];
    # signed 8 bit [-128n, 127n]; signed 16 bit [-32768n, 32767n] (the only 16-bit type the TFLite front end has;
    # zero point forced to 0 for average pool); window sizes n = h*w with h, w <= 256 are accepted by the
    # supported-operator checks for VALID padding and stay an average pool for stride <= 3.
    full_limit = 65536 if thorough else 600
    pool_checked = 0
    fail16 = []
    pjobs = [(lo, min(65537, lo + 512), full_limit) for lo in range(1, 65537, 512)]
    with multiprocessing.Pool(min(vlib.NCPU, 16)) as pool:
        pres = pool.map(_pool_worker, pjobs)
    for o in pres:
        pool_checked += o["evals"]
        fail16 += o["fail16"]
        for cls, n, acc, name, s_, sh_ in o["bad"]:
            if cls == "pooling-8bit":
                note_bad(cls, {"function": "quantise_pooling_scale", "n": n, "acc": acc, "dtype": name},
                         {"n": n, "acc": acc, "scale": s_, "shift": sh_, "got": hw_scale(acc, s_, sh_), "want_half_up": (2 * acc + n) // (2 * n)},
                         "average pool divisor for n=%d (%s): accumulator %d gives %d, round-half-up gives %d"
                         % (n, name, acc, hw_scale(acc, s_, sh_), (2 * acc + n) // (2 * n)))
            else:
                note_bad(cls, {"function": "quantise_pooling_scale", "n": n}, {"n": n, "scale": s_, "shift": sh_},
                         "quantise_pooling_scale(%d): %s" % (n, "assertion failed" if cls == "pooling-assert" else
                                                             "pair (%d, %d) does not fit the OFM_SCALE register" % (s_, sh_)))
    for n in range(1, 65537):
        nontrivial.add(("pool", n))
    fail16.sort()
    if fail16:
        n, acc, s, sh = fail16[0]
        acc = pool_smallest_failure(n, s, sh, 32767) or acc
        hs = [(h, n // h) for h in range(1, 257) if n % h == 0 and n // h <= 256] or [(0, 0)]
        note_bad("pooling-16bit", {"function": "quantise_pooling_scale", "n": n, "acc": acc, "dtype": "int16"},
                 {"n": n, "kernel_hxw": hs[:4], "acc": acc, "scale": s, "shift": sh, "got": hw_scale(acc, s, sh),
                  "want_half_up": (2 * acc + n) // (2 * n), "failing_window_sizes": len(fail16),
                  "first_failing_window_sizes": [f[0] for f in fail16[:10]]},
                 "int16 average pool divisor, window %dx%d (n=%d): accumulator %d gives %d, round-half-up division gives %d; "
                 "%d reachable window sizes fail" % (hs[0][0], hs[0][1], n, acc, hw_scale(acc, s, sh), (2 * acc + n) // (2 * n), len(fail16)))
    dist["pooling"] = {"window_sizes": 65536, "exactness_evaluations(n x dtype)": pool_checked,
                       "all_boundary_accumulators_for_n<=": full_limit, "int16_failing_reachable_window_sizes": len(fail16)}
    evals += pool_checked
    # the Gallina apply_scale / div_half_up agree with the Python oracle's arithmetic
    acases = []
    for _ in range(300):
        n = rng.choice([1, 2, 3, 9, 50, 255, 4096, 33345, 65535, 65536])
        s, sh = scaling.quantise_pooling_scale(n)
        acc = rng.randrange(-32768 * n, 32768 * n)
        acases.append((acc, s, sh, n))
    for c, o in zip(acases, model("apply_scale", acases)):
        if okx and (o[0] != hw_scale(*c[:3]) or o[2] != (2 * c[0] + c[3]) // (2 * c[3])):
            diffs.append(("apply_scale(oracle arithmetic)", {"case": c}, [hw_scale(*c[:3]), (2 * c[0] + c[3]) // (2 * c[3])], o))

    # ---------------------------------------------------------------------------------------------
    lap('C')
    # D. the rounded dyadic arithmetic of the model against IEEE division / multiplication
    fcases, fimpl = [], []
    for _ in range(3000 if not thorough else 60000):
        p = rng.choice([53, 53, 24])
        if p == 53:
            a = math.ldexp(1.0 + rng.getrandbits(52) * 2.0 ** -52, rng.randrange(-40, 30))
            c = math.ldexp(rng.choice([1.0 + rng.getrandbits(52) * 2.0 ** -52, 1.0, 1.5, 1.0 + rng.getrandbits(8) * 2.0 ** -8]), rng.randrange(-40, 30))
            qd, md = a / c, a * c
        else:
            a = np.float32(math.ldexp(1.0 + rng.getrandbits(23) * 2.0 ** -23, rng.randrange(-30, 20)))
            c = np.float32(math.ldexp(rng.choice([1.0 + rng.getrandbits(23) * 2.0 ** -23, 1.0, 1.5, 1.0 + rng.getrandbits(4) * 2.0 ** -4]), rng.randrange(-30, 20)))
            qd, md = a / c, a * c
        fcases.append((p,) + decomp(a) + decomp(c))
        fimpl.append((Fraction(float(qd)), Fraction(float(md))))
    for c, (qd, md), o1, o2 in zip(fcases, fimpl, model("fl_div", fcases), model("fl_mul", fcases)):
        evals += 2
        if okx and (frac(*o1) != qd or frac(*o2) != md):
            diffs.append(("fl_div/fl_mul (IEEE arithmetic model)", {"case": c}, [str(qd), str(md)], [o1, o2]))

    # ---------------------------------------------------------------------------------------------
    lap('D')
    # E. elementwise mul / add / sub scale derivations
    def rscale(kind):
        r = rng.random()
        if r < 0.5:
            x = math.ldexp(1.0 + rng.getrandbits(52) * 2.0 ** -52, rng.randrange(-14, 2))
        elif r < 0.8:
            x = rng.choice([1.0 / 255, 2.0 / 255, 0.1, 0.05, 1.0 / 128, 1.0 / 256, 0.0235294122248888, 1.0 / 32768, 3.0517578125e-05, 1 / 0x3000, 0.5, 1.0])
        else:
            x = math.ldexp(1.0 + rng.getrandbits(10) * 2.0 ** -10, rng.randrange(-20, 8))
        return float(np.float32(x)) if kind != "float64wide" else x

    ew = []
    nE = 2500 if not thorough else 40000
    for i in range(nE):
        kind = rng.choice(["float", "float64", "float32", "float32", "float64wide"])
        a, c, o = rscale(kind), rscale(kind), rscale(kind)
        if rng.random() < 0.25:
            c = a
        ew.append((kind, a, c, o))

    def conv(kind, x):
        return np.float32(x) if kind == "float32" else (np.float64(x) if kind == "float64" else x)
    ew_mismatch32 = 0
    # Precision at which np.float32 operands are evaluated: np.float32 * Python int stays float32 under NumPy >= 2
    # (NEP 50) and widened to float64 before; a source that casts to double computes in binary64.  Probed on two
    # fixed triples (where the two precisions give different pairs), then required of every float32 case.
    p_add32 = 24 if isinstance(np.float32(1) * 2, np.float32) else 53
    p_mul32 = 24
    if okx:
        pr_a = (13421773, -27, 10066330, -25, 13421773, -26)                 # float32 0.1, 0.3, 0.2
        got = scaling.advanced_elementwise_add_sub_scale(np.float32(0.1), np.float32(0.3), np.float32(0.2), 8)
        for pp in (24, 53):
            if models.run("ew_advanced", [(pp,) + pr_a + (8,)], exe_name=EXE)[0] == [int(v) for v in got]:
                p_add32 = pp
        ma, mb, mo = np.float32(0.00011298153549432755), np.float32(0.030169153586030006), np.float32(2.3152679204940796e-06)
        got = scaling.elementwise_mul_scale(ma, mb, mo)
        for pp in (24, 53):
            if models.run("ew_mul", [(pp,) + decomp(ma) + decomp(mb) + decomp(mo)], exe_name=EXE)[0] == [int(v) for v in got]:
                p_mul32 = pp
    dist["float32_operand_precision"] = {"add_sub": p_add32, "mul": p_mul32}
    mul_c, mul_i, adv_c, adv_i, sim_c, sim_i = [], [], [], [], [], []
    for kind, a, c, o in ew:
        A, C, O = conv(kind, a), conv(kind, c), conv(kind, o)
        p = p_mul32 if kind == "float32" else 53
        da, dc, do = decomp(a), decomp(c), decomp(o)
        bd = rng.choice([8, 16])
        ls = 20 if bd == 8 else 15
        q = scaling.elementwise_mul_scale(A, C, O)
        mul_c.append((p,) + da + dc + do)
        mul_i.append([int(q[0]), int(q[1])])
        adv = scaling.advanced_elementwise_add_sub_scale(A, C, O, bd)
        pa = p_add32 if kind == "float32" else 53
        adv_c.append((pa,) + da + dc + do + (bd,))
        adv_i.append([int(adv[0]), int(adv[1]), int(adv[2]), int(adv[3]), int(adv[4])])
        ish = rng.choice([16, 16, 20, 15])
        sim = scaling.simplified_elementwise_add_sub_scale(A, C, O, ish)
        sim_c.append((pa,) + da + dc + do + (ish,))
        sim_i.append([Fraction(float(sim[0])), Fraction(float(sim[1])), int(sim[2]), int(sim[3])])
        evals += 3
        # reference oracle (binary64 operands are what the reference kernels compute with)
        t1, t2, to = tfl_add_ref(a, c, o, ls)
        tin = t1 if a < c else (t2 if c < a else t1)
        refd, reff = tfl_mul_ref(a, c, o)
        ok_add = (adv[0] == 0 or adv[1] + ls > 62 or same_value(adv[0:2], tin, ls)) and (adv[2] == 0 or adv[3] > 62 or same_value(adv[2:4], to))
        ok_mul = q[0] == 0 or q[1] > 62 or same_value(q, refd) or same_value(q, reff)
        if kind == "float32":
            ew_mismatch32 += (not ok_add)
            if not ok_mul:
                note_bad("elementwise-mul", {"function": "elementwise_mul_scale", "type": kind, "scales": [a.hex(), c.hex(), o.hex()]},
                         {"scales": [a, c, o], "got": list(map(int, q)), "reference_double": refd, "reference_float": reff},
                         "elementwise_mul_scale(%r, %r, %r) [%s] = %r, reference %r / %r" % (a, c, o, kind, q, refd, reff))
        else:
            if not ok_add:
                note_bad("elementwise-add", {"function": "advanced_elementwise_add_sub_scale", "type": kind, "scales": [a.hex(), c.hex(), o.hex()], "bitdepth": bd},
                         {"scales": [a, c, o], "bitdepth": bd, "got": adv_i[-1], "reference": [tin, to]},
                         "advanced_elementwise_add_sub_scale(%r, %r, %r, %d) [%s] = %r, reference %r %r" % (a, c, o, bd, kind, adv_i[-1], tin, to))
            if not ok_mul:
                note_bad("elementwise-mul", {"function": "elementwise_mul_scale", "type": kind, "scales": [a.hex(), c.hex(), o.hex()]},
                         {"scales": [a, c, o], "got": list(map(int, q)), "reference_double": refd, "reference_float": reff},
                         "elementwise_mul_scale(%r, %r, %r) [%s] = %r, reference %r" % (a, c, o, kind, q, refd))
        nontrivial.add(("ew", kind, int(adv[1]), int(adv[3]), int(q[1])))
    for name, cs, im in (("ew_mul", mul_c, mul_i), ("ew_advanced", adv_c, adv_i)):
        for c, a, m_ in zip(cs, im, model(name, cs)):
            if okx and a != m_:
                diffs.append((name, {"case": c}, a, m_))
    for c, a, m_ in zip(sim_c, sim_i, model("ew_simplified", sim_c)):
        if okx and (a[0] != frac(m_[0], m_[1]) or a[1] != frac(m_[2], m_[3]) or a[2:] != m_[4:]):
            diffs.append(("ew_simplified", {"case": c}, [str(a[0]), str(a[1])] + a[2:], m_))
    # the Gallina transcription of the add/sub/mul reference against the Python one
    tc = [c[1:7] + ((20 if c[7] == 8 else 15),) for c in adv_c[:1500]]
    for c, (kind, a, c2, o), m_ in zip(tc, ew, model("tfl_add", tc)):
        t = tfl_add_ref(a, c2, o, c[6])
        if okx and [x for pr in t for x in pr] != m_:
            diffs.append(("tfl_add(transcriptions)", {"case": c}, t, m_))
    tm = [(53,) + c[1:7] for c in mul_c[:1500]]
    for c, (kind, a, c2, o), m_ in zip(tm, ew, model("tfl_mul", tm)):
        if okx and list(tfl_mul_ref(a, c2, o)[0]) != m_:
            diffs.append(("tfl_mul(transcriptions)", {"case": c}, tfl_mul_ref(a, c2, o)[0], m_))
    dist["elementwise"] = {"triples": nE, "float32_add_sub_triples_differing_from_reference(function level)": ew_mismatch32,
                           "by_type": {k: sum(1 for e_ in ew if e_[0] == k) for k in ("float", "float64", "float32", "float64wide")}}

    # ---------------------------------------------------------------------------------------------
    lap('E')
    # F. the call sites: what reaches the OFM_SCALE / OPA_SCALE / OPB_SCALE registers.  Tensor scales are
    # np.float32 when they come from the TFLite reader (tflite_reader.py len1_array_to_scalar) and Python
    # floats when the graph optimiser or an API user set them; both are exercised.
    site_n = 0
    windows = [(1, 1), (2, 2), (3, 3), (2, 5), (5, 10), (7, 7), (8, 8), (9, 13), (16, 16), (1, 50), (25, 40), (64, 64), (100, 200), (255, 256), (256, 256)]
    if thorough:
        windows += [(h, w) for h in (1, 2, 3, 5, 6, 11, 31, 32, 100, 255) for w in range(1, 257, 7)]
    for stype in ("float", "float32"):
        for (h, w) in windows:
            for dt, lo, hi in ((api.NpuDataType.UINT8, 0, 255), (api.NpuDataType.INT8, -128, 127)):
                sc = 0.0235294122248888
                sc = np.float32(sc) if stype == "float32" else float(np.float32(sc))
                op = api.NpuPoolingOperation(api.NpuPoolingOp.AVERAGE)
                op.ifm, op.ofm = _fm(api, dt, sc), _fm(api, dt, sc)
                op.kernel = api.NpuKernel(w, h)
                em = _Emit()
                rcsg.generate_ofm_scaling_for_pooling(em, op)
                s, sh = em.regs["NPU_SET_OFM_SCALE"]
                n = h * w
                site_n += 1
                ref = scaling.quantise_pooling_scale(n)
                acc = pool_first_failure(n, s, sh, lo, hi, "full")
                if acc is not None:
                    note_bad("site-pooling-" + stype,
                             {"site": "generate_ofm_scaling_for_pooling", "scale_type": stype, "kernel": [h, w], "acc": acc},
                             {"kernel_hxw": [h, w], "ifm_scale == ofm_scale": repr(sc), "OFM_SCALE": [s, sh], "quantise_pooling_scale": list(ref),
                              "acc": acc, "got": hw_scale(acc, s, sh), "want_half_up": (2 * acc + n) // (2 * n), "numpy": np.__version__},
                             "generate_ofm_scaling_for_pooling, %dx%d average pool, %s tensor scales: OFM_SCALE=(%d, %d) but quantise_pooling_scale "
                             "gives %r; accumulator %d -> %d, round-half-up division gives %d"
                             % (h, w, stype, s, sh, ref, acc, hw_scale(acc, s, sh), (2 * acc + n) // (2 * n)))
    # QUANTIZE compiled as a 1x1 average pool with fused_quantize: OFM_SCALE = quantise_scale(double(s_in) / double(s_out))
    fq_cases, fq_impl = [], []
    for stype in ("float", "float32"):
        for i in range(60 if not thorough else 1500):
            a, o = rscale("f"), rscale("f")
            if i == 0:
                a, o = float.fromhex("0x1.230e26p-5"), float.fromhex("0x1.5e3bc2p-3")
            cv = (lambda x: np.float32(x)) if stype == "float32" else (lambda x: x)
            dti, dto = [(api.NpuDataType.INT8, api.NpuDataType.UINT8), (api.NpuDataType.UINT8, api.NpuDataType.INT8),
                        (api.NpuDataType.INT16, api.NpuDataType.INT8), (api.NpuDataType.INT8, api.NpuDataType.INT8)][i % 4]
            op = api.NpuPoolingOperation(api.NpuPoolingOp.AVERAGE)
            op.ifm, op.ofm = _fm(api, dti, cv(a)), _fm(api, dto, cv(o))
            op.kernel = api.NpuKernel(1, 1)
            op.fused_quantize = True
            em = _Emit()
            rcsg.generate_ofm_scaling_for_pooling(em, op)
            got = em.regs["NPU_SET_OFM_SCALE"]
            site_n += 1
            fq_cases.append((53,) + decomp(a) + decomp(o))
            fq_impl.append(list(got))
            t = tfl_qm(a / o)
            exact = Fraction(a) / Fraction(o)
            why = None
            if t[0] and 31 - t[1] <= 62:
                if tuple(got) != (t[0], 31 - t[1]):
                    why = "reference QuantizeMultiplier(double(s_in)/double(s_out)) = %r i.e. (%d, %d)" % (t, t[0], 31 - t[1])
                elif abs(vela_value(got) - exact) > exact * (pow2(-31) + pow2(-52)):
                    why = "relative error to the real ratio exceeds 2^-31"
            if why:
                note_bad("site-fused-quantize-" + stype,
                         {"site": "generate_ofm_scaling_for_pooling", "branch": "fused_quantize", "scale_type": stype, "scales": [a.hex(), o.hex()]},
                         {"ifm_scale": a, "ofm_scale": o, "OFM_SCALE": list(got), "reason": why, "numpy": np.__version__},
                         "generate_ofm_scaling_for_pooling, fused QUANTIZE %r -> %r, %s tensor scales: OFM_SCALE %r, %s" % (a, o, stype, got, why))
    for c_, im, o_ in zip(fq_cases, fq_impl, model("fused_quantize", fq_cases)):
        if okx and im != o_[0:2]:
            diffs.append(("fused_quantize_scale (generate_ofm_scaling_for_pooling)", {"ifm": c_[1:3], "ofm": c_[3:5]}, im, o_))
    ops = [(api.NpuElementWiseOp.ADD, "ADD"), (api.NpuElementWiseOp.SUB, "SUB"), (api.NpuElementWiseOp.MUL, "MUL")]
    rev_cases, rev_impl = [], []
    for stype in ("float", "float32"):
        for i in range(120 if not thorough else 1500):
            eop, ename = ops[i % 3]
            a, c, o = rscale("f"), rscale("f"), rscale("f")
            if i % 4 == 0:
                c = a
            if i == 0:      # corpus case first: ADD of float32(0.1), float32(0.3) -> float32(0.2)
                a, c, o = float(np.float32(0.1)), float(np.float32(0.3)), float(np.float32(0.2))
            dt = api.NpuDataType.INT8 if i % 5 else api.NpuDataType.INT16
            cv = (lambda x: np.float32(x)) if stype == "float32" else (lambda x: x)
            op = api.NpuElementWiseOperation(eop)
            op.ifm, op.ifm2, op.ofm = _fm(api, dt, cv(a)), _fm(api, dt, cv(c)), _fm(api, dt, cv(o))
            rev = (i // 3) % 2 == 1         # the API attribute reversed_operands: operand A is then the IFM2
            op.reversed_operands = rev
            em = _Emit()
            ots = rcsg.generate_scaling_for_elementwise(em, op)
            site_n += 1
            if ename != "MUL" and int(ots) != 0:
                rev_cases.append(decomp(a) + decomp(c) + (1 if rev else 0,))
                rev_impl.append(int(ots))
            ofm = em.regs["NPU_SET_OFM_SCALE"]
            why = None
            if ename == "MUL":
                refd, reff = tfl_mul_ref(a, c, o)
                if ofm[0] and ofm[1] <= 62 and not (same_value(ofm, refd) or same_value(ofm, reff)):
                    why = "OFM_SCALE %r, reference %r (double) / %r (float)" % (ofm, refd, reff)
            else:
                opa = em.regs["NPU_SET_OPA_SCALE"]
                opb = em.regs["NPU_SET_OPB_SCALE"]
                bits = 8 if dt == api.NpuDataType.INT8 else 16
                if int(ots) != 0:         # advanced scaling
                    ls = 20 if bits == 8 else 15
                    t1, t2, to = tfl_add_ref(a, c, o, ls)
                    tin = t1 if a < c else (t2 if c < a else t1)
                    if opa[0] and opa[1] + ls <= 62 and not same_value(opa, tin, ls):
                        why = "OPA_SCALE %r, reference input multiplier %r (left shift %d)" % (opa, tin, ls)
                    elif ofm[0] and ofm[1] <= 62 and not same_value(ofm, to):
                        why = "OFM_SCALE %r, reference output multiplier %r" % (ofm, to)
                    elif a != c and opa[0] and opa[1] + ls <= 62:
                        # which tensor the pair reaches: the returned value becomes IFM_PRECISION.scale_mode.  In source
                        # order the first tensor is operand A = the IFM2 when reversed
                        first, second = (c, a) if rev else (a, c)
                        eff, ref = ew_per_tensor(first, second, not rev, int(ots), rev, opa, ls)
                        if eff != ref:
                            why = ("scale mode %d with %s operand order applies the input multipliers (%.6g, %.6g) to the (first, second) "
                                   "tensor, the reference derivation gives (%.6g, %.6g)"
                                   % (int(ots), "reversed" if rev else "plain", float(eff[0]), float(eff[1]), float(ref[0]), float(ref[1])))
                else:                     # simplified scaling: inputs scaled by 1/2 * 2^16, output by 2 s / (out * 2^16)
                    to = tfl_qm(2.0 * max(a, c) / (65536.0 * o))
                    half = 1 << 15 if bits == 8 else 1 << 14
                    k = 0 if bits == 8 else 1
                    if opa[0] != half or opb[0] != half:
                        why = "OPA/OPB_SCALE %r %r, expected %d" % (opa, opb, half)
                    elif ofm[0] and ofm[1] + k <= 62 and not same_value((ofm[0], ofm[1] + k), to):
                        why = "OFM_SCALE %r, reference output multiplier %r" % (ofm, to)
            if why:
                note_bad("site-elementwise-%s-%s" % (stype, "MUL" if ename == "MUL" else "ADDSUB"),
                         {"site": "generate_scaling_for_elementwise", "scale_type": stype, "op": ename, "scales": [a.hex(), c.hex(), o.hex()],
                          "reversed_operands": bool(rev)},
                         {"op": ename, "scales": [a, c, o], "data_type": str(dt), "registers": em.regs, "reason": why, "numpy": np.__version__},
                         "generate_scaling_for_elementwise %s, %s tensor scales (%r, %r, %r): %s" % (ename, stype, a, c, o, why))
    # the choice of the scale mode (op_to_scale and its exchange for reversed operands) against the model
    for c_, im, o_ in zip(rev_cases, rev_impl, model("ew_scale_mode", rev_cases)):
        if okx and im != o_[0]:
            diffs.append(("ew_scale_mode (generate_scaling_for_elementwise)", {"ifm": c_[0:2], "ifm2": c_[2:4], "reversed": c_[4]}, im, o_))
    evals += site_n
    lap('F')
    dist["call_sites"] = {"evaluations": site_n, "scale_types": ["float", "float32"]}

    # ---------------------------------------------------------------------------------------------
    # G. what is packed into the scale records of compiled networks (read back from the output files)
    g_evals, g_dist, g_diffs, g_bads = g_check(tier, None, okx)
    evals += g_evals
    diffs += g_diffs
    for cls, k, d, w in g_bads:
        note_bad(cls, k, d, w)
    for t_, n_ in g_dist["by_kind"].items():
        nontrivial.add(("packed", t_, n_))
    dist["compiled_networks(packed scale records)"] = g_dist
    lap('G')

    # ---------------------------------------------------------------------------------------------
    # H. the scale registers in force at every pooling / elementwise operation of compiled multi-operator networks
    h_evals, h_dist, h_diffs, h_bads = h_check(tier, okx)
    evals += h_evals
    diffs += h_diffs
    for cls, k, d, w in h_bads:
        note_bad(cls, k, d, w)
    for t_, n_ in h_dist["operations_judged"].items():
        nontrivial.add(("inforce", t_, n_))
    dist["compiled_networks(scale registers in force)"] = h_dist
    lap('H')

    # ---------------------------------------------------------------------------------------------
    res.cov.update({
        "evaluations": evals, "distinct_nontrivial": len(nontrivial) + sweep_distinct,
        "rule": "calls of the real scaling.* functions (and of the two register_command_stream_generator call sites) on exactly "
                "decomposed floats; distinct = distinct (shift, multiplier low bits) results with a non-zero multiplier, distinct pooling "
                "window sizes, distinct elementwise shift signatures, plus distinct quantise_scale results of the float32 significand sweep; "
                "every call compared with the extracted Coq model and judged by exact-arithmetic oracles",
        "input_distribution": dist, "samples": samples,
        "model_vs_impl_differences": len(diffs),
        "first_differences": [{"what": d[0], "case": d[1], "impl": d[2], "model": d[3]} for d in diffs[:5]],
        "reduced_pairs_with_negative_shift(scale>=2^15, observation)": neg_reduced_shift,
        "numpy": np.__version__, "section_seconds": tsec,
    })
    res.assumptions += ["CPython/NumPy float operations are IEEE-754 binary64/binary32",
                        "the NPU applies the pooling scale with natural rounding (acc*scale + 2^(shift-1)) >> shift",
                        "TFLite reference derivations as transcribed (QuantizeMultiplier without the shift > 30 clamp)"]
    if not okx:
        res.notes.append("extraction build failed: " + xlog[-800:])

    def search():
        if bad:
            _, k, d, w = bad[0]
            return k, d, w
        return None

    for cls, k, d, w in bad:
        res.violation(k, d, w)
    if not b["ok"]:
        # a found input has been reported above; the broken obligation is reported as well unless an input explains it
        if not res.violations:
            vlib.report_broken_build(res, b, search if not bad else None)
    if (diffs or not okx) and not res.violations:
        name, case, im, mo = diffs[0] if diffs else ("extraction", {}, None, None)
        res.violation({"correspondence": name, "case": case}, {"impl": im, "model": mo, "differences": len(diffs), "extraction_ok": okx,
                                                                "more": [(d[0], d[1]) for d in diffs[1:6]]},
                      "correspondence of the Scaling model with scaling.%s no longer holds (%d differing cases)" % (name, len(diffs)),
                      no_input=True)
    return res.finish()
