"""C10 -- splitting an operator into stripes does not change what it computes.

Proof side: coq/props/C10.v (partition of the OFM by the generator's loops, tap equality of every stripe, rolling
buffer sufficiency; refutation lemmas for the defects of the unchanged tree).
Tie: gen/GenStripe.v (translated rolling_buffer_shape, needed_total_padding, _required_size) and correspondence of the
extracted model (build/stripe) with the REAL functions Box.transform_with_strides_and_skirt, create_padding,
calc_padding_and_skirt / needed_total_padding / calc_explicit_padding, get_ifm_area_required, rolling_buffer_shape,
Tensor.get_strides / addresses_for_rolling_buffer and the real generator generate_high_level_commands_for_sched_op
(driven through stub schedule objects).  The property oracle (independent Python: brute-force tap equality, exact
partition, rolling-buffer row tracking) is evaluated on the implementation's results and, D2, on the stripe groups of
every captured stream of the shared compilation plan."""
import collections
import itertools
import json
import os
import random

import models
import vlib

EXE = "stripe"
FAMS = ["conv_chain", "conv_chain_big", "single", "diamond", "mixed_cpu", "lut_heavy", "conv_chain_big", "single"]
BT_CONV, BT_VP, BT_POOL, BT_DW, BT_EW, BT_RS = 1, 2, 3, 4, 5, 6


# ======================================================================================== property oracle (independent)
def hw_tap(b0, b1, p0, p1, n, s, kd, i, j, rmode=0):
    """what the hardware reads for output i (relative to the stripe), tap offset j, along one axis, when handed the box
    [b0,b1), leading/trailing padding p0/p1, n outputs, stride s, dilated kernel kd.  'P' padding, 'OOB' a read outside
    the box it was handed, else the source coordinate.  rmode 1/2: 2x NEAREST / TRANSPOSE upscaling of the IFM."""
    t = i * s + j - p0
    ext = (n - 1) * s + kd - p0 - p1
    if t < 0 or t >= ext:
        return "P"
    if rmode:
        if rmode == 2 and t % 2 == 1:
            return "P"
        t //= 2
    if t >= b1 - b0:
        return "OOB"
    return b0 + t


def ref_tap(lo, hi, top, s, r, j, rmode=0):
    """the operator as a whole: valid input [lo,hi), original leading padding top, output r of the operator, tap offset j"""
    if rmode:
        u = r * s + j - top
        if u < 0 or u >= 2 * (hi - lo):
            return "P"
        if rmode == 2 and u % 2 == 1:
            return "P"
        return lo + u // 2
    u = lo + r * s + j - top
    return "P" if (u < lo or u >= hi) else u


def stripe_tap_mismatch(b0, b1, p0, p1, st, en, s, k, d, lo, hi, top, r0, rmode=0):
    """first (r, tap, got, want) where the stripe [st,en) (operator output rows r0+st.. ) resolves a tap differently"""
    kd = d * (k - 1) + 1
    for r in range(st, en):
        for ky in range(k):
            got = hw_tap(b0, b1, p0, p1, en - st, s, kd, r - st, ky * d, rmode)
            want = ref_tap(lo, hi, top, s, r - r0, ky * d, rmode)
            if got != want:
                return (r, ky, got, want)
    return None


def expected_ifm_channels(dot, ofm_c0, ofm_c1, woff_c, roff_c, rdepth, ifm_depth):
    """the IFM channels an operator needs for OFM channels [ofm_c0, ofm_c1): an operator that sums over the IFM depth
    (convolution, fully connected, reduce-sum) needs ALL channels of what it reads -- the read window [roff, roff+rdepth) of a
    folded split/slice, else the whole tensor -- for every depth slice; a channel-wise operator needs the channels of the
    slice, moved from the write window to the read window"""
    if dot:
        return (roff_c, roff_c + rdepth) if rdepth is not None else (0, ifm_depth)
    off = roff_c if rdepth is not None else 0
    return (ofm_c0 - woff_c + off, min(ofm_c1 - woff_c + off, ifm_depth))


def out_size(H, kd, s, pad, before=0, after=0):
    if pad == "SAME":
        return -(-H // s)
    if pad == "VALID":
        return -(-(H - kd + 1) // s)
    return (H + before + after - kd) // s + 1


def partition_error(boxes, lo, hi):
    """boxes: list of (start4, end4); region [lo,hi) (4-D).  None when the boxes are non-empty, pairwise disjoint
    and cover the region exactly."""
    vol = 0
    for (s, e) in boxes:
        if any(a >= b for a, b in zip(s, e)):
            return "empty or inverted box %r-%r" % (s, e)
        if any(a < l for a, l in zip(s, lo)) or any(b > h for b, h in zip(e, hi)):
            return "box %r-%r outside the region %r-%r" % (s, e, lo, hi)
        v = 1
        for a, b in zip(s, e):
            v *= b - a
        vol += v
    for i in range(len(boxes)):
        for j in range(i + 1, len(boxes)):
            (s1, e1), (s2, e2) = boxes[i], boxes[j]
            if all(max(a1, a2) < min(b1, b2) for a1, b1, a2, b2 in zip(s1, e1, s2, e2)):
                return "boxes %r-%r and %r-%r overlap" % (s1, e1, s2, e2)
    tot = 1
    for l, h in zip(lo, hi):
        tot *= max(h - l, 0)
    if vol != tot:
        return "boxes cover %d of %d elements of the region %r-%r (gap)" % (vol, tot, lo, hi)
    return None


# ======================================================================================== the real functions
class Obj:
    def __init__(self, **k):
        self.__dict__.update(k)


_mods = {}


def V():
    if not _mods:
        from ethosu.vela import (architecture_allocator, cascade_builder, graph_optimiser_util, high_level_command_stream,
                                 high_level_command_stream_generator, high_level_command_to_npu_op, operation, shape4d, tensor,
                                 tflite_graph_optimiser, data_type, errors)
        from ethosu.vela.ethos_u55_regs.ethos_u55_regs import resampling_mode
        _mods.update(aa=architecture_allocator, cb=cascade_builder, gu=graph_optimiser_util, hl=high_level_command_stream,
                     gen=high_level_command_stream_generator, h2n=high_level_command_to_npu_op, op=operation, s4=shape4d,
                     tens=tensor, tgo=tflite_graph_optimiser, dt=data_type, err=errors, rm=resampling_mode)
    return Obj(**_mods)


class RealFunctionError(Exception):
    """an exception of a REAL function under correspondence that the model has no counterpart for"""


def guarded(fn):
    def w(*a, **k):
        try:
            return fn(*a, **k)
        except Exception as ex:
            import traceback
            tb = traceback.extract_tb(ex.__traceback__)
            raise RealFunctionError("%s raised %s: %s at %s (arguments %r)" % (
                fn.__name__, type(ex).__name__, ex, ["%s:%d" % (os.path.basename(f.filename), f.lineno) for f in tb][-2:], a)) from ex
    w.__name__ = fn.__name__
    return w


def ints(l):
    return [int(x) for x in l]


@guarded
def real_transform(c):
    v = V()
    s, e, hs, sy, sx, skirt, ifm, bt, concat, kdh = c[0:4], c[4:8], c[8], c[9], c[10], c[11:15], c[15:19], c[19], c[20:24], c[24]
    hsp, so, ss, up, wr = c[25], c[26:30], c[30:34], c[34], c[35]
    S = v.s4.Shape4D
    try:
        box, pt, pb = v.hl.Box(list(s), list(e)).transform_with_strides_and_skirt(
            [1, sy, sx, 1] if hs else None, list(skirt) if hs else None, S(*ifm), v.op.NpuBlockType(bt), list(concat), kdh,
            S(*so) if hsp else None, S(*ss) if hsp else None, up, v.op.Op.Add if wr else None)
    except (AssertionError, ZeroDivisionError):
        return [0]
    return [1] + ints(box.start_coord) + ints(box.end_coord) + [int(pt), int(pb)]


@guarded
def real_create_padding(c):
    v = V()
    vp, tile, ep, fi, la, cpt, cpb, hro, off, shp, ifm_w, bx0, bx1 = c[0], c[1], c[2:6], c[6], c[7], c[8], c[9], c[10], c[11], c[12], c[13], c[14], c[15]
    S = v.s4.Shape4D
    ty = Obj(npu_block_type=v.op.NpuBlockType.VectorProduct if vp else v.op.NpuBlockType.ConvolutionMxN)
    op = Obj(type=ty, attrs={"explicit_padding": tuple(ep), "padding": v.op.Padding.SAME},
             read_offsets=[S(0, 0, off, 0) if hro else None, None], read_shapes=[S(1, 1, shp, 1) if hro else None, None])
    cmd = Obj(is_first_h_stripe=bool(fi), is_last_h_stripe=bool(la), pad_top=cpt, pad_bottom=cpb,
              ifm_box=Obj(start_coord=[0, 0, bx0, 0], end_coord=[1, 1, bx1, 1]), ps=Obj(ifm_shapes=[S(1, 1, ifm_w, 1)]))
    p = v.h2n.create_padding(cmd, op, None)
    return [int(p.top), int(p.left), int(p.bottom), int(p.right)]


@guarded
def real_padding_and_skirt(ptype, w, h, sx, sy, dx, dy, in_h, in_w, ep):
    """returns (model case, real result)"""
    v = V()
    kern = v.op.Kernel(w, h, sx, sy, dx, dy)
    kw, kh = kern.dilated_wh()
    case = [ptype, kw, kh, sx, sy, in_h, in_w] + list(ep)
    try:
        pt = v.op.Padding(ptype)
    except ValueError:
        pt = "no such padding"
    try:
        padding, skirt = v.tgo.calc_padding_and_skirt(pt, kern, v.s4.Shape4D(1, in_h, in_w, 8), tuple(ep))
        out = [1] + ints(padding) + ints(skirt)
    except v.err.UnsupportedFeatureError:
        out = [0]
    return case, out


@guarded
def real_pad_helpers(c):
    v = V()
    i, s, f, pb, pa = c
    a, b = v.gu.calc_explicit_padding(i, s, f, pb, pa)
    return [int(v.gu.needed_total_padding(i, s, f)), int(a), int(b)]


@guarded
def real_ifm_area(c):
    v = V()
    oh, ow, sy, sx, kh, kw, dy, dx, rm = c
    kern = v.op.Kernel(kw, kh, sx, sy, dx, dy)
    w1, h1 = v.aa.get_ifm_area_required(v.s4.Shape4D(1, oh, ow, 8), kern, v.rm(rm))
    return [oh, ow, sy, sx, kern.area_height(), kern.area_width(), rm], [int(w1), int(h1)]


@guarded
def real_rb_shape(c):
    v = V()
    ph, pw, pd, ch, cw, rows = c
    r = v.cb.rolling_buffer_shape(v.s4.Shape4D(1, ph, pw, pd), v.s4.Shape4D(1, ch, cw, pd), rows)
    return ints(r.as_list())


@guarded
def real_stripe_ifm_rows(cons, hin):
    """cascade_builder.stripe_ifm_rows on stub objects for a consumer of the generator schedules (dict of conv_op)"""
    v = V()
    S = v.s4.Shape4D
    consumer = Obj(parent_op=Obj(attrs={"skirt": tuple(cons["skirt"])} if cons["skirt"] is not None else {}),
                   resampling_mode=v.rm(cons["up_mode"]), kernel=v.op.Kernel(cons["k_w"], cons["k_h"], cons["sx"], cons["sy"], cons.get("dil_w", 1), cons["dil_h"]),
                   ifm=Obj(shape=S(*cons["ifm"])))
    cost = Obj(stripe=S(*cons["stripe"]), stripe_input=S(1, hin, cons["ifm"][2], cons["ifm"][3]))
    return int(v.cb.stripe_ifm_rows(consumer, cost))


@guarded
def real_rolling(fmt, es, shape, storage_h, standard, base, s, e):
    """Tensor of `shape` (4-D), format fmt (1 NHWC, 2 NHCWB16), element size es; rolling buffer of storage_h rows unless
    standard.  Returns (strides case, real strides, addresses case, real addresses result)"""
    v = V()
    T = v.tens
    t = T.Tensor(list(shape), v.dt.DataType.int8 if es == 1 else v.dt.DataType.int16, "t")
    t.purpose = T.TensorPurpose.FeatureMap
    t.mem_type = T.MemType.Scratch
    t.mem_area = T.MemArea.Sram
    t.format = T.TensorFormat.NHWC if fmt == 1 else T.TensorFormat.NHCWB16
    t.storage_rounding_quantum = (1, 1, 1, 1) if fmt == 1 else (1, 1, 1, 16)
    t.storage_shape = T.shape_round_to_quantum(list(shape), t.storage_rounding_quantum)
    if not standard:
        t.sub_purpose = T.TensorSubPurpose.RollingBufferY
        t.storage_shape = [1, min(storage_h, t.storage_shape[1]), t.storage_shape[2], t.storage_shape[3]]
    t.address = base
    op_shape = v.s4.Shape4D(*shape)
    if standard:
        storage = t.get_4D_storage_shape_for_shape(op_shape).as_list()
        ssz = t.storage_size_for_shape(storage)
    else:
        storage = list(t.storage_shape)
        ssz = t.storage_size()
    strides = ints(t.get_strides(op_shape))
    try:
        h0, h1, w0, ad = t.addresses_for_rolling_buffer(list(s), list(e), strides, op_shape)
        out = [1, int(h0), int(h1), int(w0)] + ints(ad)
    except AssertionError:
        out = [0]
    except v.err.UnsupportedFeatureError:
        out = [2]
    except ZeroDivisionError:
        out = [0]
    acase = [fmt, base] + storage + strides + ([1] + list(shape) if standard else [0, 0, 0, 0, 0]) + [int(ssz)] + list(s) + list(e)
    return [fmt, es] + storage, strides, acase, out


def run_real_generator(ops):
    """ops: list (first = head of the cascade) of dicts: ifm(4) ofm(4) k_h k_w sy sx dil_h skirt|None bt stripe(4) slices
    woff|None wshape|None roff|None rshape|None up_mode.  All ops form one cascade when there are several.
    Returns the emitted NpuStripe list as (op index, ofm start, ofm end, ifm start, ifm end, pad_top, pad_bottom), or
    ('assert',) when the generator raises AssertionError."""
    v = V()
    S = v.s4.Shape4D
    sched_ops, cost_map = [], {}
    casc = len(ops) - 1 if len(ops) > 1 else 0
    for i, o in enumerate(ops):
        weight = Obj(shape=[o["k_h"], o["k_w"], 1, 1], name="w")
        ifm_t, ofm_t = Obj(name="ifm%d" % i), Obj(name="ofm%d" % i)
        attrs = {"dilation": (1, o["dil_h"], o.get("dil_w", 1), 1), "ksize": (1, o["k_h"], o["k_w"], 1)}
        if o["skirt"] is not None:
            attrs["skirt"] = tuple(o["skirt"])
        pooling = o["bt"] in (BT_POOL, BT_RS)
        parent_op = Obj(get_ifm_ifm2_weights_biases_ofm=(lambda it=ifm_t, w=weight, p=pooling: (it, None, None if p else w, None, None)),
                        attrs=attrs, read_offsets=[S(*o["roff"]) if o["roff"] else None, None],
                        read_shapes=[S(*o["rshape"]) if o["rshape"] else None, None],
                        write_offset=S(*o["woff"]) if o["woff"] else None, write_shape=S(*o["wshape"]) if o["wshape"] else None,
                        activation_lut=None, type=v.op.Op.Conv2DBias, inputs=[])
        ps = Obj(npu_block_type=v.op.NpuBlockType(o["bt"]), ofm_tensor=ofm_t, ops=[], primary_op=Obj(activation=None),
                 ofm_shapes=[S(*o["ofm"])], name="pass%d" % i)
        so = Obj(parent_ps=ps, parent_op=parent_op, reversed_operands=False,
                 ifm=Obj(shape=S(*o["ifm"]), connection=Obj(producers=[sched_ops[i - 1]] if i else [])), ifm2=None,
                 ofm=Obj(shape=S(*o["ofm"])), kernel=v.op.Kernel(o["k_w"], o["k_h"], o["sx"], o["sy"], o.get("dil_w", 1), o["dil_h"]),
                 op_type=v.op.Op.Conv2DBias, resampling_mode=v.rm(o["up_mode"]), index=i)
        sched_ops.append(so)
        cost_map[so] = Obj(cascade=casc, block_config=Obj(old_style_representation=lambda: [1, 1, 1, 1]),
                           ofm_depth_slices=list(o["slices"]), stripe=S(*o["stripe"]), npu_weights_tensor=None,
                           npu_scales_tensor=None, buffered_weight_tensors=[])
    schedule = Obj(cost_map=cost_map, cascades={casc: Obj(start=0, end=len(ops) - 1)} if casc else {})
    idx = {so.parent_ps: i for i, so in enumerate(sched_ops)}
    out = []
    try:
        for cmd in v.gen.generate_high_level_commands_for_sched_op(sched_ops[-1], schedule):
            out.append((idx[cmd.ps], ints(cmd.ofm_box.start_coord), ints(cmd.ofm_box.end_coord),
                        ints(cmd.ifm_box.start_coord), ints(cmd.ifm_box.end_coord), int(cmd.pad_top), int(cmd.pad_bottom)))
    except (AssertionError, ValueError):
        return ("assert",)
    except Exception as ex:   # anything else the real generator raises on the stubs: a correspondence break, not a crash
        import traceback
        tb = traceback.extract_tb(ex.__traceback__)
        return ("exception", "%s: %s at %s" % (type(ex).__name__, ex, ["%s:%d" % (os.path.basename(f.filename), f.lineno) for f in tb][-2:]))
    return out


def op_upscaling(o):
    """the `upscaling` the generator derives (is_nearest -> round_up_divide(ofm_h, ifm_h); else 1)"""
    if o["up_mode"] == 1:
        return -(-o["ofm"][1] // o["ifm"][1])
    return 1


def model_generator_batch(specs):
    """the same streams composed from the extracted model: gen_ofm_boxes, transform, interleave (one level per op);
    batched over all schedules (three model processes per cascade level instead of several per schedule)"""
    bcases, bidx = [], []
    for si, ops in enumerate(specs):
        for oi, o in enumerate(ops):
            if o["woff"]:
                start = list(o["woff"])
                end = [a + b for a, b in zip(o["woff"], o["wshape"])]
            else:
                start = [0, 0, 0, o["slices"][0]]
                end = list(o["ofm"])
            bcases.append(start + end + [o["stripe"][1], o["stripe"][2]] + list(o["slices"]))
            bidx.append((si, oi))
    bouts = models.run("ofm_boxes", bcases, exe_name=EXE) if bcases else []
    failed = set()
    boxes_of = {}
    tcases, tidx = [], []
    for (si, oi), r in zip(bidx, bouts):
        if r[0] != 1:
            failed.add(si)
            continue
        o = specs[si][oi]
        boxes = [r[2 + 8 * i: 10 + 8 * i] for i in range(r[1])]
        boxes_of[(si, oi)] = boxes
        kdh = o["dil_h"] * (o["k_h"] - 1) + 1
        for b in boxes:
            tcases.append(b + [1 if o["skirt"] is not None else 0, o["sy"], o["sx"]] + list(o["skirt"] or [0, 0, 0, 0]) + list(o["ifm"]) +
                          [o["bt"]] + list(o["woff"] or [0, 0, 0, 0]) + [kdh] +
                          ([1] + list(o["roff"]) + list(o["rshape"]) if o["roff"] else [0] * 9) + [op_upscaling(o), 0])
            tidx.append((si, oi))
    touts = models.run_parallel("transform", tcases, exe_name=EXE) if tcases else []
    per_op = collections.defaultdict(list)
    pos = collections.Counter()
    for (si, oi), t in zip(tidx, touts):
        b = boxes_of[(si, oi)][pos[(si, oi)]]
        pos[(si, oi)] += 1
        if t[0] != 1:
            failed.add(si)
            continue
        per_op[(si, oi)].append((b, t[1:9], t[9], t[10]))
    streams = {si: [(0, c) for c in per_op[(si, 0)]] for si in range(len(specs)) if si not in failed}
    level = 1
    while True:
        todo = [si for si in streams if len(specs[si]) > level]
        if not todo:
            break
        icases = []
        for si in todo:
            cmds = per_op[(si, level)]
            case = [len(cmds)]
            for (b, ib, pt, pb) in cmds:
                case += b + ib + [pt, pb]
            case.append(len(streams[si]))
            for (oi, c) in streams[si]:
                case += [1 if oi == level - 1 else 0] + c[0]
            icases.append(case)
        for si, ev in zip(todo, models.run("interleave", icases, exe_name=EXE)):
            new, pi, ci, k = [], 0, 0, 0
            while k < len(ev):
                if ev[k] == 0:
                    new.append(streams[si][pi])
                    pi += 1
                else:
                    new.append((level, per_op[(si, level)][ci]))
                    ci += 1
                k += 9
            streams[si] = new
        level += 1
    out = []
    for si in range(len(specs)):
        if si in failed:
            out.append(("assert",))
        else:
            out.append([(oi, c[0][0:4], c[0][4:8], c[1][0:4], c[1][4:8], c[2], c[3]) for (oi, c) in streams[si]])
    return out


def c10_corpus_jobs():
    """networks kept from this property's findings (corpus/c10): compiled first in the D2 part"""
    import glob
    import hashlib
    import compiles
    jobs = []
    cdir = os.path.join(vlib.ROOT, "corpus", "c10")
    for f in sorted(glob.glob(os.path.join(cdir, "*.json"))):
        d = json.load(open(f))
        path = os.path.join(cdir, d["tflite"])
        sha = hashlib.sha256(open(path, "rb").read()).hexdigest()[:16]
        args = [compiles.CONFIG_INI if a == "@CONFIG_INI@" else a for a in d["args"]]
        jobs.append({"tflite": path, "sha": sha, "args": args, "capture": True, "family": "corpus", "seed": "c10/" + os.path.basename(f)})
    return jobs


def split_conv_jobs(tier):
    """input -> SPLIT in two (depth or width) -> conv3x3 per part (netgen family split_conv): the split is folded into the
    convolutions as a read offset, and with weights that need DMA the convolutions run as several OFM depth slices"""
    import compiles
    rng = random.Random("c10-split/%s" % vlib.seed())
    jobs = []
    accs = compiles.U55 + compiles.U65
    for i in range(8 if tier == "quick" else 120):
        args = ["--accelerator-config", "ethos-u55-128" if i % 2 == 0 else accs[i % len(accs)]]
        if i % 4 == 3:
            args += ["--optimise", rng.choice(["Size", "Performance"])]
        jobs.append({"family": "split_conv:" + ("depth" if i % 2 == 0 else "width"), "seed": "c10split-%d-%d" % (vlib.seed(), i),
                     "args": args, "capture": True})
    return jobs


def slice_conv_jobs(tier):
    """crop along H / W / C folded into a padded or strided kernel operator (netgen kind single:slice_conv): read offsets on the
    height, width and channel axes of convolutions, depthwise convolutions and pools"""
    import compiles
    rng = random.Random("c10-slice/%s" % vlib.seed())
    accs = compiles.U55 + compiles.U65
    jobs = []
    for i in range(24 if tier == "quick" else 400):
        args = ["--accelerator-config", "ethos-u55-128" if i % 3 == 0 else accs[i % len(accs)]]
        if i % 5 == 4:
            args += ["--optimise", rng.choice(["Size", "Performance"])]
        jobs.append({"family": "single:slice_conv", "seed": "c10slice-%d-%d" % (vlib.seed(), i), "args": args, "capture": True})
    return jobs


def extra_family_jobs(tier):
    """further generator families whose stripes are worth deciding: unrolled LSTM layers (many small passes with equal names),
    dilated convolutions rewritten from the space-to-batch form, grouped convolutions, half-pixel x2 resize on int16"""
    import compiles
    fams = ["lstm", "rewrite_patterns", "single:conv_groups", "single:resize_hp16", "single:tconv", "single:tconv"]
    return compiles.plan(fams, 24 if tier == "quick" else 240, vlib.seed(), tag="c10x", capture=True)


def upscale_jobs(tier):
    """x2 upscaling operators between convolutions (netgen family upscale_chain), compiled with the Performance strategy and
    arenas between "nothing fits" and "everything fits", so that the NEAREST-upscaling operator is cascaded and striped by
    propose_schedule_striping (its stripe height comes from its consumer and has to be even)"""
    import compiles
    rng = random.Random("c10-upscale/%s" % vlib.seed())
    jobs = []
    accs = compiles.U55 + compiles.U65
    for i in range(16 if tier == "quick" else 300):
        arena = rng.choice([30000, 40000, 50000, 60000, 70000, 80000, 100000, 120000, 160000, 200000])
        jobs.append({"family": "upscale_chain", "seed": "c10up-%d-%d" % (vlib.seed(), i),
                     "args": ["--accelerator-config", "ethos-u55-128" if i % 2 == 0 else accs[i % len(accs)], "--arena-cache-size", str(arena),
                              "--optimise", "Performance" if i % 4 else "Size"], "capture": True})
    return jobs


# ======================================================================================== case generators
def geometry_cases(rng, tier):
    """(H, k, d, s, pad, t, b) along one axis, exhaustive small then random large"""
    out = []
    hmax = 10 if tier == "quick" else 12
    for H in range(1, hmax + 1):
        for k in range(1, 5):
            for d in (1, 2):
                kd = d * (k - 1) + 1
                for s in (1, 2, 3):
                    out.append((H, k, d, s, "SAME", 0, 0))
                    out.append((H, k, d, s, "VALID", 0, 0))
                    for t in range(0, kd // 2 + 1):
                        for b in range(0, kd // 2 + 1):
                            if t + b:
                                out.append((H, k, d, s, "EXPLICIT", t, b))
    n = 150 if tier == "quick" else 4000
    for _ in range(n):
        k = rng.choice([1, 2, 3, 3, 4, 5, 7, 8])
        d = rng.choice([1, 1, 2])
        kd = d * (k - 1) + 1
        s = rng.choice([1, 1, 2, 3])
        H = rng.choice([rng.randrange(1, 40), rng.randrange(40, 301), rng.choice([kd, kd + 1, 2 * kd, 3 * s * 7, 3 * s * 7 + 1])])
        pad = rng.choice(["SAME", "VALID", "EXPLICIT"])
        t = rng.randrange(0, kd // 2 + 1) if pad == "EXPLICIT" else 0
        b = rng.randrange(0, kd // 2 + 1) if pad == "EXPLICIT" else 0
        out.append((H, k, d, s, pad, t, b))
    return out


PADCODE = {"SAME": 0, "VALID": 1, "EXPLICIT": 2}


def steps_for(Ho, rng, tier):
    if Ho <= 12:
        return list(range(1, Ho + 1))
    c = {1, 2, 3, Ho, Ho - 1, (Ho + 1) // 2, rng.randrange(1, Ho + 1)}
    if tier != "quick":
        c |= {rng.randrange(1, Ho + 1) for _ in range(3)}
    return sorted(x for x in c if x >= 1)


def run(tier):
    res = vlib.Result("C10", tier, "proof")
    b = vlib.build_property("C10")
    try:
        return _run(tier, res, b)
    except RealFunctionError as ex:
        # a real function driven through stubs / generated arguments failed in a way the model does not know: the
        # correspondence no longer holds; reported through the protocol (DESIGN.md section 5), never as a check error
        vlib.proof_coverage(res, b, [])
        res.violation({"correspondence": "real function raised", "function": str(ex).split(" ")[0]}, {"exception": str(ex)},
                      "correspondence of the Stripe model with the real code no longer holds: " + str(ex)[:400], no_input=True)
        return res.finish()


def _run(tier, res, b):
    v = V()
    vlib.proof_coverage(res, b, [
        "extraction (ExtrOcamlBasic only) + ocaml/driver.ml for the correspondence runs",
        "coq/model/Stripe.v hw_tap / ref_tap: the hardware tap semantics (IFM extent (n-1)*s + k_dilated - pads as in "
        "coq/hw/Npu.v ifm_dims; two height tiles as in Npu.tile_of) are modelled from Vela's register documentation, not silicon",
        "stub schedule objects in tools/checks/c10.py drive the real generator (only attributes the generator reads)"])
    okx, xlog = vlib.build_extraction(EXE)
    rng = random.Random(vlib.seed())
    diffs = collections.OrderedDict()      # correspondence name -> first difference
    ncorr = collections.Counter()
    findings = collections.OrderedDict()   # key tuple -> (key, detail, what, prio)
    seen_kinds = collections.Counter()
    compiled_wit = {}
    evals = 0
    nontrivial = set()
    samples = []

    def note_diff(name, case, model, impl):
        if name not in diffs:
            diffs[name] = {"case": case, "model": model, "impl": impl}

    def finding(key, detail, what, prio=5):
        """one witness per class of failing input; a lower prio replaces an earlier witness (clearer instance)"""
        kt = (key["kind"], key.get("consumer_stride_y")) + ((key.get("axis"), key.get("stride")) if key["kind"].startswith("tap_mismatch") else ())
        seen_kinds[key["kind"] + ("/compiled" if detail.get("net") else "")] += 1
        if detail.get("net"):
            compiled_wit.setdefault(kt, detail)
        if kt not in findings or prio < findings[kt][3]:
            findings[kt] = (key, detail, what, prio)

    def mrun(name, cases):
        if not okx or not cases:
            return [None] * len(cases)
        return models.run_parallel(name, cases, exe_name=EXE) if len(cases) > 4000 else models.run(name, cases, exe_name=EXE)

    import time
    tsec = collections.OrderedDict()
    t_last = [time.time()]

    def lap(name):
        tsec[name] = round(time.time() - t_last[0], 1)
        t_last[0] = time.time()

    lap('build')
    # ---------------------------------------------------------------- 1. padding helpers
    cases = []
    for i, s, f in itertools.product(range(1, 14), (1, 2, 3), range(1, 9)):
        for pb_, pa in itertools.product(range(0, f // 2 + 1), range(0, f // 2 + 2)):
            cases.append([i, s, f, pb_, pa])
    for _ in range(300 if tier == "quick" else 5000):
        f = rng.randrange(1, 16)
        cases.append([rng.randrange(1, 400), rng.randrange(1, 5), f, rng.randrange(0, f + 1), rng.randrange(0, f + 3)])
    for c, m in zip(cases, mrun("pad_helpers", cases)):
        r = real_pad_helpers(c)
        ncorr["pad_helpers"] += 1
        if m is not None and m != r:
            note_diff("needed_total_padding/calc_explicit_padding", c, m, r)
        # oracle (theorem calc_explicit_padding_exact): the after-padding is exactly what the last filter position needs
        i_, s_, f_, pb_, pa_ = c
        if f_ <= i_ + pb_ + pa_:
            out_ = (i_ + pb_ + pa_ - f_) // s_ + 1
            want = max(0, (out_ - 1) * s_ + f_ - pb_ - i_)
            evals += 1
            if r[1] != pb_ or r[2] != want:
                finding({"kind": "explicit_bottom_padding_lost"},
                        dict(H=i_, stride=s_, kernel=f_, pad_before=pb_, pad_after=pa_, ofm=out_, returned=[r[1], r[2]], required_after=want),
                        "calc_explicit_padding(%d, %d, %d, %d, %d) returns %r; the last of the %d filter positions needs after-padding %d" % (
                            i_, s_, f_, pb_, pa_, (r[1], r[2]), out_, want), prio=0 if (pb_ <= f_ // 2 and pa_ <= f_ // 2) else 1)
    cases, reals = [], []
    for (H, k, d, s, pad, t, bb) in geometry_cases(rng, "quick"):
        for W, kw, sx, dx in ((H, k, s, d), (7, 3, 1, 1)):
            c, r = real_padding_and_skirt(PADCODE[pad], kw, k, sx, s, dx, d, H, W, (t, t if W == H else 0, bb, bb if W == H else 0))
            cases.append(c)
            reals.append(r)
    for pt in (3, 4, 7):
        c, r = real_padding_and_skirt(pt, 3, 3, 1, 1, 1, 1, 8, 8, (1, 1, 0, 0))
        cases.append(c)
        reals.append(r)
    for c, m, r in zip(cases, mrun("padding_and_skirt", cases), reals):
        ncorr["calc_padding_and_skirt"] += 1
        if m is not None and m != r:
            note_diff("calc_padding_and_skirt", c, m, r)

    # ---------------------------------------------------------------- 2. stripe input requirement, rolling buffer shape
    cases, reals = [], []
    for oh, sy, kh, dy, rm in itertools.product(range(1, 9), (1, 2, 3), range(1, 5), (1, 2), (0, 1, 2)):
        c, r = real_ifm_area([oh, oh + 1, sy, (sy % 3) + 1, kh, (kh % 4) + 1, dy, 3 - dy, rm])
        cases.append(c)
        reals.append(r)
    for _ in range(200 if tier == "quick" else 3000):
        c, r = real_ifm_area([rng.randrange(1, 300), rng.randrange(1, 300), rng.randrange(1, 4), rng.randrange(1, 4), rng.randrange(1, 9),
                              rng.randrange(1, 9), rng.randrange(1, 3), rng.randrange(1, 3), rng.randrange(0, 3)])
        cases.append(c)
        reals.append(r)
    for c, m, r in zip(cases, mrun("ifm_area", cases), reals):
        ncorr["get_ifm_area_required"] += 1
        if m is not None and m != r:
            note_diff("get_ifm_area_required", c, m, r)
    cases = [[ph, pw, pd, ch_, cw_, rows] for ph, ch_ in itertools.product(range(1, 16), range(1, 16)) for pw, pd, cw_ in ((8, 16, 8), (5, 17, 9))
             for rows in (0, ch_, ch_ + 1, ch_ + 2, ch_ + 5)]
    cases += [[rng.randrange(1, 300), rng.randrange(1, 300), rng.randrange(1, 300), rng.randrange(1, 300), rng.randrange(1, 300), rng.randrange(0, 320)]
              for _ in range(200 if tier == "quick" else 3000)]
    for c, m in zip(cases, mrun("rb_shape", cases)):
        ncorr["rolling_buffer_shape"] += 1
        r = real_rb_shape(c)
        if m is not None and m != r:
            note_diff("rolling_buffer_shape", c, m, r)

    lap('helpers')
    # ---------------------------------------------------------------- 3. transform + create_padding + oracle, height axis
    Wd, Dd = 6, 8
    geos = geometry_cases(rng, tier)
    tcases, tmeta = [], []
    for (H, k, d, s, pad, t, bb) in geos:
        kd = d * (k - 1) + 1
        Ho = out_size(H, kd, s, pad, t, bb)
        if Ho < 1:
            continue
        _, ps = real_padding_and_skirt(PADCODE[pad], 1, k, 1, s, 1, d, H, Wd, (t, 0, bb, 0))
        padding, skirt = ps[1:5], ps[5:9]
        woffs = [0] if (H > 12 or tier == "quick" and H > 8) else [0, 3]
        for woff in woffs:
            for step in steps_for(Ho, rng, tier):
                for st in range(woff, woff + Ho, step):
                    en = min(st + step, woff + Ho)
                    tcases.append([0, st, 0, 0, 1, en, Wd, Dd, 1, s, 1] + skirt + [1, H, Wd, Dd, BT_DW, 0, woff, 0, 0, kd] + [0] * 9 + [1, 0])
                    tmeta.append((H, k, d, s, pad, t, bb, Ho, woff, step, st, en, padding, skirt))
    treal = [real_transform(c) for c in tcases]
    for c, m, r in zip(tcases, mrun("transform", tcases), treal):
        ncorr["transform(height)"] += 1
        if m is not None and m != r:
            note_diff("Box.transform_with_strides_and_skirt", c, m, r)
    pcases, pmeta = [], []
    for c, r, me in zip(tcases, treal, tmeta):
        if r[0] != 1:
            finding({"kind": "transform_assertion", "axis": "h"}, {"case": c, "meta": me}, "transform_with_strides_and_skirt raises on a valid stripe")
            continue
        (H, k, d, s, pad, t, bb, Ho, woff, step, st, en, padding, skirt) = me
        pcases.append([0, 0] + padding + [1 if st == woff else 0, 1 if en >= woff + Ho else 0, r[9], r[10], 0, 0, 0, Wd, r[3], r[7]])
        pmeta.append((me, r))
    preal = [real_create_padding(c) for c in pcases]
    for c, m, r in zip(pcases, mrun("create_padding", pcases), preal):
        ncorr["create_padding"] += 1
        if m is not None and m != r:
            note_diff("create_padding", c, m, r)
    # the 1-D composition used by the theorems (Stripe.stripe_h = transform's height part + create_padding's selection,
    # Stripe.stripe_taps_ok = the tap comparison) against the real functions' results and the Python oracle
    shcases = [[me[0], me[7], me[1], me[2], me[3], me[12][0], me[12][2], me[13][0], me[13][2], me[8], me[10], me[11]] for (me, tr) in pmeta]
    for c, m, (me, tr), pr in zip(shcases, mrun("stripe_h", shcases), pmeta, preal):
        ncorr["stripe_h (1-D composition)"] += 1
        (H, k, d, s, pad, t, bb, Ho, woff, step, st, en, padding, skirt) = me
        ok = stripe_tap_mismatch(tr[2], tr[6], pr[0], pr[2], st, en, s, k, d, 0, H, padding[0], woff) is None
        want = [tr[2], tr[6], pr[0], pr[2], 1 if ok else 0]
        if m is not None and m != want:
            note_diff("stripe_h / stripe_taps_ok", c, m, want)
    for (me, tr), pr in zip(pmeta, preal):
        (H, k, d, s, pad, t, bb, Ho, woff, step, st, en, padding, skirt) = me
        evals += 1
        nontrivial.add((min(H, 40), k, d, s, pad, t, bb, min(step, 13), st == woff, en >= woff + Ho))
        mm = stripe_tap_mismatch(tr[2], tr[6], pr[0], pr[2], st, en, s, k, d, 0, H, t if pad == "EXPLICIT" else padding[0], woff)
        if mm:
            wit = dict(H=H, kernel=k, dilation=d, stride=s, padding=pad, pad_before=t, pad_after=bb, ofm_h=Ho, write_offset=woff,
                       stripe_height=step, ofm_rows=[st, en], ifm_box=[tr[2], tr[6]], hw_pad_top=pr[0], hw_pad_bottom=pr[2],
                       ofm_row=mm[0], tap=mm[1], hardware_reads=mm[2], operator_reads=mm[3], skirt=skirt, op_padding=padding)
            if pad == "EXPLICIT" and Ho > H and not (st == woff and en >= woff + Ho):
                finding({"kind": "explicit_pad_ofm_taller_than_ifm_last_stripe"}, wit,
                        "fused PAD + even kernel (OFM taller than IFM): the last stripe's pad_bottom is computed from the OFM end clipped to "
                        "the IFM height; the hardware reads row %s where the operator has %s" % (mm[2], mm[3]))
            elif pad == "EXPLICIT" and st == woff and en >= woff + Ho:
                finding({"kind": "explicit_bottom_padding_lost"}, wit,
                        "calc_explicit_padding drops bottom padding the last window needs (kernel %d stride %d): the un-split operator "
                        "(also each of its depth slices) reads row %s where the operator has %s" % (k, s, mm[2], mm[3]))
            else:
                finding({"kind": "tap_mismatch", "axis": "h", "stride": s}, wit,
                        "stripe rows [%d,%d) of H=%d k=%d s=%d d=%d %s: hardware reads %s, operator reads %s" % (st, en, H, k, s, d, pad, mm[2], mm[3]))
        if len(samples) < 3 and step < Ho and k > 1:
            samples.append({"H": H, "k": k, "d": d, "s": s, "pad": pad, "stripe_rows": [st, en], "ifm_box_rows": [tr[2], tr[6]],
                            "pad_top": pr[0], "pad_bottom": pr[2]})

    lap('height')
    # ---------------------------------------------------------------- 4. width axis, read offsets, depth, upscaling, wrap
    tcases, tmeta = [], []
    small = [g for g in geos if g[0] <= (8 if tier == "quick" else 12)]
    for (W, k, d, s, pad, t, bb) in small:
        kd = d * (k - 1) + 1
        Wo = out_size(W, kd, s, pad, t, bb)
        if Wo < 1:
            continue
        _, ps = real_padding_and_skirt(PADCODE[pad], k, 1, s, 1, d, 1, 5, W, (0, t, 0, bb))
        padding, skirt = ps[1:5], ps[5:9]
        for woff in (0, 2):
            tcases.append([0, 0, woff, 0, 1, 5, woff + Wo, Dd, 1, 1, s] + skirt + [1, 5, W, Dd, BT_CONV, 0, 0, woff, 0, 1] + [0] * 9 + [1, 0])
            tmeta.append(("w", W, k, d, s, pad, t, bb, Wo, woff, 0, W, padding, skirt, woff, woff + Wo))
        # the operator reads the window [off, off+W) of a wider tensor (split / slice fused into the consumer)
        # (the padding attributes of the operator belong to the window: add_padding_fields sees the slice's output shape)
        for off, extra in ((3, 4), (1, 0)):
            tcases.append([0, 0, 0, 0, 1, 5, Wo, Dd, 1, 1, s] + skirt + [1, 5, off + W + extra, Dd, BT_CONV, 0, 0, 0, 0, 1] +
                          [1, 0, 0, off, 0, 1, 5, W, Dd] + [1, 0])
            tmeta.append(("w", W, k, d, s, pad, t, bb, Wo, 0, off, off + W + extra, padding, skirt, 0, Wo))
            H = W
            _, ps3 = real_padding_and_skirt(PADCODE[pad], 1, k, 1, s, 1, d, H, 5, (t, 0, bb, 0))
            for step in sorted({Wo, 1, 2, 3} & set(range(1, Wo + 1))):      # the whole operator, and rows in stripes
                for st in range(0, Wo, step):
                    en = min(st + step, Wo)
                    tcases.append([0, st, 0, 0, 1, en, 5, Dd, 1, s, 1] + ps3[5:9] + [1, off + H + extra, 5, Dd, BT_CONV, 0, 0, 0, 0, kd] +
                                  [1, 0, off, 0, 0, 1, H, 5, Dd] + [1, 0])
                    tmeta.append(("h", H, k, d, s, pad, t, bb, Wo, 0, off, off + H + extra, ps3[1:5], ps3[5:9], st, en))
    treal = [real_transform(c) for c in tcases]
    for c, m, r in zip(tcases, mrun("transform", tcases), treal):
        ncorr["transform(width, read offsets)"] += 1
        if m is not None and m != r:
            note_diff("Box.transform_with_strides_and_skirt", c, m, r)
    pcases, pmeta = [], []
    for c, r, me in zip(tcases, treal, tmeta):
        (axis, W, k, d, s, pad, t, bb, Wo, woff, off, full, padding, skirt, st, en) = me
        if r[0] != 1:
            if off == 0:
                finding({"kind": "transform_assertion", "axis": axis}, {"case": c, "meta": me}, "transform raises on a valid full-width stripe")
            elif s > 1:
                finding({"kind": "read_offset_%s" % ("height" if axis == "h" else "width_strided")},
                        {"case": c, "meta": me, "result": "Box assertion (start > end)", "read_offset": off, "stride": s},
                        "read offset %d along %s, stride %d: the IFM box is inverted (offset multiplied by the stride)" % (off, axis, s))
            else:
                finding({"kind": "transform_assertion", "axis": axis}, {"case": c, "meta": me}, "transform raises on a stride-1 read window")
            continue
        whole = axis == "w" or (st == 0 and en >= Wo)
        pcases.append([0, 0] + padding + [1 if (axis == "w" or st == 0) else 0, 1 if (axis == "w" or en >= Wo) else 0, r[9], r[10],
                       1 if off else 0, off if axis == "w" else 0, W if axis == "w" else 5,
                       full if axis == "w" else 5, r[3], r[7]])
        pmeta.append((me, r))
    preal = [real_create_padding(c) for c in pcases]
    for c, m, r in zip(pcases, mrun("create_padding", pcases), preal):
        ncorr["create_padding"] += 1
        if m is not None and m != r:
            note_diff("create_padding", c, m, r)
    for (me, tr), pr in zip(pmeta, preal):
        (axis, W, k, d, s, pad, t, bb, Wo, woff, off, full, padding, skirt, st, en) = me
        evals += 1
        top = (t if pad == "EXPLICIT" else padding[0 if axis == "h" else 1])
        if axis == "w":
            mm = stripe_tap_mismatch(tr[3], tr[7], pr[1], pr[3], woff, woff + Wo, s, k, d, off, off + W, top, woff)
        else:
            mm = stripe_tap_mismatch(tr[2], tr[6], pr[0], pr[2], st, en, s, k, d, off, off + W, top, 0)
        nontrivial.add((axis, min(W, 40), k, d, s, pad, t, bb, woff, off, st, en))
        if mm and pad == "EXPLICIT" and Wo > W:
            continue       # OFM taller than IFM: the open finding explicit_pad_ofm_taller_than_ifm_last_stripe (decided in section 3)
        if mm and not (pad == "EXPLICIT" and off == 0 and (k, s, t, bb) == (2, 3, 1, 1)):
            wit = dict(axis=axis, extent=W, tensor_extent=full, read_offset=off, kernel=k, dilation=d, stride=s, padding=pad, pad_before=t,
                       pad_after=bb, ofm_extent=Wo, ofm_range=[st, en], write_offset=woff, ifm_box=[tr[2 if axis == "h" else 3], tr[6 if axis == "h" else 7]],
                       hw_pad_before=pr[0 if axis == "h" else 1], hw_pad_after=pr[2 if axis == "h" else 3], ofm_index=mm[0], tap=mm[1],
                       hardware_reads=mm[2], operator_reads=mm[3], skirt=skirt, op_padding=padding)
            known_broken = off and (s > 1 if axis == "w" else (s > 1 or padding[0] + padding[2] > 0))
            if known_broken and axis == "h":
                finding({"kind": "read_offset_height"}, wit,
                        "operator reading rows [%d,%d) of a taller tensor (split/slice fused into the consumer), k=%d s=%d %s: the height clip "
                        "ignores the read window: hardware reads %s, operator reads %s" % (off, off + W, k, s, pad, mm[2], mm[3]),
                        prio=(0 if (s == 1 and pad == "SAME" and k == 3 and d == 1 and isinstance(mm[2], int)) else 2 if isinstance(mm[2], int) else 4))
            elif known_broken:
                finding({"kind": "read_offset_width_strided"}, wit,
                        "operator reading columns [%d,%d) of a wider tensor with stride %d: the read offset is multiplied by the stride: "
                        "hardware reads %s, operator reads %s" % (off, off + W, s, mm[2], mm[3]),
                        prio=(0 if (s == 2 and pad == "SAME" and k == 3 and d == 1 and isinstance(mm[2], int)) else 2 if isinstance(mm[2], int) else 4))
            else:
                finding({"kind": "tap_mismatch", "axis": axis, "stride": s}, wit,
                        "full-extent stripe of extent %d (read offset %d) k=%d s=%d d=%d %s: hardware reads %s, operator reads %s" % (
                            W, off, k, s, d, pad, mm[2], mm[3]))
        elif mm:
            finding({"kind": "explicit_bottom_padding_lost"}, dict(axis=axis, extent=W, kernel=k, stride=s, pad_before=t, pad_after=bb,
                                                                              hw_pad_after=pr[3], hardware_reads=mm[2], operator_reads=mm[3]),
                    "calc_explicit_padding drops trailing padding the last window needs (kernel 2 stride 3)")
    # depth / dot product / upscaling / wrap / malformed: correspondence only
    tcases = []
    for _ in range(1500 if tier == "quick" else 30000):
        up = rng.choice([1, 1, 2])
        H, W, D = rng.randrange(1, 13), rng.randrange(1, 13), rng.choice([1, 8, 16, 24])
        sy, sx = rng.randrange(1, 4), rng.randrange(1, 4)
        kdh = rng.randrange(1, 8)
        skirt = [rng.randrange(-1, 5), rng.randrange(-1, 5), rng.randrange(-2, 6), rng.randrange(-2, 6)]
        Ho, Wo = rng.randrange(1, H * up + 3), rng.randrange(1, W * up + 2)
        con = [0, rng.choice([0, 0, 2]), rng.choice([0, 0, 1]), rng.choice([0, 0, 8])]
        st = rng.randrange(0, Ho)
        en = rng.randrange(st, Ho + 1)
        sw = rng.choice([0, 0, rng.randrange(0, Wo)])
        ew = rng.choice([Wo, Wo, rng.randrange(sw, Wo + 1)])
        c0 = rng.choice([0, 0, 8])
        c1 = c0 + rng.choice([8, 16])
        hsp = rng.random() < 0.3
        so = [0, rng.choice([0, 1, 3]), rng.choice([0, 2]), rng.choice([0, 8])] if hsp else [0] * 4
        ss = [1, rng.randrange(1, H + 1), rng.randrange(1, W + 1), rng.choice([8, 16])] if hsp else [0] * 4
        hs = rng.random() < 0.85
        tcases.append([0, st + con[1], sw + con[2], c0 + con[3], 1, en + con[1], ew + con[2], c1 + con[3], 1 if hs else 0, sy, sx] + skirt +
                      [1, H, W, D, rng.choice([BT_CONV, BT_VP, BT_POOL, BT_DW, BT_EW, BT_RS])] + con + [kdh, 1 if hsp else 0] + so + ss +
                      [up, 1 if (not hs and rng.random() < 0.5) else 0])
    for _ in range(100 if tier == "quick" else 2000):
        H, W = rng.randrange(13, 300), rng.randrange(13, 300)
        sy = rng.randrange(1, 4)
        Ho = rng.randrange(1, H + 1)
        st = rng.randrange(0, Ho)
        en = rng.randrange(st + 1, Ho + 1)
        up = rng.choice([1, 2])
        tcases.append([0, st, 0, 0, 1, en, W, 16, 1, sy, rng.randrange(1, 4), rng.randrange(0, 8), rng.randrange(0, 8), rng.randrange(-2, 8),
                       rng.randrange(-2, 8), 1, H, W, 16, rng.choice([BT_CONV, BT_DW, BT_POOL]), 0, 0, 0, 0, rng.randrange(1, 16)] + [0] * 9 + [up, 0])
    tcases.append([0, 0, 0, 0, 1, 4, 4, 8, 1, 1, 1, 1, 1, 1, 1, 1, 4, 4, 8, BT_CONV, 0, 0, 0, 0, 3] + [0] * 9 + [0, 0])   # upscaling 0
    treal = [real_transform(c) for c in tcases]
    for c, m, r in zip(tcases, mrun("transform", tcases), treal):
        ncorr["transform(random, upscaling, depth, wrap)"] += 1
        if m is not None and m != r:
            note_diff("Box.transform_with_strides_and_skirt", c, m, r)
    pcases = []
    for _ in range(400 if tier == "quick" else 5000):
        W = rng.randrange(1, 40)
        hro = rng.random() < 0.4
        off = rng.randrange(0, 6) if hro else 0
        shp = rng.randrange(1, W + 1) if hro else 0
        pcases.append([1 if rng.random() < 0.1 else 0, 0, rng.randrange(0, 4), rng.randrange(0, 4), rng.randrange(0, 4), rng.randrange(0, 4),
                       rng.randrange(0, 2), rng.randrange(0, 2), rng.randrange(0, 4), rng.randrange(0, 4), 1 if hro else 0, off, shp, W,
                       rng.choice([0, off, off + 1, rng.randrange(0, W + 1)]), rng.choice([W, shp, off + shp, rng.randrange(0, W + 7)])])
    for c, m in zip(pcases, mrun("create_padding", pcases)):
        r = real_create_padding(c)
        ncorr["create_padding"] += 1
        if m is not None and m != r:
            note_diff("create_padding", c, m, r)

    # ---------------------------------------------------------------- 4b. the channel axis: read offsets x OFM depth slices
    # (oracle on the implementation: the IFM channel range of every depth slice is the one the operator needs)
    tcases, tmeta = [], []
    for bt in (BT_CONV, BT_VP, BT_RS, BT_DW, BT_POOL):
        for (so, ss, full) in ((None, None, [1, 6, 6, 48]),                       # no read offset
                               ([0, 0, 0, 16], [1, 6, 6, 16], [1, 6, 6, 48]),    # split along depth, second part
                               ([0, 0, 0, 0], [1, 6, 6, 16], [1, 6, 6, 48]),     # split along depth, first part
                               ([0, 0, 0, 32], [1, 6, 6, 16], [1, 6, 6, 48]),    # split along depth, last part
                               ([0, 0, 6, 0], [1, 6, 6, 32], [1, 6, 12, 32]),    # split along width, second part
                               ([0, 2, 0, 0], [1, 4, 6, 32], [1, 6, 6, 32])):    # split along height (no padding, stride 1)
            rd = ss[3] if ss else None
            ofm_d = 64 if bt in (BT_CONV, BT_VP, BT_RS) else (rd if rd is not None else full[3])
            for woff_c in (0, 8):
                for (c0, c1) in ((0, ofm_d), (0, 16), (16, 32), (16, ofm_d), (32, 48), (48, 64), (8, 24)):
                    if c1 > ofm_d or c0 >= c1:
                        continue
                    oh, ow = (ss or full)[1], (ss or full)[2]
                    tcases.append([0, 0, 0, c0 + woff_c, 1, oh, ow, c1 + woff_c, 1, 1, 1, 0, 0, 0, 0] + full + [bt, 0, 0, 0, woff_c, 1] +
                                  ([1] + so + ss if so else [0] * 9) + [1, 0])
                    tmeta.append((bt, so, ss, full, woff_c, c0, c1))
    for _ in range(200 if tier == "quick" else 4000):
        bt = rng.choice([BT_CONV, BT_CONV, BT_VP, BT_RS, BT_DW, BT_POOL])
        D = rng.choice([16, 32, 48, 64, 96])
        hsp = rng.random() < 0.7
        rd = rng.choice([8, 16, 32]) if hsp else None
        if hsp and rd > D:
            rd = D
        offc = rng.randrange(0, (D - rd) // 8 + 1) * 8 if hsp else 0
        H, W = rng.randrange(1, 9), rng.randrange(1, 9)
        offw = rng.choice([0, 0, rng.randrange(0, 4)]) if hsp else 0
        full = [1, H, W + offw, D]
        so, ss = ([0, 0, offw, offc], [1, H, W, rd]) if hsp else (None, None)
        ofm_d = rng.choice([16, 32, 64, 128]) if bt in (BT_CONV, BT_VP, BT_RS) else (rd if hsp else D)
        c0 = rng.randrange(0, ofm_d // 8) * 8
        c1 = rng.randrange(c0 // 8 + 1, ofm_d // 8 + 1) * 8
        woff_c = rng.choice([0, 0, 16])
        tcases.append([0, 0, 0, c0 + woff_c, 1, H, W, c1 + woff_c, 1, 1, 1, 0, 0, 0, 0] + full + [bt, 0, 0, 0, woff_c, 1] +
                      ([1] + so + ss if so else [0] * 9) + [1, 0])
        tmeta.append((bt, so, ss, full, woff_c, c0, c1))
    treal = [real_transform(c) for c in tcases]
    for c, m, r in zip(tcases, mrun("transform", tcases), treal):
        ncorr["transform(channels: read offsets x depth slices)"] += 1
        if m is not None and m != r:
            note_diff("Box.transform_with_strides_and_skirt", c, m, r)
    for c, r, (bt, so, ss, full, woff_c, c0, c1) in zip(tcases, treal, tmeta):
        dot = bt in (BT_CONV, BT_VP, BT_RS)
        want = expected_ifm_channels(dot, c0 + woff_c, c1 + woff_c, woff_c, so[3] if so else 0, ss[3] if ss else None, full[3])
        got = (r[4], r[8]) if r[0] == 1 else "Box assertion (start > end)"
        evals += 1
        nontrivial.add(("channels", bt, tuple(so) if so else None, woff_c, c0, c1))
        if got != want:
            finding({"kind": "ifm_channel_range"},
                    dict(block_type=bt, sums_over_ifm_depth=dot, ifm_shape=full, read_offset=so, read_shape=ss, write_offset_depth=woff_c,
                         ofm_channels=[c0 + woff_c, c1 + woff_c], ifm_channels_handed=list(got) if isinstance(got, tuple) else got,
                         ifm_channels_needed=list(want), transform_arguments=c),
                    "depth slice OFM channels [%d,%d) of a%s operator reading %s: the transform hands IFM channels %s, the operator needs [%d,%d)" % (
                        c0 + woff_c, c1 + woff_c, " depth-summing (convolution-like)" if dot else " channel-wise",
                        "the window offset %r shape %r of a tensor %r (split/slice folded into it)" % (so, ss, full) if so else "its whole IFM %r" % full,
                        "[%d,%d)" % got if isinstance(got, tuple) else got, want[0], want[1]),
                    prio=0 if (dot and so and so[3] and c0 and isinstance(got, tuple)) else 1 if (c0 and isinstance(got, tuple)) else 3)

    lap('width_random')
    # ---------------------------------------------------------------- 5. nearest-neighbour upscaling (oracle on the implementation)
    for H in range(1, (7 if tier == "quick" else 11)):
        # geometries of convert_resize_to_upscale_and_average_pool / convert_resizenn_ac_to_depthwise_conv: 1x1 SAME, kxk VALID
        # (align corners), kxk EXPLICIT [0, 0, k-1, k-1]; the leading padding is always 0 (with an odd leading skirt the
        # transform's skirt_top_remainder shift would not be tap-equal; the optimiser never produces that)
        for k, pad in ((1, "SAME"), (2, "VALID"), (2, "EXPLICIT"), (4, "VALID"), (4, "EXPLICIT")):
            Ho = 2 * H if pad != "VALID" else 2 * H - k + 1
            if Ho < 1:
                continue
            _, ps = real_padding_and_skirt(PADCODE[pad], 1, k, 1, 1, 1, 1, H, Wd, (0, 0, k - 1, 0))
            padding, skirt = ps[1:5], ps[5:9]
            for step in range(2, Ho + 1, 2):
                for st in range(0, Ho, step):
                    en = min(st + step, Ho)
                    c = [0, st, 0, 0, 1, en, Wd, Dd, 1, 1, 1] + skirt + [1, H, Wd, Dd, BT_POOL, 0, 0, 0, 0, k] + [0] * 9 + [2, 0]
                    r = real_transform(c)
                    evals += 1
                    if r[0] != 1:
                        continue
                    pr = real_create_padding([0, 0] + padding + [1 if st == 0 else 0, 1 if en >= Ho else 0, r[9], r[10], 0, 0, 0, Wd, r[3], r[7]])
                    mm = stripe_tap_mismatch(r[2], r[6], pr[0], pr[2], st, en, 1, k, 1, 0, H, padding[0], 0, rmode=1)
                    nontrivial.add(("nearest", H, k, pad, step, st))
                    if mm:
                        finding({"kind": "tap_mismatch_nearest_upscaling", "axis": "h", "stride": 1},
                                dict(H=H, kernel=k, padding=pad, ofm_h=Ho, stripe_height=step, ofm_rows=[st, en], ifm_box=[r[2], r[6]],
                                     hw_pad_top=pr[0], hw_pad_bottom=pr[2], ofm_row=mm[0], tap=mm[1], hardware_reads=mm[2], operator_reads=mm[3]),
                                "2x nearest upscaling, even stripe [%d,%d) of H=%d k=%d %s: hardware reads %s, operator reads %s" % (st, en, H, k, pad, mm[2], mm[3]))

    lap('nearest')
    # ---------------------------------------------------------------- 6. tensor strides and rolling-buffer tile addresses
    scases, sreal, acases, areal = [], [], [], []
    for _ in range(600 if tier == "quick" else 8000):
        fmt = rng.choice([1, 2])
        es = rng.choice([1, 2])
        H, W, D = rng.randrange(1, 40), rng.randrange(1, 20), rng.choice([1, 3, 8, 16, 17, 32])
        standard = rng.random() < 0.3
        hb = rng.randrange(1, H + 1)
        y0 = rng.randrange(0, H)
        y1 = rng.randrange(y0 + 1, min(H, y0 + (H if standard else hb)) + 1) if rng.random() < 0.9 else rng.randrange(y0, H + 3)
        x0 = 0 if rng.random() < 0.9 else rng.randrange(0, W)
        x1 = W if rng.random() < 0.9 else rng.randrange(x0, W + 2)
        c0 = rng.choice([0, 0, 16]) if D > 16 else 0
        sc, sr, ac, ar = real_rolling(fmt, es, [1, H, W, D], hb, standard, rng.choice([0, 64, 4096]), [0, y0, x0, c0], [1, y1, x1, D])
        scases.append(sc)
        sreal.append(sr)
        acases.append(ac)
        areal.append(ar)
    for c, m, r in zip(scases, mrun("get_strides", scases), sreal):
        ncorr["Tensor.get_strides"] += 1
        if m is not None and m != r:
            note_diff("Tensor.get_strides", c, m, r)
    tile_cases, tile_meta = [], []
    for c, m, r in zip(acases, mrun("rolling_addresses", acases), areal):
        ncorr["addresses_for_rolling_buffer"] += 1
        if m is not None and m != r:
            note_diff("Tensor.addresses_for_rolling_buffer", c, m, r)
        # oracle: every row of the box is found at base + (y mod buffer height) * stride_y (+ the column/channel offset of the box start)
        if r[0] == 1:
            fmt, base, storage, strides, s, e = c[0], c[1], c[2:6], c[6:11], c[17:21], c[21:25]
            hb = storage[1]
            if e[1] - s[1] <= hb:
                for y in range(s[1], e[1]):
                    t = y - s[1]
                    got = r[4] + t * strides[2] if t < r[1] else r[6] + (t - r[1]) * strides[2]
                    x, ch_ = s[2] % storage[2], s[3] % storage[3]
                    want = base + (y % hb) * strides[2] + x * strides[3] + ((ch_ // 16) * strides[1] + (ch_ % 16) * strides[4] if fmt == 2
                                                                            else ch_ * strides[1])
                    evals += 1
                    if got != want:
                        finding({"kind": "rolling_tile_address", "axis": "h"}, {"case": c, "row": y, "got": got, "want": want, "result": r},
                                "two-tile address of row %d differs from base + (y mod buffer_height) * stride_y" % y)
                        break
    lap('addresses')
    # ---------------------------------------------------------------- 7. the real generator: loops, partition, interleaving, rolling buffer
    gen_specs = []

    def conv_op(H, W, D, k, d, s, pad, t=0, bb=0, stripe_h=None, slices=None, woff=None, wshape=None, ofm_full=None, bt=BT_CONV, up=0,
                kw=None, dw=None):
        """kw/dw: kernel width and width dilation when they differ from the height's (k, d)"""
        kw, dw = kw or k, dw or d
        kd, kdw = d * (k - 1) + 1, dw * (kw - 1) + 1
        Ho = out_size(H, kd, s, pad, t, bb) if not up else 2 * H
        Wo = out_size(W, kdw, s, pad, 0 if kw != k else t, 0 if kw != k else bb) if not up else 2 * W
        if Ho < 1 or Wo < 1:
            return None
        _, ps = real_padding_and_skirt(PADCODE[pad], kw, k, s, s, dw, d, H, W, (t, 0 if kw != k else t, bb, 0 if kw != k else bb))
        ofm = ofm_full or [1, Ho, Wo, D]
        return dict(ifm=[1, H, W, D], ofm=ofm, k_h=k, k_w=kw, sy=s, sx=s, dil_h=d, dil_w=dw, skirt=ps[5:9], padding=ps[1:5], bt=bt,
                    stripe=[1, stripe_h or Ho, ofm[2], ofm[3]], slices=slices or [0, ofm[3]], woff=woff, wshape=wshape, roff=None, rshape=None,
                    up_mode=up, k=k, d=d, s=s, pad=pad, t=t, b=bb, Ho=Ho, Wo=Wo)

    # single operators: height stripes x depth slices, write offsets (concat)
    for H, k, s, pad in itertools.product((1, 2, 5, 9), (1, 3), (1, 2, 3), ("SAME", "VALID")):
        for sh in (1, 2, 3, 4, 100):
            for slices in ([0, 16], [0, 8, 16], [0, 5, 11, 16]):
                o = conv_op(H, 6, 16, k, 1, s, pad, stripe_h=sh, slices=slices)
                if o:
                    gen_specs.append([o])
    for H, woff, axis in itertools.product((4, 7), (0, 3), (1, 2, 3)):
        o = conv_op(H, 6, 16, 1, 1, 1, "VALID", stripe_h=2)
        full = list(o["ofm"])
        full[axis] += 5
        wo = [0, 0, 0, 0]
        wo[axis] = woff
        o2 = conv_op(H, 6, 16, 1, 1, 1, "VALID", stripe_h=2, woff=wo, wshape=list(o["ofm"]), ofm_full=full, bt=BT_POOL)
        o2["stripe"] = [1, 2, full[2], full[3]]
        o2["slices"] = [0, full[3]]
        gen_specs.append([o2])
    # two- and three-operator cascades (producer stripe = consumer stripe * stride, as propose_schedule_striping)
    casc_geo = [(10, 3, 1, 3, "SAME")] + list(itertools.product(range(4, 14 if tier == "quick" else 22), (1, 2, 3, 5), (1, 2), (1, 2, 3), ("SAME", "VALID")))
    for _ in range(40 if tier == "quick" else 1500):
        casc_geo.append((rng.randrange(14, 120), rng.choice([1, 2, 3, 4, 5, 7]), rng.choice([1, 1, 2]), rng.choice([1, 2, 3]), rng.choice(["SAME", "VALID"])))
    # height and width of the kernel / of the dilation differ (the height values must be the ones that reach pad_top/pad_bottom)
    asym = [(H, k, d, s, pad, kw, dw) for H in ((7, 12) if tier == "quick" else (7, 9, 12, 20)) for (k, kw) in ((3, 3), (3, 1), (2, 5), (5, 3))
            for (d, dw) in ((2, 1), (1, 2), (2, 2)) for s in (1, 2) for pad in ("SAME", "VALID") if not (k == kw and d == dw)]
    for (H, k, d, s, pad, kw, dw) in asym:
        for sh in (1, 2, 3, 100):
            o = conv_op(H, 12, 16, k, d, s, pad, stripe_h=sh, kw=kw, dw=dw)
            if o:
                gen_specs.append([o])
    casc_geo = [g + (None, None) for g in casc_geo] + asym
    for (H, k, d, s, pad, kw, dw) in casc_geo:
        cons = conv_op(H, 6 if kw is None else 12, 16, k, d, s, pad, kw=kw, dw=dw)
        if not cons or cons["Ho"] < 2:
            continue
        hcs = range(1, cons["Ho"]) if H <= 10 else sorted({1, 2, rng.randrange(1, cons["Ho"])})
        for hc in hcs:
            for even in (False, True):
                hp = hc * s
                if even:
                    hp += hp % 2
                    if hp == hc * s:
                        continue
                prod = conv_op(H, 6 if kw is None else 12, 16, 3, 1, 1, "SAME", stripe_h=hp, slices=[0, 8, 16] if (H + hc) % 3 == 0 else None)
                c2 = dict(cons, stripe=[1, hc, cons["ofm"][2], cons["ofm"][3]])
                if prod["stripe"][1] >= H:
                    continue
                spec = [prod, c2]
                if (H + k + hc) % 4 == 0 and H <= 16:
                    head = conv_op(H, 6 if kw is None else 12, 16, 3, 1, 1, "SAME", stripe_h=hp)
                    spec = [head] + spec
                gen_specs.append(spec)
    gen_diffs = 0
    overruns = 0
    tail_gaps = 0
    gen_exceptions = []
    gen_model = model_generator_batch(gen_specs) if okx else [None] * len(gen_specs)
    gen_real = [run_real_generator(spec) for spec in gen_specs]
    for spec, real, mod in zip(gen_specs, gen_real, gen_model):
        ncorr["generate_high_level_commands_for_sched_op"] += 1
        if okx:
            if mod != real and "generator" not in diffs:
                gen_diffs += 1
                note_diff("generator", {"ops": [{k_: v_ for k_, v_ in o.items() if k_ not in ("padding",)} for o in spec]},
                          mod if mod == ("assert",) else [list(x) for x in mod][:12],
                          ("real generator raised " + real[1]) if (real and real[0] == "exception") else
                          real if real == ("assert",) else [list(x) for x in real][:12])
        if real and real[0] == "exception":
            gen_exceptions.append(real[1])
            note_diff("generator", {"ops": [{k_: v_ for k_, v_ in o.items() if k_ not in ("padding",)} for o in spec]},
                      "model: %d commands" % (len(mod) if mod else 0), "real generator raised " + real[1])
            continue
        if real == ("assert",):
            finding({"kind": "generator_assertion"}, {"ops": spec}, "the generator raises on a valid schedule")
            continue
        # oracle 1: the boxes of every operator partition its output region
        for oi, o in enumerate(spec):
            boxes = [(c[1], c[2]) for c in real if c[0] == oi]
            lo = list(o["woff"]) if o["woff"] else [0, 0, 0, 0]
            hi = [a + b_ for a, b_ in zip(o["woff"], o["wshape"])] if o["woff"] else list(o["ofm"])
            evals += 1
            nontrivial.add(("partition", len(boxes), o["stripe"][1], len(o["slices"])))
            if oi + 1 < len(spec) and boxes:
                # a cascaded producer is driven by its consumer: trailing rows that no consumer stripe requires are never
                # produced (nobody can observe them); everything up to the last produced row must still be an exact partition
                top_row = max(e_[1] for _, e_ in boxes)
                need = max([c[4][1] for c in real if c[0] == oi + 1] or [0])
                if top_row < hi[1]:
                    tail_gaps += 1
                    if need > top_row:
                        finding({"kind": "producer_rows_missing"}, {"op": o, "produced_rows": top_row, "consumer_needs_rows": need},
                                "cascaded producer stops at row %d but its consumer reads up to row %d" % (top_row, need))
                    hi = [hi[0], top_row, hi[2], hi[3]]
            why = partition_error(boxes, lo, hi)
            if why:
                finding({"kind": "ofm_not_partitioned"}, {"op": o, "boxes": boxes}, "OFM boxes of an operator do not partition its output: " + why)
        # oracle 1b: every stripe the generator emitted is tap-equal to its operator
        for c in real:
            o = spec[c[0]]
            st, en = c[1][1], c[2][1]
            w0 = o["woff"][1] if o["woff"] else 0
            ho = o["wshape"][1] if o["woff"] else o["ofm"][1]
            pr = real_create_padding([0, 0] + list(o["padding"]) + [1 if st == w0 else 0, 1 if en >= w0 + ho else 0, c[5], c[6], 0, 0, 0,
                                                                    o["ifm"][2], c[3][2], c[4][2]])
            mm = stripe_tap_mismatch(c[3][1], c[4][1], pr[0], pr[2], st, en, o["sy"], o["k_h"], o["dil_h"], 0, o["ifm"][1], o["padding"][0], w0)
            evals += 1
            if mm:
                finding({"kind": "tap_mismatch", "axis": "h", "stride": o["sy"]},
                        dict(H=o["ifm"][1], kernel=o["k_h"], dilation=o["dil_h"], stride=o["sy"], padding=o["pad"], ofm_rows=[st, en],
                             ifm_box=[c[3][1], c[4][1]], hw_pad_top=pr[0], hw_pad_bottom=pr[2], ofm_row=mm[0], tap=mm[1],
                             hardware_reads=mm[2], operator_reads=mm[3], via="generate_high_level_commands_for_sched_op"),
                        "generator stripe rows [%d,%d) of H=%d k=%d s=%d d=%d %s: hardware reads %s, operator reads %s" % (
                            st, en, o["ifm"][1], o["k_h"], o["sy"], o["dil_h"], o["pad"], mm[2], mm[3]))
        # oracle 2: rolling buffers of the cascade (rows tracked per slot)
        for oi in range(1, len(spec)):
            cons, prod = spec[oi], spec[oi - 1]
            hin = min(real_ifm_area([cons["stripe"][1], cons["stripe"][2], cons["sy"], cons["sx"], cons["k_h"], cons["k_w"], cons["dil_h"],
                                     cons["dil_h"], 0])[1][1], cons["ifm"][1])
            hb = real_rb_shape([prod["stripe"][1], prod["stripe"][2], prod["stripe"][3], hin, cons["ifm"][2], real_stripe_ifm_rows(cons, hin)])[1]
            mem = {}
            lost = None
            for c in real:
                if c[0] == oi - 1:
                    for y in range(c[1][1], c[2][1]):
                        mem[y % hb] = y
                elif c[0] == oi and lost is None:
                    st, en = c[1][1], c[2][1]
                    first, last = st == 0, en >= cons["ofm"][1]
                    pt, pb_ = (cons["padding"][0], cons["padding"][2]) if (first and last) else (c[5], c[6])
                    kd = cons["dil_h"] * (cons["k_h"] - 1) + 1
                    for r_ in range(st, en):
                        for ky in range(cons["k_h"]):
                            y = hw_tap(c[3][1], c[4][1], pt, pb_, en - st, cons["sy"], kd, r_ - st, ky * cons["dil_h"])
                            if isinstance(y, int) and mem.get(y % hb) != y and lost is None:
                                lost = dict(consumer_ofm_rows=[st, en], ifm_box_rows=[c[3][1], c[4][1]], ofm_row=r_, tap=ky, needs_row=y,
                                            slot=y % hb, slot_holds_row=mem.get(y % hb))
            evals += 1
            nontrivial.add(("cascade", cons["s"], cons["k"], cons["d"], cons["pad"], cons["stripe"][1], prod["stripe"][1], hb))
            if lost:
                overruns += 1
                finding({"kind": "rolling_buffer_overrun", "consumer_stride_y": cons["sy"]},
                        dict(lost, ifm_height=cons["ifm"][1], kernel=cons["k"], dilation=cons["d"], stride=cons["s"], padding=cons["pad"],
                             consumer_stripe_height=cons["stripe"][1], producer_stripe_height=prod["stripe"][1], stripe_input_height=hin,
                             rolling_buffer_height=hb),
                        "rolling buffer of %d rows (producer stripe %d, stripe_input %d) between cascaded operators: consumer stripe rows %r needs "
                        "IFM row %d but its slot holds %s (H=%d k=%d s=%d %s)" % (
                            hb, prod["stripe"][1], hin, lost["consumer_ofm_rows"], lost["needs_row"],
                            "nothing (the row was never produced)" if lost["slot_holds_row"] is None else "row %d already" % lost["slot_holds_row"], cons["ifm"][1],
                            cons["k"], cons["s"], cons["pad"]))
    # the rolling buffer machine of the model against the same simulation (correspondence of cascade_events/run_events)
    ccases, cmeta = [], []
    for spec in gen_specs:
        if len(spec) == 2 and len(spec[0]["slices"]) == 2:
            cons, prod = spec[1], spec[0]
            ccases.append([cons["ifm"][1], cons["ofm"][1], cons["k"], cons["d"], cons["s"], cons["padding"][0], cons["padding"][2],
                           cons["skirt"][0], cons["skirt"][2], cons["stripe"][1], prod["stripe"][1]])
            cmeta.append(spec)
    real_of = {id(sp): rl for sp, rl in zip(gen_specs, gen_real)}
    for c, m, spec in zip(ccases, mrun("cascade", ccases), cmeta):
        if m is None:
            continue
        cons, prod = spec[1], spec[0]
        hin = min(real_ifm_area([cons["stripe"][1], 1, cons["sy"], 1, cons["k_h"], 1, cons["dil_h"], 1, 0])[1][1], cons["ifm"][1])
        rows = real_stripe_ifm_rows(cons, hin)
        hb = real_rb_shape([prod["stripe"][1], 1, 1, hin, 1, rows])[1]
        real = real_of[id(spec)]
        if real and real[0] in ("exception", "assert"):
            continue
        ncorr["cascade state machine"] += 1
        ok_real = True
        mem = {}
        for cc in real:
            if cc[0] == 0:
                for y in range(cc[1][1], cc[2][1]):
                    mem[y % hb] = y
            else:
                ok_real = ok_real and all(mem.get(y % hb) == y for y in range(cc[3][1], cc[4][1]))
        if m[:4] != [hin, rows, hb, 1 if ok_real else 0] or m[4] != len(real):
            note_diff("cascade_events/run_events/stripe_ifm_rows", c, m, [hin, rows, hb, 1 if ok_real else 0, len(real)])

    lap('generator')
    # ---------------------------------------------------------------- 8. D2: stripe groups of every captured stream
    import compiles
    d2 = compiles.run_all(c10_corpus_jobs() + compiles.corpus_jobs() + split_conv_jobs(tier) + slice_conv_jobs(tier) + upscale_jobs(tier) + extra_family_jobs(tier) +
                          compiles.plan(FAMS, 64 if tier == "quick" else 1600, vlib.seed(), tag="d2", capture=True))
    programs = passes_checked = stripes_checked = rolling_checked = channels_checked = 0
    vcases, vwant = [], []
    outside = collections.Counter()
    d2_samples = []
    for r in d2:
        if r["status"] != "ok":
            continue
        cp = os.path.join(r["job"]["out_dir"], "capture.json")
        if not os.path.exists(cp):
            continue
        cap = json.load(open(cp))
        for k, stream in enumerate(cap["streams"]):
            programs += 1
            groups = collections.OrderedDict()
            for op in stream["ops"]:
                cmd = op.get("cmd")
                if cmd and cmd.get("kind") == "stripe":
                    # one group = the stripes of ONE pass.  Pass names are not unique (ethosu/vela/lstm.py names the operators of
                    # every unrolled step "output_gate#b.t_add" ... without the LSTM's own name, so two LSTM layers yield equal
                    # pass names): the group key also carries the identity of the OFM tensor the pass writes (equivalence id,
                    # address) and its write offset, which all stripes of one pass share
                    ofm_ = cmd.get("ofm") or {}
                    gkey = (cmd["pass"], ofm_.get("eq_id"), ofm_.get("address"), tuple(cmd.get("write_offset") or ()))
                    groups.setdefault(gkey, []).append(op)
            mem = {}
            rolling_sizes = {}
            # oracle per pass: partition + tap equality
            for gkey, ops in groups.items():
                pname = gkey[0]
                cmd0 = ops[0]["cmd"]
                if "read_shapes" not in cmd0:
                    outside["capture without C10 fields"] += 1
                    continue
                ofm_shape = cmd0["ofm_shapes"][0]
                if cmd0["write_offset"] is not None and cmd0.get("write_shape"):
                    lo = list(cmd0["write_offset"])
                    hi = [a + b_ for a, b_ in zip(lo, cmd0["write_shape"])]
                else:
                    lo, hi = [0, 0, 0, 0], list(ofm_shape)
                boxes = [(o["cmd"]["ofm_box"]["start"], o["cmd"]["ofm_box"]["end"]) for o in ops]
                if any(len(s_) != 4 for s_, _ in boxes):
                    outside["ofm box not 4-D"] += 1
                    continue
                passes_checked += 1
                evals += 1
                why = partition_error(boxes, lo, hi)
                top_row = max(e_[1] for _, e_ in boxes)
                if why and top_row < hi[1] and lo[1] < top_row:
                    # cascaded producer driven by its consumer (see above): allowed when every reader in the stream stays below
                    readers = [o2["cmd"]["ifm_box"]["end"][1] for o2 in stream["ops"] if (o2.get("cmd") or {}).get("kind") == "stripe"
                               and (o2["cmd"].get("ifm") or {}).get("name") == cmd0["ofm"]["name"] and len(o2["cmd"]["ifm_box"]["end"]) == 4]
                    if readers and max(readers) <= top_row:
                        tail_gaps += 1
                        why = partition_error(boxes, lo, [hi[0], top_row, hi[2], hi[3]])
                if why:
                    finding({"kind": "ofm_not_partitioned", "axis": "d2"},
                            {"net": r.get("net_name"), "seed": r["job"]["seed"], "args": r["job"]["args"], "pass": pname, "boxes": boxes[:40],
                             "region": [lo, hi]}, "compiled network %s pass %s: %s" % (r.get("net_name"), pname, why))
                if len(ops) > 1 and len(d2_samples) < 3:
                    d2_samples.append({"net": r.get("net_name"), "pass": pname, "stripes": len(ops), "first_ofm_boxes": boxes[:3]})
                if len(ops) > 1:
                    nontrivial.add(("d2", r.get("net_name"), r["job"]["seed"], pname))
            # tap equality + rolling buffers, in stream order
            for op in stream["ops"]:
                cmd = op.get("cmd")
                if not cmd or cmd.get("kind") != "stripe" or "read_shapes" not in cmd:
                    continue
                api = op["api"]
                ofm_t, ifm_t = cmd["ofm"], cmd["ifm"]
                ob = cmd["ofm_box"]
                kern, pad = api.get("kernel"), api.get("padding")
                chk = None
                # the channel axis of every stripe / depth slice
                bt_ = cmd["block_type"]
                if len(cmd["ifm_box"]["start"]) == 4 and len(ob["start"]) == 4 and cmd["ifm_shapes"] and \
                        bt_ in ("ConvolutionMxN", "VectorProduct", "ReduceSum", "ConvolutionDepthWise", "Pooling"):
                    dot = bt_ in ("ConvolutionMxN", "VectorProduct", "ReduceSum")
                    roff_, rshape_ = cmd["read_offsets"][0], cmd["read_shapes"][0]
                    woff_ = cmd["write_offset"] or [0, 0, 0, 0]
                    ifm_d = cmd["ifm_shapes"][0][3]
                    oshape_d = (cmd.get("write_shape") or cmd["ofm_shapes"][0])[3]
                    rd_ = rshape_[3] if (roff_ and rshape_) else None
                    if dot or oshape_d == (rd_ if rd_ is not None else ifm_d):     # channel-wise operators: same depth in and out
                        want = expected_ifm_channels(dot, ob["start"][3], ob["end"][3], woff_[3], roff_[3] if roff_ else 0, rd_, ifm_d)
                        got = (cmd["ifm_box"]["start"][3], cmd["ifm_box"]["end"][3])
                        channels_checked += 1
                        evals += 1
                        if got != want:
                            finding({"kind": "ifm_channel_range"},
                                    {"net": r.get("net_name"), "seed": r["job"]["seed"], "args": r["job"]["args"], "pass": cmd["pass"],
                                     "block_type": bt_, "ofm_box": ob, "ifm_box": cmd["ifm_box"], "read_offset": roff_, "read_shape": rshape_,
                                     "write_offset": cmd["write_offset"], "ifm_shape": cmd["ifm_shapes"][0],
                                     "ifm_channels_handed": list(got), "ifm_channels_needed": list(want)},
                                    "compiled network %s pass %s (%s): depth slice OFM channels [%d,%d) is handed IFM channels [%d,%d), the operator "
                                    "needs [%d,%d) (read offset %r, read shape %r)" % (r.get("net_name"), cmd["pass"], bt_, ob["start"][3], ob["end"][3],
                                                                                      got[0], got[1], want[0], want[1], roff_, rshape_))
                if (cmd["block_type"] in ("ConvolutionMxN", "ConvolutionDepthWise", "Pooling") and kern and pad and len(cmd["ifm_box"]["start"]) == 4
                        and cmd.get("padding_type") != "TILE"):
                    rmode = {"NONE": 0, "NEAREST": 1, "TRANSPOSE": 2}[api["ifm_upscale"]]
                    ifm_shape = cmd["ifm_shapes"][0]
                    roff, rshape = cmd["read_offsets"][0], cmd["read_shapes"][0]
                    woff = cmd["write_offset"] or [0, 0, 0, 0]
                    opad = cmd["op_padding"] or [0, 0, 0, 0]
                    stripes_checked += 1
                    evals += 1
                    for axis, (ai, kk, ss_, dd, p0, p1, top) in (("h", (1, kern["height"], kern["stride_y"], kern["dilation_y"], pad["top"], pad["bottom"], opad[0])),
                                                                  ("w", (2, kern["width"], kern["stride_x"], kern["dilation_x"], pad["left"], pad["right"], opad[1]))):
                        lo_ = roff[ai] if roff else 0
                        hi_ = lo_ + (rshape[ai] if (roff and rshape) else ifm_shape[ai])
                        # rmode 2 (transposed convolution): hardware and operator walk the same zero-inserted x2 grid (data on the
                        # even positions), so what is decided is the geometry: the rows/columns of the grid that the operator reads
                        # must lie in the IFM box handed to the hardware, padding must agree (the weight flip is C01's concern)
                        mm = stripe_tap_mismatch(cmd["ifm_box"]["start"][ai], cmd["ifm_box"]["end"][ai], p0, p1, ob["start"][ai], ob["end"][ai], ss_, kk, dd,
                                                 lo_, hi_, top, woff[ai], rmode)
                        if rmode == 0:    # the proved validator (check_stripes_sound) on the same stripe
                            vcases.append([cmd["ifm_box"]["start"][ai], cmd["ifm_box"]["end"][ai], p0, p1, ob["end"][ai] - ob["start"][ai], ss_,
                                           dd * (kk - 1) + 1, dd, kk, lo_, hi_, top, ob["start"][ai] - woff[ai]])
                            vwant.append(mm is None)
                        if mm:
                            kind = ("read_offset_height" if (roff and roff[1] and axis == "h" and (ss_ > 1 or opad[0] + opad[2] > 0)) else
                                    "read_offset_width_strided" if (roff and roff[2] and axis == "w" and ss_ > 1) else "tap_mismatch")
                            whole = axis == "w" or (cmd.get("is_first_h_stripe") and cmd.get("is_last_h_stripe"))
                            if kind == "tap_mismatch" and cmd.get("padding_type") == "EXPLICIT" and mm[2] == "OOB" and mm[3] == "P":
                                oext = (cmd.get("write_shape") or cmd["ofm_shapes"][0])[ai]
                                if oext > ifm_shape[ai] and not whole:
                                    kind = "explicit_pad_ofm_taller_than_ifm_last_stripe"
                                elif whole and kk < ss_:
                                    kind = "explicit_bottom_padding_lost"
                            finding(dict({"kind": kind}, **({"axis": axis, "stride": ss_} if kind == "tap_mismatch" else {})),
                                    {"net": r.get("net_name"), "seed": r["job"]["seed"], "args": r["job"]["args"], "pass": cmd["pass"],
                                     "ofm_box": ob, "ifm_box": cmd["ifm_box"], "hw_padding": pad, "kernel": kern, "op_padding": opad,
                                     "read_offset": roff, "read_shape": rshape, "ofm_index": mm[0], "tap": mm[1], "hardware_reads": mm[2],
                                     "operator_reads": mm[3]},
                                    "compiled network %s pass %s axis %s%s: stripe OFM [%d,%d) with IFM box [%d,%d), padding %d/%d: output %d tap %d makes the "
                                    "hardware read %s, the operator reads %s" % (
                                        r.get("net_name"), cmd["pass"], axis, " (x2 %s upscaling)" % api["ifm_upscale"].lower() if rmode else "",
                                        ob["start"][ai], ob["end"][ai], cmd["ifm_box"]["start"][ai], cmd["ifm_box"]["end"][ai], p0, p1, mm[0], mm[1], mm[2], mm[3]))
                    chk = (kern, pad)
                # rolling buffers: rows held per slot of every tensor stored in fewer rows than its shape
                if ifm_t and len(ifm_t["storage_shape"]) == 4 and len(cmd["ifm_box"]["start"]) == 4 and cmd["ifm_shapes"] and \
                        ifm_t["storage_shape"][1] < cmd["ifm_shapes"][0][1] and ifm_t["name"] in mem and chk:
                    kern, pad = chk
                    hb = ifm_t["storage_shape"][1]
                    rolling_checked += 1
                    kd = kern["dilation_y"] * (kern["height"] - 1) + 1
                    rmode = {"NONE": 0, "NEAREST": 1, "TRANSPOSE": 2}[api["ifm_upscale"]]
                    lost = None
                    for r_ in range(ob["start"][1], ob["end"][1]):
                        for ky in range(kern["height"]):
                            y = hw_tap(cmd["ifm_box"]["start"][1], cmd["ifm_box"]["end"][1], pad["top"], pad["bottom"], ob["end"][1] - ob["start"][1],
                                       kern["stride_y"], kd, r_ - ob["start"][1], ky * kern["dilation_y"], rmode)
                            if isinstance(y, int) and mem[ifm_t["name"]].get(y % hb) != y and lost is None:
                                lost = (r_, ky, y, mem[ifm_t["name"]].get(y % hb))
                    if lost:
                        finding({"kind": "rolling_buffer_overrun", "consumer_stride_y": kern["stride_y"]},
                                {"net": r.get("net_name"), "seed": r["job"]["seed"], "args": r["job"]["args"], "pass": cmd["pass"], "ofm_box": ob,
                                 "ifm_box": cmd["ifm_box"], "rolling_buffer_height": hb, "ofm_row": lost[0], "tap": lost[1], "needs_row": lost[2],
                                 "slot_holds_row": lost[3]},
                                "compiled network %s pass %s: rolling buffer of %d rows: row %d needed by OFM row %d was overwritten by row %r" % (
                                    r.get("net_name"), cmd["pass"], hb, lost[2], lost[0], lost[3]))
                if ofm_t and len(ofm_t["storage_shape"]) == 4 and len(ob["start"]) == 4 and ofm_t["storage_shape"][1] < cmd["ofm_shapes"][0][1]:
                    m_ = mem.setdefault(ofm_t["name"], {})
                    hb = ofm_t["storage_shape"][1]
                    for y in range(ob["start"][1], ob["end"][1]):
                        m_[y % hb] = y

    validator_disagreements = 0
    for c, m, w in zip(vcases, mrun("check_taps", vcases), vwant):
        if m is not None and (m[0] == 1) != w:
            validator_disagreements += 1
            note_diff("check_stripe_taps (extracted validator) vs the Python oracle", c, m, [1 if w else 0])
    lap('d2')
    res.cov.update({
        "stripe_axes_validated_by_extracted_checker": len(vcases), "validator_vs_oracle_disagreements": validator_disagreements,
        "section_seconds": dict(tsec),
        "evaluations": evals, "distinct_nontrivial": len(nontrivial),
        "rule": "oracle evaluations on results of the real functions: one per (operator geometry, stripe) for tap equality (all rows x taps "
                "brute force), per operator for the OFM partition, per cascade pair for the rolling buffer, per captured stripe / pass for D2; "
                "non-trivial = distinct (extent<=40, kernel, dilation, stride, padding, stripe height, first/last) classes, cascades and "
                "compiled passes executed as more than one stripe",
        "correspondence_cases": dict(ncorr), "model_vs_impl_differences": {k_: v_ for k_, v_ in diffs.items()},
        "samples": samples + d2_samples,
        "programs": programs, "passes_checked": passes_checked, "stripes_checked": stripes_checked, "stripe_channel_ranges_checked": channels_checked, "rolling_buffer_reads_checked": rolling_checked,
        "generator_schedules": len(gen_specs), "real_generator_exceptions": gen_exceptions[:3], "cascades_with_overrun": overruns,
        "cascaded_producers_with_unread_tail_rows_not_produced": tail_gaps, "outside_model": dict(outside),
        "disagreements_checked": len(findings), "oracle_rejections_by_kind": dict(seen_kinds),
        "input_distribution": {"extents": "exhaustive 1..%d, random to 300" % (10 if tier == "quick" else 12), "kernel": "1..4 exhaustive, to 8 random",
                               "stride": "1..3", "dilation": "1..2", "padding": "SAME, VALID, EXPLICIT (pads <= k_dilated//2)",
                               "stripe heights": "1..OFM height (all for OFM <= 12)", "write offsets": "0, 3 (height); 0, 2 (width)",
                               "read offsets": "0, 1, 3 (height and width windows)", "upscaling": "1, 2 (nearest: oracle; transform: correspondence)",
                               "malformed": "negative skirts, empty stripes, upscaling 0, inverted windows (correspondence only)"},
    })
    res.assumptions += ["hardware tap semantics as in coq/model/Stripe.v (hw_tap)", "sampled compilations for the D2 part",
                        "TFLite output-size formulas define the un-striped operator's output extent"]

    reported = False
    for kt, (key, detail, what, _prio) in findings.items():
        full_key = dict(key)
        for f in ("H", "kernel", "stride", "padding", "stripe_height", "net", "seed", "extent", "read_offset"):
            if f in detail and f not in full_key:
                full_key[f] = detail[f]
        if kt in compiled_wit and compiled_wit[kt] is not detail:
            detail = dict(detail, also_seen_in_a_real_compilation=compiled_wit[kt])
        if res.violation(full_key, detail, "C10: " + what):
            reported = True      # a failing input that is not a recorded known finding
    if not b["ok"] and not reported:
        vlib.report_broken_build(res, b, None)
    if diffs or not okx:
        name = next(iter(diffs)) if diffs else "extraction"
        if diffs and isinstance(diffs[name].get("impl"), str):
            name += " (%s)" % diffs[name]["impl"][:220]
        res.violation({"correspondence": name.split(" (")[0]}, {"first_differences": diffs, "extraction_ok": okx, "log": xlog[-600:] if not okx else ""},
                      "correspondence of the Stripe model with %s no longer holds" % name, no_input=not reported)
    return res.finish()
