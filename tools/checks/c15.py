"""C15 -- every block configuration used or offered is valid for the hardware.

Proof (coq/props/C15.v) + ties:
  T  _try_block_config, _ifm_blockdepth, _required_size, _get_ifm_blocksize are re-translated from the source on
     every run (gen/GenBlockCfg.v, lemmas gen_*_eq); the six accelerator rows are re-introspected (gen/GenArchTables.v)
  H  correspondence of the extracted model with the real _try_block_config / helpers / find_block_config /
     try_block_config on generated inputs
  oracle: an independent Python statement of the property evaluated on api.npu_find_block_configs and on the registers
     decoded from api.npu_generate_register_command_stream for every offered configuration, plus the proved validator
     check_blockcfg (extracted) on the same registers.
  D2 the same oracle and validator on the block / SHRAM registers of every operation of the command streams of the
     tier's real compilations (plan and cache shared with C02/C03; operations as captured by tools/wrap.py).
"""
import random
import time
from concurrent.futures import ThreadPoolExecutor

import vlib
import models

EXE = "blockCfg"

# ---------------------------------------------------------------------------------------------------------------------
# Hardware facts (Ethos-U55/U65 SHRAM organisation), written down independently of the tree under test:
# micro-block (w, h, d), SHRAM banks usable, banks reserved at the end (LUT lives in the last two banks), bank size,
# bank granules of IFM (8/16/32 bit; same for elementwise) and accumulators (32/40 bit), largest OFM block (w, h, d).
HW = {
    "ethos-u55-32": dict(ublock=(1, 1, 4), banks=16, end=0, ifm={8: 2, 16: 2, 32: 4}, acc={32: 4, 40: 4}),
    "ethos-u55-64": dict(ublock=(1, 1, 8), banks=16, end=0, ifm={8: 2, 16: 2, 32: 4}, acc={32: 4, 40: 8}),
    "ethos-u55-128": dict(ublock=(2, 1, 8), banks=24, end=2, ifm={8: 4, 16: 4, 32: 8}, acc={32: 8, 40: 12}),
    "ethos-u55-256": dict(ublock=(2, 2, 8), banks=48, end=2, ifm={8: 8, 16: 8, 32: 16}, acc={32: 16, 40: 20}),
    "ethos-u65-256": dict(ublock=(2, 2, 8), banks=48, end=2, ifm={8: 8, 16: 8, 32: 16}, acc={32: 16, 40: 20}),
    "ethos-u65-512": dict(ublock=(2, 2, 8), banks=48, end=2, ifm={8: 8, 16: 8, 32: 16}, acc={32: 16, 40: 20}),
}
BANK = 1024
RESERVED_OFM_BANKS = 2
BLOCK_MAX = (64, 32, 128)  # w, h, d
SUBKERNEL_MAX = 8
ACC_FORMAT_BITS = {0: 32, 1: 40, 2: 16}  # ACC_FORMAT register: INT_32BIT, INT_40BIT, FP_S5_10


def rup(a, b):
    return -(-a // b) * b


def cdiv(a, b):
    return -(-a // b)


# ---------------------------------------------------------------------------------------------------------------------
# Operation descriptors (plain dicts) -> API objects
KINDS = ["conv", "depthwise", "maxpool", "avgpool", "reduce_sum", "ew_add", "ew_mul", "ew_min", "ew_abs", "ew_lrelu"]
EQUAL_DEPTH = {"depthwise", "maxpool", "avgpool", "ew_add", "ew_mul", "ew_min", "ew_abs", "ew_lrelu"}


def is_ew(d):
    return d["kind"].startswith("ew_")


def is_unary(d):
    return d["kind"] in ("ew_abs", "ew_lrelu", "ew_clz")


def ifm_dims(d):
    """IFM h, w consistent with OFM, kernel, stride, dilation, upscale (valid padding; what is left is padded)"""
    oh, ow, _ = d["ofm"]
    if d.get("ifm_hw"):
        return tuple(d["ifm_hw"])
    if is_ew(d):
        return oh, ow
    kw, kh, sx, sy, dx, dy = d["kernel"]
    ih = (oh - 1) * sy + (kh - 1) * dy + 1
    iw = (ow - 1) * sx + (kw - 1) * dx + 1
    if d["upscale"] != "NONE":
        ih, iw = max(1, cdiv(ih, 2)), max(1, cdiv(iw, 2))
    return ih, iw


def build_op(d):
    from ethosu.vela import api
    dt = {8: api.NpuDataType.INT8, 16: api.NpuDataType.INT16, 32: api.NpuDataType.INT32}[d["bits"]]
    if d["bits"] == 8 and d.get("unsigned"):
        dt = api.NpuDataType.UINT8
    quant = {"scale": api.NpuQuantization(scale_f32=0.5, zero_point=0), "none": None,
             "scale_none": api.NpuQuantization(scale_f32=None, zero_point=0)}[d["quant"]]

    def fm(h, w, c, addr, dtype=dt):
        f = api.NpuFeatureMap()
        f.data_type = dtype
        f.shape = api.NpuShape3D(height=h, width=w, depth=c)
        f.tiles = api.NpuTileBox(width_0=w, height_0=h, height_1=h, addresses=[addr, 0, 0, 0])
        f.region = 1
        f.layout = api.NpuLayout.NHWC
        f.quantization = quant
        return f

    oh, ow, od = d["ofm"]
    ih, iw = ifm_dims(d)
    k = d["kind"]
    if k == "conv":
        op = api.NpuConv2DOperation()
        op.block_traversal = api.NpuBlockTraversal.PART_KERNEL_FIRST if d["partkernel"] else api.NpuBlockTraversal.DEPTH_FIRST
    elif k == "depthwise":
        op = api.NpuConvDepthWiseOperation()
    elif k in ("maxpool", "avgpool", "reduce_sum"):
        op = api.NpuPoolingOperation({"maxpool": api.NpuPoolingOp.MAX, "avgpool": api.NpuPoolingOp.AVERAGE,
                                      "reduce_sum": api.NpuPoolingOp.REDUCE_SUM}[k])
    else:
        op = api.NpuElementWiseOperation({"ew_add": api.NpuElementWiseOp.ADD, "ew_mul": api.NpuElementWiseOp.MUL,
                                          "ew_min": api.NpuElementWiseOp.MIN, "ew_abs": api.NpuElementWiseOp.ABS,
                                          "ew_lrelu": api.NpuElementWiseOp.LRELU}[k])
    op.ifm = fm(ih, iw, d["ifm_depth"], 0x100000)
    odt = dt
    if k == "reduce_sum":
        odt = api.NpuDataType.INT32
    op.ofm = fm(oh, ow, od, 0x800000, odt)
    if is_ew(d):
        if not is_unary(d):
            if d["ifm2"] == "scalar":
                op.ifm2 = fm(1, 1, 1, 0x400000)
                # boundary-biased scalar values: 0 and 0.0 are legal scalars (and falsy in Python)
                op.ifm2_scalar = (0, 3, 0.0, 1.5, -1)[(oh * 7 + ow * 3 + od) % 5]
            else:
                h2, w2, c2 = d["ifm2"]
                op.ifm2 = fm(h2, w2, c2, 0x400000)
    else:
        kw, kh, sx, sy, dx, dy = d["kernel"]
        op.kernel = api.NpuKernel(kw, kh, sx, sy, dx, dy)
        op.padding = api.NpuPadding(top=0, left=0, bottom=0, right=0)
        if k in ("conv", "depthwise"):
            op.weights = [api.NpuAddressRange(region=0, address=0, length=4096)]
            op.biases = [api.NpuAddressRange(region=0, address=32000, length=160)]
    if d["lut"]:
        op.activation = api.NpuActivation(api.NpuActivationOp.TABLE_LOOKUP)
        op.activation.lookup_table_index = 0
    elif d.get("relu"):
        op.activation = api.NpuActivation(api.NpuActivationOp.NONE_OR_RELU)
        op.activation.min = 0
    op.ifm_upscale = {"NONE": api.NpuResamplingMode.NONE, "NEAREST": api.NpuResamplingMode.NEAREST,
                      "TRANSPOSE": api.NpuResamplingMode.TRANSPOSE}[d["upscale"]]
    return op


# ---------------------------------------------------------------------------------------------------------------------
# The property, stated independently of architecture_allocator.py
def requirement(d, acc_name, blk, acc_bits):
    """(ifm banks, ifm2 banks, accumulator banks, first bank of LUT/reserved area) needed to double-buffer OFM block
    blk = (h, w, c) of operation d on accelerator acc_name"""
    hw = HW[acc_name]
    bh, bw, bc = blk
    uw, uh, _ud = hw["ublock"]
    oh = d["ofm"][0]
    if is_ew(d):
        kw = kh = sx = sy = dx = dy = 1
    else:
        kw, kh, sx, sy, dx, dy = d["kernel"]
    up = 1 if d["upscale"] == "NONE" else 2
    near = 1 if d["upscale"] == "NEAREST" else 0
    need_h = cdiv((bh - 1) * sy + min((kh - 1) * dy + 1, SUBKERNEL_MAX) + near, up)
    need_w = cdiv((bw - 1) * sx + min((kw - 1) * dx + 1, SUBKERNEL_MAX) + near, up)
    ifm_h, ifm_w = rup(need_h, uh), rup(need_w, uw)
    if d["kind"] in EQUAL_DEPTH or is_ew(d):
        ifm_c = bc
    else:
        depth = d["ifm_depth"]
        if d["bits"] == 16:
            ifm_c = rup(min(depth, 16), 4)
        else:
            ifm_c = rup(min(depth, 16 if d.get("partkernel") and d["kind"] == "conv" else 32), 8)
    ifm_bytes = ifm_h * ifm_w * rup(ifm_c * d["bits"] // 8, 8)
    gran = hw["ifm"][d["bits"]]
    ifm_banks = rup(2 * cdiv(ifm_bytes, BANK), gran)
    lut_first = hw["banks"] - max(2 if d["lut"] else 0, hw["end"])
    if is_ew(d):
        full = (not is_unary(d)) and d["ifm2"] not in (None, "scalar")
        return ifm_banks, (ifm_banks if full else 0), 0, lut_first
    # 256/512 MAC engines compute a 1-row OFM with a 1-row kernel in half micro-blocks: accumulators for one row
    acc_h = 1 if (oh == 1 and kh == 1 and uh == 2) else bh
    acc_bytes = acc_h * bw * rup(bc, 8) * acc_bits // 8
    acc_banks = rup(2 * cdiv(acc_bytes, BANK), hw["acc"][acc_bits])
    return ifm_banks, 0, acc_banks, lut_first


def block_shape_ok(acc_name, blk):
    hw = HW[acc_name]
    bh, bw, bc = blk
    uw, uh, ud = hw["ublock"]
    for v, u, m, n in ((bh, uh, BLOCK_MAX[1], "height"), (bw, uw, BLOCK_MAX[0], "width"), (bc, ud, BLOCK_MAX[2], "depth")):
        if v <= 0 or v % u:
            return "block %s %d is not a positive multiple of the micro-block %d" % (n, v, u)
        if v > m:
            return "block %s %d exceeds the maximum %d" % (n, v, m)
    return None


def offered_fits(d, acc_name, blk):
    why = block_shape_ok(acc_name, blk)
    if why:
        return why
    # the query may assume either accumulator width the hardware offers for the operation (32 bit; also 40 bit for
    # 16-bit non-pooling operations); which one the generator really uses is judged on the emitted registers
    widths = [32, 40] if (d["bits"] == 16 and d["kind"] not in ("maxpool", "avgpool")) else [32]
    msgs = []
    for ab in widths:
        ifm, ifm2, acc, lut_first = requirement(d, acc_name, blk, ab)
        if RESERVED_OFM_BANKS + ifm + ifm2 + acc <= lut_first:
            return None
        msgs.append("needs %d OFM + %d IFM + %d IFM2 + %d accumulator (%d bit) banks, only %d before the LUT/reserved banks" % (
            RESERVED_OFM_BANKS, ifm, ifm2, acc, ab, lut_first))
    return "; ".join(msgs)


def decode(words):
    """command words -> {register name: param} of the cmd0 registers of interest (last write wins) and op count"""
    from ethosu.vela.ethos_u55_regs.ethos_u55_regs import cmd0
    names = {int(c.value): c.name for c in cmd0}
    regs = {}
    nops = 0
    i = 0
    while i < len(words):
        w = words[i]
        code, param = w & 0x3FF, (w >> 16) & 0xFFFF
        if w & 0x4000:
            i += 2
            continue
        n = names.get(code)
        if n in ("NPU_OP_CONV", "NPU_OP_DEPTHWISE", "NPU_OP_POOL", "NPU_OP_ELEMENTWISE"):
            nops += 1
        elif n is not None:
            regs[n] = param
        i += 1
    return regs, nops


def decode_ops(words):
    """command words -> [(op command name, snapshot of the cmd0 registers at that operation)] (register writes persist)"""
    from ethosu.vela.ethos_u55_regs.ethos_u55_regs import cmd0
    names = {int(c.value): c.name for c in cmd0}
    regs = {}
    out = []
    i = 0
    while i < len(words):
        w = words[i]
        if w & 0x4000:
            i += 2
            continue
        n = names.get(w & 0x3FF)
        if n in ("NPU_OP_CONV", "NPU_OP_DEPTHWISE", "NPU_OP_POOL", "NPU_OP_ELEMENTWISE"):
            out.append((n, dict(regs)))
        elif n is not None:
            regs[n] = (w >> 16) & 0xFFFF
        i += 1
    return out


def desc_of_captured(o):
    """operation descriptor from an NpuOperation serialised by tools/wrap.py; None for DMA"""
    a = o["api"]
    cls = o["cls"]
    if cls == "NpuConv2DOperation":
        kind = "conv"
    elif cls == "NpuConvDepthWiseOperation":
        kind = "depthwise"
    elif cls == "NpuPoolingOperation":
        kind = {"MAX": "maxpool", "AVERAGE": "avgpool", "REDUCE_SUM": "reduce_sum"}[a["sub_op_type"]]
    elif cls == "NpuElementWiseOperation":
        kind = "ew_" + a["sub_op_type"].lower()
    else:
        return None
    sh = lambda f: (f["shape"]["height"], f["shape"]["width"], f["shape"]["depth"])
    k = a.get("kernel")
    d = dict(kind=kind, ofm=sh(a["ofm"]), ifm_depth=a["ifm"]["shape"]["depth"], ifm_hw=sh(a["ifm"])[:2],
             kernel=(k["width"], k["height"], k["stride_x"], k["stride_y"], k["dilation_x"], k["dilation_y"]) if k else (1, 1, 1, 1, 1, 1),
             bits={"INT8": 8, "UINT8": 8, "INT16": 16, "UINT16": 16, "INT32": 32}[a["ifm"]["data_type"]],
             lut=bool(a.get("activation")) and a["activation"]["op_type"] == "TABLE_LOOKUP", upscale=a["ifm_upscale"], quant="scale",
             partkernel=a.get("block_traversal") == "PART_KERNEL_FIRST")
    if a.get("ifm2") is None:
        d["ifm2"] = None
    elif a.get("ifm2_scalar") is not None:
        d["ifm2"] = "scalar"
    else:
        d["ifm2"] = sh(a["ifm2"])
    bc = a["block_config"]
    return d, (bc["height"], bc["width"], bc["depth"])


def registers_ok(d, acc_name, blk, regs):
    """the emitted block / SHRAM registers satisfy the property for operation d"""
    hw = HW[acc_name]
    for n in ("NPU_SET_OFM_BLK_HEIGHT_M1", "NPU_SET_OFM_BLK_WIDTH_M1", "NPU_SET_OFM_BLK_DEPTH_M1", "NPU_SET_IFM_IB_END",
              "NPU_SET_AB_START", "NPU_SET_ACC_FORMAT"):
        if n not in regs:
            return "register %s not emitted" % n
    emitted = (regs["NPU_SET_OFM_BLK_HEIGHT_M1"] + 1, regs["NPU_SET_OFM_BLK_WIDTH_M1"] + 1, regs["NPU_SET_OFM_BLK_DEPTH_M1"] + 1)
    if emitted != tuple(blk):
        return "emitted OFM block %r is not the configured %r" % (emitted, tuple(blk))
    why = block_shape_ok(acc_name, emitted)
    if why:
        return why
    acc_bits = ACC_FORMAT_BITS.get(regs["NPU_SET_ACC_FORMAT"])
    if acc_bits not in (32, 40):
        return "ACC_FORMAT %r" % regs["NPU_SET_ACC_FORMAT"]
    ifm, ifm2, acc, lut_first = requirement(d, acc_name, emitted, acc_bits)
    ib_end, ab_start = regs["NPU_SET_IFM_IB_END"], regs["NPU_SET_AB_START"]
    ib_start = RESERVED_OFM_BANKS
    if not (ib_start <= ib_end <= ab_start <= lut_first <= hw["banks"]):
        return "partitions not ordered inside the SHRAM: IB_START %d IB_END %d AB_START %d LUT %d banks %d" % (
            ib_start, ib_end, ab_start, lut_first, hw["banks"])
    if is_ew(d):
        full = (not is_unary(d)) and d["ifm2"] not in (None, "scalar")
        # IFM2_IB_START is only written (and only read by the hardware) for a tensor second operand; an older value
        # may persist in the register file of a longer stream
        ib2 = regs.get("NPU_SET_IFM2_IB_START") if full else None
        if full and ib2 is None:
            return "IFM2_IB_START not emitted for a binary elementwise operation"
        if ib2 is not None:
            if not (ib_start <= ib2 <= ib_end):
                return "IFM2_IB_START %d outside [IB_START %d, IB_END %d]" % (ib2, ib_start, ib_end)
            if ib2 - ib_start < ifm or (ib2 - ib_start) % hw["ifm"][d["bits"]]:
                return "IFM partition [%d,%d) too small for %d banks or not whole granules" % (ib_start, ib2, ifm)
            if full and ib_end - ib2 < ifm2:
                return "IFM2 partition [%d,%d) smaller than %d banks" % (ib2, ib_end, ifm2)
        elif ib_end - ib_start < ifm:
            return "IFM partition [%d,%d) smaller than %d banks" % (ib_start, ib_end, ifm)
    else:
        if ib_end - ib_start < ifm or (ib_end - ib_start) % hw["ifm"][d["bits"]]:
            return "IFM partition [%d,%d) too small for %d banks or not whole granules" % (ib_start, ib_end, ifm)
        if lut_first - ab_start < acc or (lut_first - ab_start) % hw["acc"][acc_bits]:
            return "accumulator partition [%d,%d) too small for %d banks (%d bit) or not whole granules" % (
                ab_start, lut_first, acc, acc_bits)
    return None


# ---------------------------------------------------------------------------------------------------------------------
# generators
def gen_ops(rng, tier):
    """corpus first, then a stratified sample of the dense small grid (h,w<=12, c<=40, kernel<=4, stride<=3,
    dilation<=2), then random larger shapes"""
    ops = []

    def mk(kind, ofm, ifm_depth=None, kernel=(1, 1, 1, 1, 1, 1), bits=8, lut=False, upscale="NONE", quant="scale",
           ifm2=None, partkernel=False, relu=False, unsigned=False, ifm_hw=None):
        d = dict(kind=kind, ofm=tuple(ofm), kernel=tuple(kernel), bits=bits, lut=lut, upscale=upscale, quant=quant,
                 partkernel=partkernel, relu=relu, unsigned=unsigned)
        if ifm_hw is not None:
            d["ifm_hw"] = tuple(ifm_hw)
        d["ifm_depth"] = ofm[2] if (kind in EQUAL_DEPTH or ifm_depth is None) else ifm_depth
        if kind.startswith("ew_") and kind not in ("ew_abs", "ew_lrelu"):
            d["ifm2"] = ifm2 if ifm2 is not None else tuple(ofm)
        else:
            d["ifm2"] = None
        if kind.startswith("ew_"):
            d["kernel"] = (1, 1, 1, 1, 1, 1)
        return d

    # corpus: cases of the existing tests, boundary cases of the bank arithmetic, the Conv1D optimisation,
    # and the scale_f32=None case
    ops += [
        mk("conv", (30, 31, 46), 46, (3, 2, 2, 1, 1, 1), partkernel=True, unsigned=True),
        mk("conv", (1, 1, 96), 114), mk("conv", (1, 1, 1001), 1024), mk("conv", (1, 33, 17), 9, (5, 1, 1, 1, 1, 1)),
        mk("depthwise", (64, 64, 8), None, (3, 3, 1, 1, 1, 1)),
        mk("ew_mul", (31, 22, 31), ifm2=(1, 22, 1), relu=True, unsigned=True),
        mk("avgpool", (10, 10, 28), None, (8, 2, 3, 3, 1, 1)),
        mk("conv", (16, 16, 16), 16, bits=16, quant="scale_none"),
        mk("conv", (16, 16, 16), 16, bits=16), mk("conv", (16, 16, 16), 16, bits=16, quant="none"),
        mk("conv", (12, 12, 40), 24, (3, 3, 1, 1, 1, 1), lut=True),
        mk("conv", (9, 9, 33), 40, (4, 4, 3, 3, 2, 2), bits=16, lut=True),
        mk("maxpool", (12, 7, 40), None, (2, 2, 2, 2, 1, 1), upscale="NEAREST"),
        mk("conv", (8, 8, 16), 8, (3, 3, 1, 1, 1, 1), upscale="TRANSPOSE"),
        mk("reduce_sum", (6, 6, 1), 40, bits=16), mk("reduce_sum", (5, 7, 1), 33),
        mk("ew_add", (12, 12, 40), bits=32), mk("ew_add", (5, 3, 17), ifm2="scalar", bits=16, lut=True),
        mk("ew_abs", (12, 1, 40)), mk("ew_lrelu", (3, 11, 9), bits=16), mk("ew_min", (7, 7, 7), ifm2=(1, 1, 7)),
        # scalar operand 0 / 0.0 (legal, and falsy in Python) on outputs large enough for blocks whose IFM buffer takes
        # more than half of the banks: a scalar operand needs no IFM2 buffer, whatever its value
        mk("ew_add", (32, 64, 9), ifm2="scalar"), mk("ew_add", (31, 64, 8), ifm2="scalar"), mk("ew_mul", (16, 48, 34), ifm2="scalar"),
        mk("ew_min", (31, 64, 8), ifm2="scalar", bits=16), mk("ew_add", (32, 64, 9), ifm2="scalar", unsigned=True),
        mk("depthwise", (12, 12, 40), None, (4, 4, 2, 2, 2, 2), bits=16),
        mk("conv", (64, 64, 128), 64, (3, 3, 1, 1, 1, 1)), mk("ew_add", (100, 100, 200), lut=True),
        # one OFM row but a kernel taller than one row: the Conv1D accumulator saving must not apply
        mk("conv", (1, 64, 128), 32, (3, 3, 1, 1, 1, 1)), mk("depthwise", (1, 40, 16), None, (2, 2, 1, 1, 1, 1)),
        mk("maxpool", (1, 50, 24), None, (2, 2, 1, 1, 1, 1)), mk("conv", (1, 64, 64), 16, (1, 1, 1, 1, 1, 1), bits=16),
        # kernel one row high with IFM and OFM heights on opposite sides of 1: the Conv1D accumulator saving is a
        # property of the OFM (one IFM row upscaled 2x2 to two OFM rows: no saving; two IFM rows strided to one OFM row: saving)
        mk("conv", (2, 32, 128), 16, upscale="NEAREST"), mk("conv", (2, 32, 128), 16, upscale="TRANSPOSE"),
        mk("conv", (1, 64, 128), 16, (1, 1, 2, 2, 1, 1), ifm_hw=(2, 128)),
        mk("depthwise", (2, 32, 64), None, (3, 1, 1, 1, 1, 1), upscale="NEAREST"),
        mk("maxpool", (1, 20, 32), None, (2, 1, 2, 2, 1, 1), ifm_hw=(2, 40)),
        mk("avgpool", (2, 40, 48), None, (1, 1, 1, 1, 1, 1), upscale="NEAREST", bits=16),
        mk("conv", (1, 33, 40), 24, (3, 1, 1, 3, 1, 1), bits=16, ifm_hw=(3, 35), lut=True),
        mk("reduce_sum", (2, 24, 1), 40, upscale="TRANSPOSE"),
    ]
    n_corpus = len(ops)
    n_small = 170 if tier == "quick" else 1500
    n_big = 50 if tier == "quick" else 400
    for i in range(n_small + n_big):
        small = i < n_small
        kind = KINDS[i % len(KINDS)] if i < 2 * len(KINDS) else rng.choice(KINDS)
        if small:
            oh, ow, oc = rng.randint(1, 12), rng.randint(1, 12), rng.randint(1, 40)
            kw, kh = rng.randint(1, 4), rng.randint(1, 4)
            sx, sy = rng.randint(1, 3), rng.randint(1, 3)
            dx, dy = rng.randint(1, 2), rng.randint(1, 2)
            idepth = rng.randint(1, 40)
        else:
            oh, ow = rng.choice([1, 2, 13, 31, 32, 33, 63, 64, 65, 100]), rng.choice([1, 2, 13, 32, 63, 64, 65, 129, 200])
            oc = rng.choice([1, 7, 8, 16, 17, 31, 32, 33, 64, 127, 128, 129, 300, 1001])
            kw, kh = rng.choice([1, 1, 2, 3, 5, 7, 8, 9]), rng.choice([1, 1, 2, 3, 5, 7, 8, 9])
            sx, sy = rng.choice([1, 1, 2, 3]), rng.choice([1, 1, 2, 3])
            dx, dy = rng.choice([1, 1, 2]), rng.choice([1, 1, 2])
            idepth = rng.choice([1, 3, 8, 9, 16, 17, 32, 33, 64, 100, 512])
        if rng.random() < 0.15:
            oh = 1
            kh = 1 if rng.random() < 0.7 else kh
        if kind == "reduce_sum":
            oc = 1
        bits = rng.choice([8, 8, 16, 16, 32]) if kind in ("ew_add", "ew_mul") else rng.choice([8, 8, 16])
        if kind in ("ew_abs", "ew_lrelu", "ew_min"):
            bits = rng.choice([8, 16])
        lut = rng.random() < 0.3 and bits != 32
        upscale = rng.choice(["NONE", "NONE", "NONE", "NEAREST", "TRANSPOSE"]) if not kind.startswith("ew_") else "NONE"
        quant = rng.choice(["scale", "scale", "scale", "none"])
        if kind in ("conv", "depthwise") and bits == 16 and rng.random() < 0.35:
            quant = "scale_none"
        if kind.startswith("ew_") or kind in ("avgpool", "reduce_sum", "maxpool"):
            # these operations compute their output scaling from the quantization: it must be present
            quant = "scale"
        ifm2 = None
        if kind in ("ew_add", "ew_mul", "ew_min"):
            r = rng.random()
            ifm2 = "scalar" if r < 0.25 else (rng.choice([(1, ow, 1), (oh, 1, oc), (1, 1, oc), (1, 1, 1), (oh, ow, 1)])
                                              if r < 0.6 else (oh, ow, oc))
        ifm_hw = None
        if not kind.startswith("ew_"):
            r = rng.random()
            if r < 0.12:
                # stratum: kernel height 1, IFM / OFM heights on opposite sides of 1
                kh, dy = 1, 1
                if rng.random() < 0.5:
                    oh, sy, upscale = 2, 1, rng.choice(["NEAREST", "TRANSPOSE"])       # one IFM row, two OFM rows
                else:
                    oh, sy, upscale = 1, rng.choice([2, 3]), "NONE"                      # several IFM rows, one OFM row
                    ifm_hw = (rng.randint(2, sy), (ow - 1) * sx + (kw - 1) * dx + 1)
                if not small:
                    ow, oc = rng.choice([32, 64, 40]), rng.choice([64, 128, 96])         # blocks where the saving decides
            elif r < 0.2 and upscale == "NONE":
                # IFM rows / columns left over below the last kernel position (legal: they are simply not read)
                ifm_hw = ((oh - 1) * sy + (kh - 1) * dy + 1 + rng.randint(0, sy - 1), (ow - 1) * sx + (kw - 1) * dx + 1 + rng.randint(0, sx - 1))
        ops.append(mk(kind, (oh, ow, oc), idepth, (kw, kh, sx, sy, dx, dy), bits, lut, upscale, quant, ifm2,
                      partkernel=rng.random() < 0.5, relu=rng.random() < 0.2, ifm_hw=ifm_hw))
    return ops, n_corpus


def prun(name, cases, n=14):
    """models.run over n processes"""
    if not cases:
        return []
    n = max(1, min(n, len(cases) // 4 or 1))
    chunks = [cases[i::n] for i in range(n)]
    with ThreadPoolExecutor(n) as ex:
        outs = list(ex.map(lambda ch: models.run(name, ch, exe_name=EXE), chunks))
    res = [None] * len(cases)
    for i, o in enumerate(outs):
        res[i::n] = o
    return res


def num_eq(a, b):
    return len(a) == len(b) and all(float(x) == float(y) for x, y in zip(a, b))


def out_cfg(c):
    if c is None:
        return [0]
    lay = c.layout
    return [1, lay.ib_start, lay.ib_end, lay.ib_start2, lay.ab_start, lay.lut_start, c.ifm_block.height, c.ifm_block.width,
            c.ifm_block.depth, c.ofm_block.height, c.ofm_block.width, c.ofm_block.depth, int(c.acc_type),
            int(bool(c.is_partkernel)), c.bank_size]


# ---------------------------------------------------------------------------------------------------------------------
def correspondence(rng, tier, stats):
    """extracted model vs the real functions; returns the first difference (or None)"""
    from ethosu.vela import architecture_allocator as aa
    from ethosu.vela.architecture_features import Accelerator, Block, SHRAMConfig, create_default_arch
    from ethosu.vela.operation import Kernel, NpuBlockType
    from ethosu.vela.shape4d import Shape4D
    from ethosu.vela.ethos_u55_regs.ethos_u55_regs import resampling_mode
    accs = list(Accelerator)
    archs = [create_default_arch(a) for a in accs]
    first = None
    scale = 1 if tier == "quick" else 12

    def diff(kind, case, impl, model):
        nonlocal first
        stats["diffs"] += 1
        if first is None:
            first = {"function": kind, "case": case, "impl": impl, "model": model}

    # the regenerated table the model was built with is the table of the running code
    rows = models.run("arch_row", [[i] for i in range(len(accs))], exe_name=EXE)
    for i, (a, r) in enumerate(zip(archs, rows)):
        want = [a.shram.reserved_output_banks, a.shram.bank_size_bytes, a.shram.total_banks, a.shram.reserved_end_banks,
                a.ofm_ublock.width, a.ofm_ublock.height, a.ofm_ublock.depth, a.ofm_block_max.width, a.ofm_block_max.height,
                a.ofm_block_max.depth]
        if r != want:
            diff("arch_row", [i], want, r)

    # 1. _try_block_config
    cases = []
    shrams = [a.shram for a in archs]
    for i in range(4000 * scale):
        if rng.random() < 0.7:
            s = rng.choice(shrams)
        else:
            s = SHRAMConfig(rng.choice([0, 1, 2, 3]), rng.choice([1, 64, 256, 1000, 1024, 2048]), rng.choice([8, 16, 24, 48, 96]),
                            rng.choice([0, 2]))
        ew = rng.choice([0, 0, 1, 2])
        malformed = rng.random() < 0.08
        bits = rng.choice([0, 4, 7, 12, 20, -8]) if malformed and rng.random() < 0.5 else rng.choice([8, 8, 16, 32, 24, 40, 64])
        ig = rng.choice([2, 4, 8, 16, 1, 3]) if not (malformed and rng.random() < 0.3) else rng.choice([0, -1])
        ab = rng.choice([16, 32, 40, 8, 48]) if not (malformed and rng.random() < 0.3) else rng.choice([0, -32])
        ag = rng.choice([4, 8, 12, 16, 20, 1, 5]) if not (malformed and rng.random() < 0.3) else 0
        ow, oh, od = rng.choice([0, 1, 2, 4, 8, 16, 32, 64, 6, 12]), rng.choice([0, 1, 2, 4, 8, 16, 32, 5, 12]), rng.choice(
            [1, 4, 8, 16, 24, 32, 64, 128, 7, 33])
        iw, ih, idp = rng.randint(0, 80), rng.randint(0, 80), rng.choice([1, 4, 8, 12, 16, 24, 32, 64, 128, 3, 0])
        if rng.random() < 0.5:  # make the boundary (just fits / just does not) likely: small blocks
            iw, ih = rng.randint(1, 20), rng.randint(1, 20)
        lut = rng.choice([0, 0, 2, 2, 4, 1])
        cases.append([s.reserved_output_banks, s.bank_size_bytes, s.total_banks, s.reserved_end_banks, ew, ow, oh, od, iw, ih,
                      idp, bits, ig, ab, ag, lut])
    impl = []
    for c in cases:
        s = SHRAMConfig(c[0], c[1], c[2], c[3])
        try:
            lay = aa._try_block_config(s, aa.ElementwiseUsage(c[4]), Block(c[5], c[6], c[7]), Block(c[8], c[9], c[10]), c[11],
                                       c[12], c[13], c[14], c[15])
            impl.append([0] if lay is None else [1, lay.ib_start, lay.ib_end, lay.ib_start2, lay.ab_start, lay.lut_start])
        except AssertionError:
            impl.append([2])
    outs = prun("try_layout", cases)
    for c, r, m in zip(cases, impl, outs):
        stats["try_layout"] += 1
        if r[0] == 1:
            stats["nontrivial"].add(("layout", c[4], c[11], r[2] - r[1], r[5] - r[4]))
        if not num_eq(r, m):
            diff("_try_block_config", c, r, m)

    # 2. helpers
    cases4, cases5, cases6, cases7 = [], [], [], []
    for i in range(1500 * scale):
        k = [rng.randint(1, 12), rng.randint(1, 12), rng.randint(1, 4), rng.randint(1, 4), rng.randint(1, 3), rng.randint(1, 3)]
        cases4.append([rng.randint(1, 70), rng.randint(1, 40), rng.randint(1, 130)] + k +
                      [rng.choice([1, 2]), rng.choice([1, 2]), 8, 8, rng.choice([1, 2]), rng.choice([0, 1])])
        cases5.append([rng.choice([1, 7, 8, 9, 15, 16, 17, 24, 31, 32, 33, 48, 64, 100, 512, rng.randint(1, 300)]),
                       rng.choice([8, 16, 32]), rng.randint(1, 9), rng.randint(1, 9)])
        cases6.append([rng.randrange(6), rng.choice([1, 1, 2, 5]), rng.choice([1, 1, 2, 3]), rng.randint(1, 64), rng.randint(1, 32),
                       rng.randint(1, 128)])
        cases7.append([rng.choice([4, 8]), rng.randint(0, 200), rng.choice([8, 16, 32]), rng.randrange(2), rng.randint(0, 70),
                       rng.randint(1, 4), rng.randint(1, 17), rng.choice([1, 2]), rng.randrange(2)])
    o4, o5, o6, o7 = (models.run(n, cs, exe_name=EXE) for n, cs in (("ifm_blocksize", cases4), ("kernel_method", cases5),
                                                                    ("fit_block", cases6), ("misc", cases7)))
    for c, m in zip(cases4, o4):
        kern = Kernel(*c[3:9])
        b = aa._get_ifm_blocksize(Block(c[0], c[1], c[2]), kern, Block(c[9], c[10], 8), Block(c[11], c[12], 65536), c[13], bool(c[14]))
        stats["helpers"] += 1
        if not num_eq([b.width, b.height, b.depth], m):
            diff("_get_ifm_blocksize", c, [b.width, b.height, b.depth], m)
    for c, m in zip(cases5, o5):
        r = [int(aa._choose_kernel_method(Shape4D(1, 4, 4, c[0]), c[1], Kernel(c[2], c[3])))]
        stats["helpers"] += 1
        if r != m:
            diff("_choose_kernel_method", c, r, m)
    for c, m in zip(cases6, o6):
        b = aa.fit_block_for_ofm(archs[c[0]], Block(9, c[1], 9), Kernel(1, c[2]), Block(c[3], c[4], c[5]))
        stats["helpers"] += 1
        if [b.width, b.height, b.depth] != m:
            diff("fit_block_for_ofm", c, [b.width, b.height, b.depth], m)

    class _A:
        pass
    for c, m in zip(cases7, o7):
        a = _A()
        a.ifm_ublock = Block(1, 1, c[0])
        r = [aa._ifm_blockdepth(a, Block(1, 1, c[1]), c[2], bool(c[3])), aa._required_size(c[4], c[5], c[6], c[7], bool(c[8]))]
        stats["helpers"] += 1
        if r != m:
            diff("_ifm_blockdepth/_required_size", c, r, m)

    # 3. find_block_config and 4. try_block_config
    bts = [NpuBlockType.ConvolutionMxN, NpuBlockType.ConvolutionDepthWise, NpuBlockType.Pooling, NpuBlockType.ElementWise,
           NpuBlockType.ReduceSum, NpuBlockType.VectorProduct]
    eqd = (NpuBlockType.ConvolutionDepthWise, NpuBlockType.Pooling, NpuBlockType.ElementWise)

    def op_params(big):
        ai = rng.randrange(6)
        bt = rng.choice(bts)

        def dim(m):
            return rng.choice([1, 2, 3, 4, 5, 7, 8, 9, 12, 16, 17]) if not big else rng.randrange(1, m)
        oh, ow, od = dim(150), dim(150), dim(300)
        if rng.random() < 0.1:
            oh = 1
        kw, kh = rng.choice([1, 1, 2, 3, 4, 5, 9]), rng.choice([1, 1, 2, 3, 4, 5, 9])
        sx, sy, dx, dy = rng.choice([1, 1, 2, 3]), rng.choice([1, 1, 2, 3]), rng.choice([1, 1, 2]), rng.choice([1, 1, 2])
        if bt == NpuBlockType.ElementWise:
            kw = kh = sx = sy = dx = dy = 1
        ih, iw = (oh - 1) * sy + (kh - 1) * dy + 1, (ow - 1) * sx + (kw - 1) * dx + 1
        r = rng.random()
        if bt != NpuBlockType.ElementWise and r < 0.2:
            # kernel one row high, IFM / OFM heights on opposite sides of 1 (2x2 upscaling; stride_y >= 2)
            kh = 1
            if rng.random() < 0.5:
                ih, oh = 1, rng.choice([2, 2, 3, 4])
            else:
                oh, ih = 1, rng.choice([2, 2, 3, 5])
        elif r < 0.3:
            ih = rng.choice([1, 2, ih + 1, max(1, (ih + 1) // 2)])   # upscaled / left-over rows: heights not tied to the kernel
        idp = od if bt in eqd else dim(300)
        has2 = int(bt == NpuBlockType.ElementWise and rng.random() < 0.7)
        i2 = [rng.choice([1, ih]), rng.choice([1, iw]), rng.choice([1, idp])]
        us = int(bt == NpuBlockType.ElementWise and rng.random() < 0.3)
        bits = rng.choice([8, 8, 16, 16, 32]) if rng.random() < 0.97 else rng.choice([4, 24, 64])
        return ai, bt, (oh, ow, od), (ih, iw, idp), has2, i2, us, bits, (kw, kh, sx, sy, dx, dy), rng.choice([0, 0, 2]), \
            rng.randrange(2), rng.choice([0, 0, 1, 2])

    fcases, tcases = [], []
    for i in range(600 * scale):
        ai, bt, o, im, has2, i2, us, bits, k, lut, sc, rs = op_params(rng.random() < 0.25)
        n = rng.choice([1, 1, 1, 2])
        fcases.append([ai, bt.value, n, o[0], o[1], o[2], n, im[0], im[1], im[2], has2, 1] + i2 + [us, bits] + list(k) + [lut, sc, rs])
    for i in range(3000 * scale):
        ai, bt, o, im, has2, i2, us, bits, k, lut, sc, rs = op_params(rng.random() < 0.4)
        a = archs[ai]
        uw, uh, ud = a.ofm_ublock.width, a.ofm_ublock.height, a.ofm_ublock.depth
        if rng.random() < 0.85:
            bw, bh, bd = uw * rng.randint(1, 64 // uw), uh * rng.randint(1, 32 // uh), ud * rng.randint(1, 128 // ud)
            if rng.random() < 0.6:  # near the fit boundary
                bw, bh, bd = uw * rng.randint(1, 16 // uw), uh * rng.randint(1, 16 // uh), ud * rng.randint(1, 4)
        elif rng.random() < 0.6:
            # malformed stream: one dimension just outside the legal range / off the micro-block grid, the others small
            bw, bh, bd = uw * rng.randint(1, 3), uh * rng.randint(1, 3), ud * rng.randint(1, 2)
            mw, mh, md = a.ofm_block_max.width, a.ofm_block_max.height, a.ofm_block_max.depth
            which = rng.randrange(9)
            bw = [mw + uw, bw, bw, 0, bw, bw, bw + 1 if uw > 1 else -uw, bw, mw][which]
            bh = [bh, mh + uh, bh, bh, 0, bh, bh, bh + 1 if uh > 1 else -uh, mh if which == 8 and rng.random() < 0.5 else bh][which]
            bd = [bd, bd, md + ud, bd, bd, 0, bd, bd + 1, bd][which]
        else:
            bw, bh, bd = rng.randint(0, 66), rng.randint(0, 34), rng.randint(0, 136)
        tcases.append([ai, bw, bh, bd, bt.value, o[1], o[0], o[2], im[1], im[0], im[2], has2, i2[1], i2[0], i2[2], us, bits,
                       rng.randrange(2)] + list(k) + [lut, sc, rs])
    t0 = time.time()
    fimpl = []
    for c in fcases:
        try:
            r = aa.find_block_config(archs[c[0]], NpuBlockType(c[1]), Shape4D(*c[2:6]), Shape4D(*c[6:10]),
                                     Shape4D(*c[11:15]) if c[10] else None, bool(c[15]), c[16], Kernel(*c[17:23]), c[23],
                                     bool(c[24]), resampling_mode(c[25]))
            fimpl.append(out_cfg(r))
        except (KeyError, ZeroDivisionError, AssertionError):
            fimpl.append([2])
    timpl = []
    for c in tcases:
        try:
            r = aa.try_block_config(Block(c[1], c[2], c[3]), archs[c[0]], NpuBlockType(c[4]), Block(c[5], c[6], c[7]),
                                    Block(c[8], c[9], c[10]), Block(c[12], c[13], c[14]) if c[11] else None, bool(c[15]), c[16],
                                    bool(c[17]), Kernel(*c[18:24]), c[24], bool(c[25]), resampling_mode(c[26]))
            timpl.append(out_cfg(r))
        except (KeyError, ZeroDivisionError, AssertionError):
            timpl.append([2])
    stats["t_impl_search"] = round(time.time() - t0, 1)
    t0 = time.time()
    fout = prun("find", fcases)
    tout = prun("try_block_config", tcases)
    stats["t_model_search"] = round(time.time() - t0, 1)
    for c, r, m in zip(fcases, fimpl, fout):
        stats["find"] += 1
        if r[0] == 1:
            stats["nontrivial"].add(("find", c[0], c[1], c[16], tuple(r[9:12])))
        if not num_eq(r, m):
            diff("find_block_config", c, r, m)
    for c, r, m in zip(tcases, timpl, tout):
        stats["try_block_config"] += 1
        stats["try_outcomes"][r[0]] = stats["try_outcomes"].get(r[0], 0) + 1
        if r[0] == 1:
            stats["nontrivial"].add(("try", c[0], c[4], c[16], tuple(r[1:6])))
        if not num_eq(r, m):
            diff("try_block_config", c, r, m)
    # the search result must itself pass the property oracle's notion of a valid block
    for c, r in zip(fcases, fimpl):
        if r[0] == 1:
            why = block_shape_ok(accs[c[0]].value, (r[9], r[10], r[11]))
            if why and stats.get("find_bad") is None:
                stats["find_bad"] = {"case": c, "result": r, "why": why}
    return first


def op_model_args(d, acc_index, blk, scaled):
    """arguments of the model's try_block_config for operation d as the API / generator see it"""
    from ethosu.vela.operation import NpuBlockType
    bt = {"conv": NpuBlockType.ConvolutionMxN, "depthwise": NpuBlockType.ConvolutionDepthWise,
          "maxpool": NpuBlockType.Pooling, "avgpool": NpuBlockType.Pooling, "reduce_sum": NpuBlockType.ReduceSum}.get(
              d["kind"], NpuBlockType.ElementWise).value
    oh, ow, oc = d["ofm"]
    ih, iw = ifm_dims(d)
    has2 = int(d["ifm2"] is not None)
    i2 = (1, 1, 1) if d["ifm2"] in (None, "scalar") else d["ifm2"]
    us = int(d["ifm2"] == "scalar")
    pk = int(d["kind"] == "conv" and d["partkernel"])
    rs = {"NONE": 0, "NEAREST": 1, "TRANSPOSE": 2}[d["upscale"]]
    return [acc_index, blk[1], blk[0], blk[2], bt, ow, oh, oc, iw, ih, d["ifm_depth"], has2, i2[1], i2[0], i2[2], us, d["bits"],
            pk] + list(d["kernel"]) + [2 if d["lut"] else 0, int(scaled), rs]


def api_oracle(rng, tier, stats):
    """property oracle on api.npu_find_block_configs / npu_generate_register_command_stream; returns list of failures"""
    from ethosu.vela import api
    from ethosu.vela.architecture_features import Accelerator
    fails = []
    ops, n_corpus = gen_ops(rng, tier)
    stats["n_corpus"] = n_corpus
    accs = list(api.NpuAccelerator)
    acc_name = {a: Accelerator.from_npu_accelerator(a).value for a in accs}
    acc_index = {a: list(Accelerator).index(Accelerator.from_npu_accelerator(a)) for a in accs}
    budget = 38.0 if tier == "quick" else 900.0
    per_op = 10 if tier == "quick" else 60
    t0 = time.time()
    mcases, mmeta = [], []
    vcases, vmeta = [], []
    for oi, d in enumerate(ops):
        if time.time() - t0 > budget:
            stats["ops_skipped_time"] = len(ops) - oi
            break
        for a in (accs if (oi < n_corpus or tier == "thorough") else rng.sample(accs, 3)):
            name = acc_name[a]
            op = build_op(d)
            selected_oracle(d, a, name, acc_index[a], stats, fails, vcases, vmeta)
            try:
                offered = api.npu_find_block_configs(op, a)
            except AssertionError as ex:
                # "assert len(valid_block_configs) > 0": nothing offered is not a violation of C15
                stats["no_config"] += 1
                continue
            stats["ops"] += 1
            stats["offered"] += len(offered)
            stats["nontrivial"].add(("op", d["kind"], d["bits"], d["lut"], d["upscale"], d["quant"], name,
                                     d["ifm2"] if isinstance(d["ifm2"], str) else (d["ifm2"] is not None)))
            blks = [(c.height, c.width, c.depth) for c in offered]
            for blk in blks:
                stats["evals"] += 1
                why = offered_fits(d, name, blk)
                if why:
                    fails.append(dict(kind="offered_invalid", accelerator=name, op=d, block=blk, why=why))
            # every offered block is one the model's try_block_config accepts (scaled = what the command stream generator will use)
            for blk in blks[:16]:
                mcases.append(op_model_args(d, acc_index[a], blk, d["quant"] == "scale"))  # the value the generator uses (all_fms_have_quant)
                mmeta.append((d, name, blk))
            # offered => accepted, and the emitted registers
            pick = blks if len(blks) <= per_op else ([blks[0], blks[-1]] + rng.sample(blks[1:-1], per_op - 2))
            results = []
            for blk in pick:
                op.block_config = api.NpuShape3D(height=blk[0], width=blk[1], depth=blk[2])
                try:
                    words = api.npu_generate_register_command_stream([op], a)
                    results.append((blk, words, None))
                except Exception as ex:  # noqa
                    results.append((blk, None, ex))
            n_ok = sum(1 for r in results if r[2] is None)
            for blk, words, ex in results:
                stats["generated"] += 1
                if ex is not None:
                    msg = "%s: %s" % (type(ex).__name__, str(ex)[:160])
                    if "does not fit" in str(ex) or n_ok > 0:
                        cause = diagnose_reject(d, acc_index[a], blk)
                        fails.append(dict(kind="offered_not_accepted", accelerator=name, op=d, block=blk, why=msg, cause=cause))
                    else:
                        stats["op_not_generatable"][d["kind"] + ":" + msg[:60]] = stats["op_not_generatable"].get(
                            d["kind"] + ":" + msg[:60], 0) + 1
                    continue
                regs, nops = decode(words)
                stats["evals"] += 1
                why = "expected one NPU operation, decoded %d" % nops if nops != 1 else registers_ok(d, name, blk, regs)
                if why:
                    fails.append(dict(kind="registers_invalid", accelerator=name, op=d, block=blk, why=why,
                                      regs={k: v for k, v in regs.items() if "BLK" in k or "IB_" in k or "AB_" in k or "ACC" in k}))
                else:
                    ma = op_model_args(d, acc_index[a], blk, False)
                    has2reg = int("NPU_SET_IFM2_IB_START" in regs)
                    vcases.append(ma[:-2] + [ma[-1], regs["NPU_SET_IFM_IB_END"], regs.get("NPU_SET_IFM2_IB_START", 0),
                                             regs["NPU_SET_AB_START"], regs["NPU_SET_ACC_FORMAT"], has2reg])
                    vmeta.append((d, name, blk, regs))
                    if len(stats["samples"]) < 4 and oi % 7 == 3 and all(x["op"] is not d for x in stats["samples"]):
                        stats["samples"].append({"accelerator": name, "op": d, "block_hwc": blk, "IB_END": regs["NPU_SET_IFM_IB_END"],
                                                 "AB_START": regs["NPU_SET_AB_START"], "IFM2_IB_START": regs.get("NPU_SET_IFM2_IB_START"),
                                                 "ACC_FORMAT": regs["NPU_SET_ACC_FORMAT"]})
    stats["t_api"] = round(time.time() - t0, 1)
    return fails, (mcases, mmeta), (vcases, vmeta)


def selected_oracle(d, a, name, ai, stats, fails, vcases, vmeta):
    """the block the scheduler's search selects for operation d (find_block_config called as scheduler._get_block_config
    calls it) is valid and is accepted by the command stream generator, with valid registers"""
    from ethosu.vela import api
    from ethosu.vela import architecture_allocator as aa
    from ethosu.vela.architecture_features import Accelerator, create_default_arch
    from ethosu.vela.operation import Kernel, NpuBlockType
    from ethosu.vela.shape4d import Shape4D
    from ethosu.vela.ethos_u55_regs.ethos_u55_regs import resampling_mode
    c = op_model_args(d, ai, (1, 1, 1), d["quant"] == "scale")
    arch = create_default_arch(list(Accelerator)[ai])
    try:
        cfg = aa.find_block_config(arch, NpuBlockType(c[4]), Shape4D(1, c[6], c[5], c[7]), Shape4D(1, c[9], c[8], c[10]),
                                   Shape4D(1, c[13], c[12], c[14]) if c[11] else None, bool(c[15]), c[16], Kernel(*c[18:24]),
                                   c[24], bool(c[25]), resampling_mode(c[26]))
    except Exception as ex:  # noqa: not a statement about a selected block
        stats["select_raised"] = stats.get("select_raised", 0) + 1
        return
    if cfg is None:
        stats["select_none"] = stats.get("select_none", 0) + 1
        return
    stats["selected"] = stats.get("selected", 0) + 1
    stats["evals"] += 1
    blk = (cfg.ofm_block.height, cfg.ofm_block.width, cfg.ofm_block.depth)
    why = block_shape_ok(name, blk)
    if why:
        fails.append(dict(kind="selected_invalid", accelerator=name, op=d, block=blk, why="find_block_config selects: " + why))
        return
    d2 = dict(d, partkernel=bool(cfg.is_partkernel))   # the traversal travels with the selected configuration
    op = build_op(d2)
    op.block_config = api.NpuShape3D(height=blk[0], width=blk[1], depth=blk[2])
    try:
        words = api.npu_generate_register_command_stream([op], a)
    except Exception as ex:  # noqa
        msg = "%s: %s" % (type(ex).__name__, str(ex)[:160])
        if "does not fit" in str(ex):
            fails.append(dict(kind="selected_not_accepted", accelerator=name, op=d2, block=blk,
                              why="the block find_block_config selects is rejected by the generator: " + msg))
        else:
            k = d["kind"] + ":" + msg[:60]
            stats["op_not_generatable"][k] = stats["op_not_generatable"].get(k, 0) + 1
        return
    regs, nops = decode(words)
    why = "expected one NPU operation, decoded %d" % nops if nops != 1 else registers_ok(d2, name, blk, regs)
    if why:
        fails.append(dict(kind="selected_invalid", accelerator=name, op=d2, block=blk, why="selected block: " + why,
                          regs={k: v for k, v in regs.items() if "BLK" in k or "IB_" in k or "AB_" in k or "ACC" in k}))
        return
    ma = op_model_args(d2, ai, blk, False)
    vcases.append(ma[:-2] + [ma[-1], regs["NPU_SET_IFM_IB_END"], regs.get("NPU_SET_IFM2_IB_START", 0),
                             regs["NPU_SET_AB_START"], regs["NPU_SET_ACC_FORMAT"], int("NPU_SET_IFM2_IB_START" in regs)])
    vmeta.append((d2, name, blk, regs))


D2_FAMS = ["conv_chain", "conv_chain_big", "single", "diamond", "mixed_cpu", "lut_heavy", "conv_chain_big", "single"]


def compiled_oracle(tier, stats):
    """D2: the block / SHRAM registers of every operation of every command stream of the tier's compilations (the plan
    shared with C02/C03) against the property oracle; returns (failures, validator cases, their meta)"""
    import artefacts
    import compiles
    fails, vcases, vmeta = [], [], []
    n = 64 if tier == "quick" else 1600
    jobs = compiles.plan(D2_FAMS, n, vlib.seed(), tag="d2", capture=True)
    t0 = time.time()
    results = compiles.run_all(jobs, timeout=900)
    acc_names = list(HW)
    comp = {"compilations": len(results), "compiled_ok": 0, "streams": 0, "ops": 0, "kinds": {}}
    for r in results:
        if r.get("status") != "ok":
            if "does not fit" in str(r.get("exception", "")) and "block_config" in str(r.get("exception", "")):
                fails.append(dict(kind="selected_not_accepted", accelerator=artefacts.job_accel(r["job"]),
                                  op={"kind": "compilation", "net": r.get("net_desc")}, block=None,
                                  why="compilation aborted: the generator rejects the scheduler's block: " + str(r.get("exception"))[:200],
                                  compilation=r["job"]))
            continue
        comp["compiled_ok"] += 1
        art = artefacts.load(r)
        cap = art.get("capture") if art else None
        if not cap:
            continue
        for st in cap["streams"]:
            name = st["accelerator"]
            snaps = decode_ops(st["words"])
            blockops = [x for x in (desc_of_captured(o) for o in st["ops"]) if x is not None]
            comp["streams"] += 1
            if len(snaps) != len(blockops):
                fails.append(dict(kind="registers_invalid", accelerator=name, op={"kind": "stream", "net": r.get("net_desc")},
                                  block=None, why="stream has %d NPU operations, %d were given" % (len(snaps), len(blockops)),
                                  compilation=r["job"]))
                continue
            for (opname, regs), (d, blk) in zip(snaps, blockops):
                comp["ops"] += 1
                stats["evals"] += 1
                comp["kinds"][d["kind"]] = comp["kinds"].get(d["kind"], 0) + 1
                stats["nontrivial"].add(("compiled", d["kind"], d["bits"], d["lut"], name, blk))
                why = registers_ok(d, name, blk, regs)
                if why:
                    fails.append(dict(kind="registers_invalid", accelerator=name, op=d, block=blk, why="compiled stream: " + why,
                                      regs={k: v for k, v in regs.items() if "BLK" in k or "IB_" in k or "AB_" in k or "ACC" in k},
                                      compilation=r["job"], net=r.get("net_desc")))
                    continue
                ma = op_model_args(d, acc_names.index(name), blk, False)
                vcases.append(ma[:-2] + [ma[-1], regs["NPU_SET_IFM_IB_END"], regs.get("NPU_SET_IFM2_IB_START", 0),
                                         regs["NPU_SET_AB_START"], regs["NPU_SET_ACC_FORMAT"],
                                         int(d["ifm2"] not in (None, "scalar"))])
                vmeta.append((d, name, blk, regs))
    comp["wall_s"] = round(time.time() - t0, 1)
    stats["compiled"] = comp
    return fails, vcases, vmeta


def diagnose_reject(d, acc_index, blk):
    """why the generator rejected an offered block: compare the real try_block_config under both `scaled` values"""
    from ethosu.vela import architecture_allocator as aa
    from ethosu.vela.architecture_features import Accelerator, Block, create_default_arch
    from ethosu.vela.operation import Kernel, NpuBlockType
    from ethosu.vela.ethos_u55_regs.ethos_u55_regs import resampling_mode
    try:
        c = op_model_args(d, acc_index, blk, True)
        arch = create_default_arch(list(Accelerator)[acc_index])
        r = []
        for scaled in (True, False):
            r.append(aa.try_block_config(Block(c[1], c[2], c[3]), arch, NpuBlockType(c[4]), Block(c[5], c[6], c[7]),
                                         Block(c[8], c[9], c[10]), Block(c[12], c[13], c[14]) if c[11] and not c[15] else None,
                                         bool(c[15]), c[16], bool(c[17]), Kernel(*c[18:24]), c[24], scaled, resampling_mode(c[26])))
        if r[0] is not None and r[1] is None and d["quant"] == "scale_none":
            return "api-has_scaling-vs-generator-all_fms_have_quant"
    except Exception:  # diagnosis only
        pass
    return "unknown"


def run(tier):
    res = vlib.Result("C15", tier, "proof")
    b = vlib.build_property("C15")
    vlib.proof_coverage(res, b, [
        "extraction (ExtrOcamlBasic only) + ocaml/driver.ml for the correspondence run",
        "tools/checks/c15.py HW table: micro-blocks, SHRAM banks, bank granules of the six accelerators (hardware facts) "
        "and the rule for the IFM block needed by an OFM block (re-stated independently in requirement())",
        "modelled, not verified: Python float arithmetic of find_block_config's cost function (model: round-to-nearest-even, "
        "53-bit significand, unbounded exponent), tied by correspondence only; it does not enter any theorem",
        "hand models tied by correspondence only: fit_block_for_ofm, _choose_kernel_method, find_block_config, try_block_config; "
        "api.npu_find_block_configs' candidate loop and get_arch_block_config are not modelled: offered blocks are checked "
        "against the model's try_block_config and the real generator"])
    okx, xlog = vlib.build_extraction(EXE)
    rng = random.Random(vlib.seed())
    stats = {"diffs": 0, "try_layout": 0, "helpers": 0, "find": 0, "try_block_config": 0, "try_outcomes": {}, "nontrivial": set(),
             "ops": 0, "offered": 0, "generated": 0, "evals": 0, "no_config": 0, "op_not_generatable": {}, "samples": []}
    model_diff = None
    fails = []
    if okx:
        model_diff = correspondence(rng, tier, stats)
    else:
        res.notes.append("extraction build failed: " + xlog[-500:])
    fails, (mcases, mmeta), (vcases, vmeta) = api_oracle(rng, tier, stats)
    try:
        cfails, cv, cm = compiled_oracle(tier, stats)
        fails += cfails
        vcases += cv
        vmeta += cm
    except Exception as ex:  # the compile infrastructure is shared; its failure is not a statement about C15
        res.notes.append("compiled-stream step not run: %r" % (ex,))
    if okx:
        # offered blocks vs the model's try_block_config; decoded registers vs the proved validator
        for (d, name, blk), o in zip(mmeta, prun("try_block_config", mcases)):
            stats["try_block_config"] += 1
            if o[0] != 1 or (o[9], o[10], o[11]) != tuple(blk):
                stats["diffs"] += 1
                if model_diff is None:
                    model_diff = {"function": "npu_find_block_configs offers a block the model's try_block_config rejects",
                                  "case": {"accelerator": name, "op": d, "block": blk}, "impl": "offered", "model": o}
        for (d, name, blk, regs), o in zip(vmeta, prun("check_blockcfg", vcases)):
            stats["evals"] += 1
            if o != [1]:
                fails.append(dict(kind="registers_invalid", accelerator=name, op=d, block=blk,
                                  why="proved validator check_blockcfg rejects the emitted registers", regs=regs))
    if stats.get("find_bad"):
        fb = stats["find_bad"]
        fails.append(dict(kind="search_invalid", accelerator=list(HW)[fb["case"][0]],
                          op={"kind": "find_block_config", "find_block_config_args": fb["case"]},
                          block=tuple(fb["result"][9:12]), why=fb["why"]))
    nt = stats.pop("nontrivial")
    res.cov.update({
        "evaluations": stats["evals"] + stats["try_layout"] + stats["helpers"] + stats["find"] + stats["try_block_config"],
        "distinct_nontrivial": len(nt),
        "rule": "distinct (layout shapes returned by _try_block_config) + (accelerator, block type, bits, chosen block) of "
                "find_block_config results + (accelerator, block type, bits, layout) of fitting try_block_config calls + "
                "(kind, bits, LUT, upscale, quantization, accelerator, ifm2 form) of API operations with at least one offered block",
        "correspondence_volumes": {"_try_block_config": stats["try_layout"], "helpers": stats["helpers"],
                                   "find_block_config": stats["find"], "try_block_config": stats["try_block_config"],
                                   "try_block_config_outcomes(0 none,1 config,2 exception)": stats["try_outcomes"]},
        "model_vs_impl_differences": stats["diffs"],
        "api": {"operations_x_accelerators": stats["ops"], "offered_blocks": stats["offered"],
                "scheduler_selection(find_block_config) fed through the generator": stats.get("selected", 0),
                "scheduler_selection_none": stats.get("select_none", 0), "scheduler_selection_raised": stats.get("select_raised", 0),
                "fed_back_through_generator": stats["generated"], "no_config_offered": stats["no_config"],
                "op_not_generatable(for reasons other than the block)": stats["op_not_generatable"],
                "ops_skipped_for_time": stats.get("ops_skipped_time", 0)},
        "input_distribution": "corpus of %d operations (existing tests, boundary shapes, Conv1D, kernel height 1 with IFM/OFM heights on opposite "
                              "sides of 1 by upscaling / stride, LUT, 16/32 bit, scale_f32=None) x 6 " % stats.get("n_corpus", 0) +
                              "accelerators; then operations from the small grid h,w<=12 c<=40 kernel<=4 stride<=3 dilation<=2 "
                              "and larger random shapes x 3 random accelerators (all 6 in thorough); every offered block judged, "
                              "up to %d per operation fed back through the generator" % (10 if tier == "quick" else 60),
        "samples": stats["samples"],
        "programs": stats.get("compiled", {}).get("streams", 0),
        "compiled_streams": stats.get("compiled", {}),
        "timing_s": {k: v for k, v in stats.items() if k.startswith("t_")},
    })
    res.assumptions += ["hardware facts in the HW table of tools/checks/c15.py",
                        "kernel w,h >= 1, strides, dilations >= 1, shapes >= 0 (hypotheses kernel_ok / block_nonneg of the theorems)"]

    def search():
        if fails:
            f = fails[0]
            key = {"kind": f["kind"], "accelerator": f["accelerator"], "cause": f.get("cause", f["why"][:60])}
            return key, f, "block configuration: %s (%s, %s, block %r)" % (f["why"], f["accelerator"], f["op"].get("kind", "?"), f["block"])
        return None

    # one VIOLATION per distinct (kind, cause)
    seen = set()
    real = False
    for f in fails:
        kk = (f["kind"], f.get("cause", ""))
        if kk in seen:
            continue
        seen.add(kk)
        key = {"kind": f["kind"], "accelerator": f["accelerator"], "cause": f.get("cause", f["why"][:60])}
        real |= res.violation(key, f, "block configuration: %s (%s, %s, block %r)" % (
            f["why"], f["accelerator"], f["op"].get("kind", "?"), f["block"]))
    if not b["ok"]:
        vlib.report_broken_build(res, b, None if fails else search)
    elif (model_diff or not okx) and not real:
        md = model_diff or {"function": "extraction", "case": None, "impl": None, "model": None}
        res.violation({"correspondence": md["function"]}, dict(md, extraction_ok=okx),
                      "correspondence model vs %s no longer holds" % md["function"], no_input=True)
    return res.finish()
