"""C02 -- every NPU access stays inside its declared region (translation validation with a proved
checker).  Theorem check_bounds_sound (props/C02.v); the extracted checker runs on the command streams
of real compilations, region extents taken from the output file."""
import collections
import json

import artefacts
import compiles
import models
import vlib

FAMS = ["conv_chain", "conv_chain_big", "single", "diamond", "mixed_cpu", "lut_heavy", "conv_chain_big", "single", "lut_mixed",
        "multi_subgraph"]


def arena_cache_of(job):
    a = job.get("args", [])
    return int(a[a.index("--arena-cache-size") + 1]) if "--arena-cache-size" in a else 384 * 1024


def run(tier):
    res = vlib.Result("C02", tier, "translation_validation")
    b = vlib.build_property("C02")
    okx, xlog = vlib.build_extraction()
    n = 64 if tier == "quick" else 1600
    jobs = compiles.plan(FAMS, n, vlib.seed(), tag="d2", capture=True)
    # models with several subgraphs (WHILE / IF / CALL_ONCE): command streams inside loop bodies, region extents published
    # per subgraph.  The shared "d2" plan ignores FAMS, so these are added explicitly.
    import random
    import netgen
    rm = random.Random("c02multi/%d" % vlib.seed())
    for rep in range(1 if tier == "quick" else 25):
        for kind in sorted(set(netgen.MULTI_KINDS)):
            jobs.append({"family": "multi_subgraph:" + kind, "seed": "c02m-%d-%d" % (vlib.seed(), rep), "args": compiles.config_args(rm), "capture": True})
    # constants shared between operators (one filter, separate biases -> stand-alone scale tensors) with enough weights
    # for several encoded ranges: two cores, depth slices
    for rep in range(4 if tier == "quick" else 120):
        acc = ["ethos-u65-512", "ethos-u65-512", "ethos-u55-128", "ethos-u65-256"][rep % 4]
        extra = ["--arena-cache-size", "20000"] if rep % 4 == 2 else []
        jobs.append({"family": "siamese:big", "seed": "c02s-%d-%d" % (vlib.seed(), rep), "args": ["--accelerator-config", acc] + extra, "capture": True})
    # every shape / permutation of TRANSPOSE (swapped OFM strides), and mixed 16 / 8-bit cascades under SRAM pressure
    for rep in range(8 if tier == "quick" else 200):
        jobs.append({"family": "single:transpose_c", "seed": "c02t-%d-%d" % (vlib.seed(), rep), "args": compiles.config_args(rm), "capture": True})
    for rep in range(3 if tier == "quick" else 60):
        jobs.append({"family": "narrowing_chain", "seed": "c02n-%d-%d" % (vlib.seed(), rep),
                     "args": ["--accelerator-config", "ethos-u55-128", "--arena-cache-size", str([80000, 90000, 75000][rep % 3])], "capture": True})
    # a one-channel layer after a layer with many weights: the second core of a two-core accelerator has no weight stream
    # for it, and the registers of that core keep whatever the previous operation left there
    for rep in range(6 if tier == "quick" else 150):
        extra = [[], ["--memory-mode", "Dedicated_Sram", "--system-config", "Ethos_U65_High_End", "--config", compiles.CONFIG_INI],
                 ["--memory-mode", "Shared_Sram", "--system-config", "Ethos_U65_Embedded", "--config", compiles.CONFIG_INI]][rep % 3]
        jobs.append({"family": "one_channel_tail", "seed": "c02o-%d-%d" % (vlib.seed(), rep),
                     "args": ["--accelerator-config", "ethos-u65-512"] + extra, "capture": True})
    # x2 bilinear resize with half-pixel centres (hand-made tile base addresses), channel counts that are multiples of the
    # brick, under every allocator and in the fork's default configuration (no --accelerator-config: Ethos-U65-256, Dedicated SRAM)
    for rep in range(8 if tier == "quick" else 160):
        alloc = ["Greedy", "HillClimb", "LinearAlloc", "Greedy"][rep % 4]
        acc = [[], [], ["--accelerator-config", "ethos-u55-128"], ["--accelerator-config", "ethos-u65-512"]][(rep // 4) % 4]
        jobs.append({"family": "single:resize_hp16", "seed": "c02h-%d-%d" % (vlib.seed(), rep),
                     "args": acc + ["--tensor-allocator", alloc], "capture": True})
    # the smallest legal arena cache (0 bytes: nothing may be placed in fast scratch) and other small ones, in the Dedicated-SRAM modes
    for rep in range(4 if tier == "quick" else 60):
        size = ["0", "0", "1024", "16"][rep % 4]
        mode = [[], ["--config", compiles.CONFIG_INI, "--system-config", "Ethos_U65_High_End", "--memory-mode", "Dedicated_Sram"]][rep % 2]
        jobs.append({"family": ["conv_chain", "weights_heavy", "diamond", "single:conv"][rep % 4], "seed": "c02z-%d-%d" % (vlib.seed(), rep),
                     "args": ["--accelerator-config", ["ethos-u65-256", "ethos-u65-512"][(rep // 2) % 2]] + mode + ["--arena-cache-size", size], "capture": True})
    # a RESHAPE that has to be a copy (its input has other consumers), channel counts off the 16-channel brick: the copy's
    # byte count must be that of the destination, whatever formats the neighbours prefer; destination at the top of the arena
    for rep in range(9 if tier == "quick" else 180):
        extra = [["--config", compiles.CONFIG_INI, "--system-config", "Ethos_U55_High_End_Embedded", "--memory-mode", "Sram_Only"],
                 ["--config", compiles.CONFIG_INI, "--system-config", "Ethos_U55_High_End_Embedded", "--memory-mode", "Shared_Sram"], []][rep % 3]
        jobs.append({"family": "memcpy_reshape", "seed": "c02r-%d-%d" % (vlib.seed(), rep),
                     "args": ["--accelerator-config", ["ethos-u55-128", "ethos-u55-64", "ethos-u55-256"][(rep // 3) % 3]] + extra, "capture": True})
    jobs = compiles.corpus_jobs() + jobs
    results = compiles.run_all(jobs, timeout=900)
    programs = 0
    ops_checked = 0
    rejected = []
    samples = []
    stat = collections.Counter()
    cases, meta = [], []
    for r in results:
        stat[r["status"]] += 1
        if r["status"] != "ok":
            continue
        art = artefacts.load(r)
        if art is None:
            continue
        for k, npu in enumerate(art["npu"]):
            if npu["words"] is None:
                rejected.append((r, k, "command stream tensor does not parse as a driver payload", None))
                continue
            sizes = npu["sizes"]
            hw = artefacts.hw_args(r["job"])
            # SHRAM region 259 has the accelerator's size; regions 0..2 as published in the file
            sz = [(0, sizes[0]), (1, sizes[1]), (2, sizes[2]), (259, hw[2])]
            flat = hw + [len(sz)] + [x for p in sz for x in p] + [1, 0] + npu["words"]
            cases.append(flat)
            meta.append((r, k, sizes))
    outs = models.run_parallel("check_bounds", cases) if (okx and cases) else []
    for (r, k, sizes), o in zip(meta, outs):
        programs += 1
        if o[0] != 1:
            rejected.append((r, k, "stream does not decode", None))
            continue
        ops_checked += o[3]
        if o[1] != 1:
            rejected.append((r, k, "operation %d of the stream accesses memory outside its region" % o[2], o[2]))
        if len(samples) < 3:
            samples.append({"net": r.get("net_name"), "ops": r.get("net_desc"), "args": r["job"]["args"],
                            "region_sizes": sizes, "npu_ops_in_stream": o[3], "accepted": o[1] == 1})
    # Dedicated-SRAM clause: published fast-scratch extent <= configured arena cache size
    for r in results:
        if r["status"] != "ok":
            continue
        a = r["job"]["args"]
        if "Dedicated_Sram" in a:
            art = artefacts.load(r)
            for k, npu in enumerate(art["npu"] if art else []):
                if npu["sizes"][2] > arena_cache_of(r["job"]):
                    rejected.append((r, k, "fast-scratch extent %d exceeds the arena cache size %d" % (npu["sizes"][2], arena_cache_of(r["job"])), None))
    res.cov.update({
        "programs": programs, "disagreements_checked": len(rejected), "samples": samples or [{"note": "no program compiled"}],
        "npu_operations_checked": ops_checked, "compile_status": dict(stat),
        "evaluations": len(results), "distinct_nontrivial": programs,
        "rule": "one program = one command stream of one compiled generated network (families %s) at one configuration "
                "point; non-trivial = compiled to at least one NPU operation" % sorted(set(FAMS)),
    })
    vlib.proof_coverage(res, b, ["coq/hw/Npu.v: meaning of command words, tiles, strides, NHCWB16 bricks, IFM extent from "
                                 "kernel/stride/padding registers, SHRAM/LUT ranges (modelled from Vela's own code and "
                                 "ethos_u55_regs.py; not verified against silicon)",
                                 "tools/tflsum.py + flatbuffers package (region extents read from the output file)",
                                 "extraction (ExtrOcamlBasic) + ocaml/driver.ml"])
    res.assumptions += ["the set of compilations is sampled (not all networks)", "hardware footprint model coq/hw/Npu.v"]
    for r, k, why, opi in rejected:
        res.violation({"net": r.get("net_name"), "seed": r["job"]["seed"], "why": why.split(" of the stream")[0][:60]},
                      {"job": r["job"], "stream": k, "op_index": opi, "reason": why,
                       "replay_cmd": "cd /verif && /venv/bin/python tools/vela_worker.py %s/job.json" % r["job"]["out_dir"]},
                      "C02: %s (net %s, %s)" % (why, r.get("net_name"), " ".join(r["job"]["args"][:2])))
    if not rejected:
        if not b["ok"]:
            vlib.report_broken_build(res, b, None)
        elif not okx or programs == 0:
            res.violation({"machinery": "no program validated"}, {"extraction_ok": okx, "log": xlog[-800:], "status": dict(stat)},
                          "no compilation could be validated (extraction or compilation failed)", no_input=True)
    return res.finish()
