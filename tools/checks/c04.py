"""C04 -- conflicting NPU/DMA accesses are always separated by a wait or block dependency.
Proof (coq/props/C04.v): waits_separate (get_wait_dependency, all histories, abstract conflict relation),
rangeset_intersects_spec / conflicts_spec (range_set.py), blockdep_sound (calc_blockdep's double loop), footprint_overapprox,
check_hazards_sound (validator on decoded streams).
Tie (device H): the extracted models (build/waits) are run against the real get_wait_dependency, RangeSet,
MemoryRangeSet, MemoryAccessSet and calc_blockdep on generated cases; independent Python oracles state the
property on the implementation's outputs; the proved validator check_hazards runs on the streams of
api.npu_generate_register_command_stream for random op lists and on every stream of the shared compilation plan."""
import collections
import random
import time
import types

import vlib
import models

EXE = "waits"
FAMS = ["conv_chain", "conv_chain_big", "single", "diamond", "mixed_cpu", "lut_heavy", "conv_chain_big", "single", "lut_mixed"]


# =====================================================================================================================
# (a1) get_wait_dependency
class FakeAcc:
    """stands for a MemoryAccessSet: get_wait_dependency only calls .conflicts(other)"""
    __slots__ = ("i", "n", "mat")

    def __init__(self, i, n, mat):
        self.i, self.n, self.mat = i, n, mat

    def conflicts(self, other):
        return bool(self.mat[self.i * self.n + other.i])


def gen_wait_case(rng, kind):
    """(max_dma, max_kern, kinds, matrix, seq)"""
    n = rng.choice([1, 2, 3, 4, 5, 6, 8, 12])
    if kind == "u55":
        md, mk = 1, 2
    elif kind == "u65":
        md, mk = 2, 2
    else:
        md, mk = rng.randint(1, 4), rng.randint(1, 4)
    pd = rng.choice([0.2, 0.5, 0.8])
    kinds = [1 if rng.random() < pd else 0 for _ in range(n)]
    dens = rng.choice([0.0, 0.05, 0.15, 0.3, 0.6, 1.0])
    mat = [0] * (n * n)
    sym = rng.random() < 0.8
    for i in range(n):
        for j in range(i, n):
            v = 1 if rng.random() < dens else 0
            mat[i * n + j] = v
            mat[j * n + i] = v if sym else (1 if rng.random() < dens else 0)
    L = rng.choice([1, 2, 3, 4, 5, 7, 10, 15, 25, 40])
    if rng.random() < 0.3:
        seq = [rng.randrange(n) for _ in range(L)]           # operations may repeat (same object twice)
    else:
        seq = [i % n for i in range(L)] if rng.random() < 0.3 else [rng.randrange(n) for _ in range(L)]
    return md, mk, kinds, mat, seq, sym


def impl_waits(md, mk, kinds, mat, seq):
    from ethosu.vela import api
    from ethosu.vela.register_command_stream_util import get_wait_dependency
    n = len(kinds)
    arch = types.SimpleNamespace(max_outstanding_dma=md, max_outstanding_kernels=mk)
    rng0 = api.NpuAddressRange(0, 0, 16)
    ops = [api.NpuDmaOperation(rng0, rng0) if k else api.NpuPoolingOperation(api.NpuPoolingOp.MAX) for k in kinds]
    acc = {op: FakeAcc(i, n, mat) for i, op in enumerate(ops)}
    idx = {id(op): i for i, op in enumerate(ops)}
    od, ok = [], []
    out = []
    for s in seq:
        w = get_wait_dependency(arch, ops[s], acc, od, ok)
        out += [w.npu, w.dma]
    out += [len(od)] + [idx[id(o)] for o in od] + [len(ok)] + [idx[id(o)] for o in ok]
    return out


def waits_oracle(md, mk, kinds, mat, seq, waits):
    """the property on the implementation's waits: pessimistic replay (an issue keeps the newest max_outstanding
    operations of its queue possibly unfinished, a wait n the newest n); a newly issued operation must not conflict
    with a possibly unfinished operation of the other queue.  Only meaningful for symmetric relations."""
    n = len(kinds)
    pk, pd = [], []
    for step, s in enumerate(seq):
        kw, dw = waits[2 * step], waits[2 * step + 1]
        if kw >= 0:
            pk = pk[len(pk) - kw:] if kw else []
        if dw >= 0:
            pd = pd[len(pd) - dw:] if dw else []
        other = pk if kinds[s] else pd
        for o in other:
            if mat[o * n + s] or mat[s * n + o]:
                return "step %d: operation %d issued while conflicting operation %d of the other queue may be unfinished" % (step, s, o)
        if kinds[s]:
            pd = (pd + [s])[-md:]
        else:
            pk = (pk + [s])[-mk:]
    return None


# =====================================================================================================================
# (a2) RangeSet / MemoryRangeSet / MemoryAccessSet
def gen_ranges(rng, wellformed=True):
    n = rng.choice([0, 1, 1, 2, 3, 5, 8])
    base = rng.choice([0, 0, 100, 1 << 20])
    rs = []
    for _ in range(n):
        s = base + rng.randrange(0, 64)
        e = s + rng.choice([1, 1, 2, 3, 8, 16, 40])
        rs.append((s, e))
    if rs and rng.random() < 0.3:     # duplicates / adjacency / nesting
        s, e = rng.choice(rs)
        rs.append(rng.choice([(s, e), (e, e + 4), (s, e + 10), (max(0, s - 3), s)]))
        rs = [r for r in rs if r[0] < r[1]]
    if not wellformed:
        if rng.random() < 0.5 and rs:
            s, _ = rng.choice(rs)
            rs.append((s, s))          # an empty range (the constructor would have dropped it)
        if rng.random() < 0.5:
            rng.shuffle(rs)
            return rs
    return sorted(rs)


def impl_rs_intersects(a, b):
    from ethosu.vela.range_set import RangeSet
    try:
        return 1 if RangeSet(ranges=list(a)).intersects(RangeSet(ranges=list(b))) else 0
    except AssertionError:
        return 2


def impl_rs_or(a, b):
    from ethosu.vela.range_set import RangeSet
    x = RangeSet()
    for s, e in a:
        x |= RangeSet(s, e)
    y = RangeSet(ranges=list(b))
    r = x | y
    return [v for t in r.ranges for v in t]


def rs_oracle(a, b):
    return 1 if any(max(x[0], y[0]) < min(x[1], y[1]) for x in a for y in b) else 0


def gen_adds(rng):
    n = rng.choice([0, 1, 2, 3, 4, 6])
    adds = []
    for _ in range(n):
        area = rng.choice([0, 1, 1, 2, 259])
        s = rng.randrange(0, 48)
        e = s + rng.choice([0, 1, 2, 4, 8, 16])
        if rng.random() < 0.03:
            e = s - 1                   # assertion in the RangeSet constructor
        adds.append((rng.randrange(2), area, s, e))
    return adds


def impl_ma(adds_x, adds_y):
    from ethosu.vela.range_set import MemoryAccessSet, MemoryRangeSet, AccessDirection

    def build(adds):
        m = MemoryAccessSet()
        for w, area, s, e in adds:
            m.add(MemoryRangeSet(area, s, e), AccessDirection.Write if w else AccessDirection.Read)
        return m
    try:
        x, y = build(adds_x), build(adds_y)
    except AssertionError:
        return [3], None, None
    try:
        c = 1 if x.conflicts(y) else 0
    except AssertionError:
        c = 2

    def flat(m):
        return {area: [v for t in r.ranges for v in t] for area, r in m.regions.items()}
    return [c], (flat(x.accesses[0]), flat(x.accesses[1])), (x, y)


def ma_oracle(adds_x, adds_y):
    def bytes_of(adds, w):
        return {(area, a) for ww, area, s, e in adds if ww == w for a in range(s, e)}
    rx, wx, ry, wy = bytes_of(adds_x, 0), bytes_of(adds_x, 1), bytes_of(adds_y, 0), bytes_of(adds_y, 1)
    return 1 if (wx & ry) or (rx & wy) or (wx & wy) else 0


def parse_mrs(out, pos):
    n = out[pos]
    pos += 1
    d = {}
    for _ in range(n):
        area, k = out[pos], out[pos + 1]
        d[area] = out[pos + 2: pos + 2 + 2 * k]
        pos += 2 + 2 * k
    return d, pos


# =====================================================================================================================
# (a3) calc_blockdep
def mk_fm(api, h, w, d, region, addr, layout="NHWC", bits=8, tiles=None, strides=None):
    f = api.NpuFeatureMap()
    f.data_type = {8: api.NpuDataType.INT8, 16: api.NpuDataType.INT16, 32: api.NpuDataType.INT32}[bits]
    f.shape = api.NpuShape3D(height=h, width=w, depth=d)
    if tiles is None:
        f.tiles = api.NpuTileBox(height_0=h, height_1=h, width_0=w, addresses=[addr, 0, 0, 0])
    else:
        f.tiles = api.NpuTileBox(height_0=tiles[0], height_1=tiles[1], width_0=tiles[2], addresses=list(tiles[3]))
    f.region = region
    f.layout = api.NpuLayout.NHCWB16 if layout == "NHCWB16" else api.NpuLayout.NHWC
    f.quantization = api.NpuQuantization(scale_f32=0.5, zero_point=0)
    f.strides = None if strides is None else api.NpuShape3D(height=strides[0], width=strides[1], depth=strides[2])
    return f


def flat_fm(f):
    if f is None:
        return [0] * 17
    st = f.strides
    return [f.region, f.shape.height, f.shape.width, f.shape.depth, f.tiles.height_0, f.tiles.height_1, f.tiles.width_0] + \
        list(f.tiles.addresses) + [1 if f.layout.name == "NHCWB16" else 0, f.data_type.size_in_bytes(),
                                   0 if st is None else 1] + ([0, 0, 0] if st is None else [st.height, st.width, st.depth])


def uses_lut(api, op):
    return op.activation is not None and op.activation.op_type == api.NpuActivationOp.TABLE_LOOKUP


def flat_blockdep_case(api, arch, prev, cur):
    from ethosu.vela.architecture_features import ArchitectureFeatures
    from ethosu.vela.register_command_stream_util import has_ifm2
    a = [ArchitectureFeatures.MAX_BLOCKDEP, arch.ifm_ublock.width, arch.ifm_ublock.height, arch.ifm_ublock.depth,
         arch.shram_reserved_unused_banks, 0 if prev is None else 1]
    if prev is None:
        a += [0] * 17 + [0, 1, 1, 1]
    else:
        a += flat_fm(prev.ofm) + [int(uses_lut(api, prev)), prev.block_config.height, prev.block_config.width, prev.block_config.depth]
    k = cur.kernel
    p = cur.padding
    a += [int(cur.op_type == api.NpuOperationType.Conv2D), cur.ifm.data_type.size_in_bits()] + flat_fm(cur.ifm)
    a += [int(has_ifm2(cur))] + flat_fm(cur.ifm2 if has_ifm2(cur) else None)
    a += [cur.ofm.shape.height, cur.ofm.shape.width, cur.ofm.shape.depth, int(uses_lut(api, cur)),
          cur.block_config.height, cur.block_config.width, cur.block_config.depth]
    a += [1, 1, 1, 1, 1, 1] if k is None else [k.width, k.height, k.stride_x, k.stride_y, k.dilation_x, k.dilation_y]
    a += [0, 0, 0, 0] if p is None else [p.top, p.left, p.bottom, p.right]
    return a


def gen_blockdep_pair(rng, api):
    """(prev, cur): cur mostly consumes (a view of) prev's OFM"""
    bits = rng.choice([8, 8, 8, 16])
    lay = rng.choice(["NHWC", "NHCWB16", "NHCWB16"])
    oh, ow = rng.choice([1, 2, 3, 4, 6, 8, 13]), rng.choice([1, 2, 4, 8, 16, 24, 48])
    od = rng.choice([1, 3, 8, 16, 24, 32, 48, 64])
    paddr = rng.choice([0, 0x400, 0x6480])
    tiles = None
    if rng.random() < 0.15 and oh > 1:
        h0 = rng.randint(1, oh - 1)
        tiles = (h0, h0, ow, [paddr, 0, paddr + 0x8000, 0])
    pofm = mk_fm(api, oh, ow, od, 1, paddr, lay, bits, tiles)
    kindp = rng.choice(["conv", "pool", "ew"])
    prev = {"conv": api.NpuConv2DOperation, "pool": lambda: api.NpuPoolingOperation(api.NpuPoolingOp.MAX),
            "ew": lambda: api.NpuElementWiseOperation(api.NpuElementWiseOp.ABS)}[kindp]()
    prev.ifm = mk_fm(api, oh, ow, od, 1, 0x40000, lay, bits)
    prev.ofm = pofm
    prev.kernel = api.NpuKernel(1, 1)
    prev.block_config = api.NpuShape3D(height=rng.choice([1, 2, 4, 8]), width=rng.choice([1, 2, 4, 8, 16]),
                                       depth=rng.choice([4, 8, 16, 32]))
    if rng.random() < 0.15:
        prev.activation = api.NpuActivation(api.NpuActivationOp.TABLE_LOOKUP)
    kind = rng.choice(["conv", "conv", "depthwise", "pool", "ew_add", "ew_abs"])
    mode = rng.choice(["same", "same", "stripe", "stripe", "consume_part", "ifm2", "disjoint", "other_layout"])
    k = api.NpuKernel(1, 1)
    pad = api.NpuPadding(0, 0, 0, 0)
    if kind in ("conv", "depthwise", "pool"):
        kw, kh = rng.choice([1, 1, 2, 3, 5]), rng.choice([1, 1, 2, 3, 5])
        sx, sy = rng.choice([1, 1, 2, 3]), rng.choice([1, 1, 2, 3])
        k = api.NpuKernel(kw, kh, sx, sy, rng.choice([1, 1, 2]), rng.choice([1, 1, 2]))
        pad = api.NpuPadding(top=rng.choice([0, 0, 1, 2]), left=rng.choice([0, 0, 1, 2]), bottom=rng.choice([0, 1, 2]),
                             right=rng.choice([0, 0, 1, 2]))
    # the consumer's IFM
    if mode == "same":
        ifm = pofm if rng.random() < 0.5 else mk_fm(api, oh, ow, od, 1, paddr, lay, bits, tiles)
    elif mode == "stripe":      # a row window of prev's OFM (addresses inside it, other shape)
        y0 = rng.randint(0, oh - 1)
        hh = rng.randint(1, oh - y0)
        probe = mk_fm(api, oh, ow, od, 1, paddr, lay, bits)
        from ethosu.vela.register_command_stream_util import get_strides
        st = get_strides(probe)
        ifm = mk_fm(api, hh, ow, od, 1, paddr + y0 * st.height, lay, bits)
    elif mode == "consume_part":   # prev's OFM is one tile of a larger IFM
        hh = oh + rng.randint(1, 3)
        ifm = mk_fm(api, hh, ow, od, 1, 0, lay, bits, (hh - oh, hh - oh, ow, [0x7680 + 0x20000, 0, paddr, 0]))
    elif mode == "disjoint":
        ifm = mk_fm(api, oh, ow, od, 1, paddr + 0x100000, lay, bits)
    elif mode == "other_layout":
        ifm = mk_fm(api, oh, ow, od, 1, paddr + rng.choice([0, 16, 64]), "NHWC" if lay != "NHWC" else "NHCWB16", bits)
    else:
        ifm = mk_fm(api, oh, ow, od, 1, 0x80000, lay, bits)
    cur = {"conv": api.NpuConv2DOperation, "depthwise": api.NpuConvDepthWiseOperation,
           "pool": lambda: api.NpuPoolingOperation(api.NpuPoolingOp.MAX),
           "ew_add": lambda: api.NpuElementWiseOperation(api.NpuElementWiseOp.ADD),
           "ew_abs": lambda: api.NpuElementWiseOperation(api.NpuElementWiseOp.ABS)}[kind]()
    cur.ifm = ifm
    if kind == "ew_add":
        if mode == "ifm2":
            cur.ifm2 = pofm if rng.random() < 0.7 else mk_fm(api, 1, 1, od, 1, paddr, lay, bits)
        elif rng.random() < 0.3:
            cur.ifm2 = pofm
        else:
            cur.ifm2 = mk_fm(api, ifm.shape.height, ifm.shape.width, ifm.shape.depth, 1, 0xC0000, lay, bits)
        if rng.random() < 0.1:
            cur.ifm2_scalar = 1.0
    ih, iw = ifm.shape.height, ifm.shape.width
    if kind in ("conv", "depthwise", "pool"):
        dkh, dkw = (k.height - 1) * k.dilation_y + 1, (k.width - 1) * k.dilation_x + 1
        coh = max(1, (ih + pad.top + pad.bottom - dkh) // k.stride_y + 1)
        cow = max(1, (iw + pad.left + pad.right - dkw) // k.stride_x + 1)
        cod = rng.choice([8, 16, 32]) if kind == "conv" else ifm.shape.depth
        cur.kernel = k
        cur.padding = pad if rng.random() < 0.9 else None
    else:
        coh, cow, cod = ih, iw, ifm.shape.depth
    cur.ofm = mk_fm(api, coh, cow, cod, 1, 0x200000, lay, bits)
    cur.block_config = api.NpuShape3D(height=rng.choice([1, 2, 4, 8]), width=rng.choice([1, 2, 4, 8, 16]),
                                      depth=rng.choice([4, 8, 16, 32]))
    if rng.random() < 0.12:
        cur.activation = api.NpuActivation(api.NpuActivationOp.TABLE_LOOKUP)
    return prev, cur, (kindp, kind, mode, lay, bits)


def blockdep_oracle(arch, prev, cur, k):
    """blockdep_sound on the implementation: for all f, b with f + b < k the real first-job input volume f and
    the real previous output volume b (when both exist) must not `intersects`"""
    from ethosu.vela import register_command_stream_util as u
    from ethosu.vela.api import NpuPadding
    if k <= 0:
        return None
    prev_ranges = u.get_address_ranges(prev.ofm)
    ifm_ov = u.range_lists_overlap(prev_ranges, u.get_address_ranges(cur.ifm))
    ifm2_ov = u.has_ifm2(cur) and u.range_lists_overlap(prev_ranges, u.get_address_ranges(cur.ifm2))
    if not ifm_ov and not ifm2_ov:
        return None          # no (bounding-range) overlap at all: nothing to separate
    fm = cur.ifm if ifm_ov else cur.ifm2
    depth = u.get_ifm_ofm_block_depth(arch, cur)
    bc, pbc = cur.block_config, prev.block_config
    pad = NpuPadding(0, 0, 0, 0) if cur.padding is None else cur.padding
    for f in range(k):
        ia = u.get_first_job_input_volume(arch, u.shape3d_to_rect(cur.ifm.shape), u.shape3d_to_rect(cur.ofm.shape), depth,
                                          u.Block(bc.width, bc.height, bc.depth), u.to_kernel(cur.kernel), pad, f)
        if ia is None:
            break
        for b in range(k - f):
            oa = u.get_prev_job_output_volume(u.shape3d_to_rect(prev.ofm.shape), u.Block(pbc.width, pbc.height, pbc.depth), b)
            if oa is None:
                break
            if u.intersects(fm, ia[0], ia[1], prev.ofm, oa[0], oa[1]):
                return "BLOCKDEP %d but job %d of the consumer intersects the %d-th last block of the producer" % (k, f, b)
    return None


# =====================================================================================================================
# (b) random op lists through the public generator
TILE_POOL = [0x30000, 0x31000, 0x32000, 0x33000]


def rand_tiles(rng, base, H, W, slots):
    """None (one tile) or (height_0, height_1, width_0, addresses) using 2, 3 or 4 tiles; the extra tiles live in
    a small pool of addresses that DMAs and other operations also use"""
    r = rng.random()
    if r < 0.55 or (H < 2 and W < 2):
        return None
    pool = TILE_POOL + slots
    a = [base] + [rng.choice(pool) for _ in range(3)]
    kind = rng.choice(["v", "v", "h", "4", "013", "012"])
    if kind == "v" and H >= 2:
        h0 = rng.randint(1, H - 1)
        return (h0, h0, W, [a[0], 0, a[2], 0])
    if kind == "h" and W >= 2:
        return (H, H, rng.randint(1, W - 1), [a[0], a[1], 0, 0])
    if H >= 2 and W >= 2:
        w0 = rng.randint(1, W - 1)
        if kind == "4":
            return (rng.randint(1, H - 1), rng.randint(1, H - 1), w0, a)
        if kind == "013":       # left column one tile, right column split
            return (H, rng.randint(1, H - 1), w0, [a[0], a[1], 0, a[3]])
        if kind == "012":       # left column split, right column one tile
            return (rng.randint(1, H - 1), H, w0, [a[0], a[1], a[2], 0])
    return None


def tiles_013(f):
    """feature map that uses tile 3 without tile 2 (width > width_0, height > height_1, height <= height_0)"""
    return f is not None and f.shape.width > f.tiles.width_0 and f.shape.height > f.tiles.height_1 and \
        f.shape.height <= f.tiles.height_0


def tile3_is_cause(api, arch, op_i, op_o):
    """True when the real conflict test misses the pair only because get_address_ranges leaves out tile 3 of an operand
    that uses tiles 0, 1 and 3: with the tile-3 range added to the real access sets, conflicts() answers True"""
    from ethosu.vela import register_command_stream_util as u
    from ethosu.vela.range_set import AccessDirection

    def acc(op):
        if isinstance(op, api.NpuDmaOperation):
            return u.get_dma_memory_accesses(op), False
        m = u.get_op_memory_accesses(op, arch)
        added = False
        for f, direction in ((op.ifm, AccessDirection.Read), (op.ifm2 if u.has_ifm2(op) else None, AccessDirection.Read),
                             (op.ofm, AccessDirection.Write)):
            if tiles_013(f):
                r = u.get_address_range(f, u.get_strides(f), f.tiles.height_1, f.tiles.width_0, 0, f.shape.height - 1,
                                        f.shape.width - 1, f.shape.depth - 1)
                m.add(u.memory_range_set(r), direction)
                added = True
        return m, added
    try:
        plain = [u.get_dma_memory_accesses(o) if isinstance(o, api.NpuDmaOperation) else u.get_op_memory_accesses(o, arch)
                 for o in (op_i, op_o)]
        if plain[0].conflicts(plain[1]):
            return False
        (mi, ai), (mo, ao) = acc(op_i), acc(op_o)
        return (ai or ao) and bool(mi.conflicts(mo))
    except Exception:
        return False


def tile3_blockdep_cause(api, arch, A, B):
    """True when calc_blockdep(A, B) becomes smaller once get_address_ranges reports tile 3 of operands that use tiles
    0, 1 and 3 (the module attribute is replaced for the duration of this one call and restored)"""
    from ethosu.vela import register_command_stream_util as u
    orig = u.get_address_ranges

    def fixed(fm):
        r = orig(fm)
        if tiles_013(fm):
            r = list(r)
            r[3] = u.get_address_range(fm, u.get_strides(fm), fm.tiles.height_1, fm.tiles.width_0, 0, fm.shape.height - 1,
                                       fm.shape.width - 1, fm.shape.depth - 1)
        return r
    try:
        k0 = u.calc_blockdep(arch, A, B)
        u.get_address_ranges = fixed
        try:
            k1 = u.calc_blockdep(arch, A, B)
        finally:
            u.get_address_ranges = orig
        return k1 < k0
    except Exception:
        u.get_address_ranges = orig
        return False


def gen_oplist(rng, api, acc, arch):
    """a list of DMA + block operations over few shared buffers; returns (ops, description)"""
    from ethosu.vela.register_command_stream_util import BASE_PTR_INDEX_MEM2MEM
    n = rng.choice([2, 3, 4, 5, 6, 8, 12])
    lay = rng.choice(["NHWC", "NHCWB16"])
    slots = [0x0, 0x4000, 0x8000, 0x10000, 0x18000, 0x20000]
    wslots = [0x40000, 0x40400, 0x40800]
    h, w, d = rng.choice([(4, 8, 16), (8, 8, 8), (6, 10, 32), (3, 16, 16), (16, 16, 16), (5, 7, 24), (12, 2, 16), (9, 3, 8), (24, 4, 8)])
    ops, desc = [], []
    lut_addr = arch.shram_lut_address
    tiled = rng.random() < 0.5

    def fm_at(slot, hh=h, ww=w, dd=d, tiles=None):
        return mk_fm(api, hh, ww, dd, 1, slot, lay, 8, tiles)

    def tl(slot, hh, ww):
        return rand_tiles(rng, slot, hh, ww, slots) if tiled else None

    last_ofm = None
    for i in range(n):
        kind = rng.choice(["dma_w", "dma_fm", "dma_fm", "dma_lut", "conv", "conv", "dw", "pool", "ew", "ew2"])
        if kind == "dma_w":
            dst = rng.choice(wslots)
            ops.append(api.NpuDmaOperation(api.NpuAddressRange(0, rng.choice([0, 0x400, 0x800]), 0x200),
                                           api.NpuAddressRange(1, dst, 0x200)))
            desc.append("dma_w->%#x" % dst)
        elif kind == "dma_fm":
            src, dst = rng.sample(slots + (TILE_POOL if tiled else []), 2)
            ln = 16 * rng.choice([1, 8, 64, h * w * d // 16 or 1])
            ops.append(api.NpuDmaOperation(api.NpuAddressRange(1, src, ln), api.NpuAddressRange(1, dst, ln)))
            desc.append("dma_fm %#x->%#x len %d" % (src, dst, ln))
        elif kind == "dma_lut":
            slot = rng.randrange(0, 8)
            ops.append(api.NpuDmaOperation(api.NpuAddressRange(0, 0x1000, 256),
                                           api.NpuAddressRange(BASE_PTR_INDEX_MEM2MEM, lut_addr + 256 * slot, 256)))
            desc.append("dma_lut%d" % slot)
        else:
            src = last_ofm if (last_ofm is not None and rng.random() < 0.6) else rng.choice(slots)
            dst = rng.choice([s for s in slots if s != src] if rng.random() < 0.9 else slots)
            if kind == "conv":
                op = api.NpuConv2DOperation()
                op.block_traversal = api.NpuBlockTraversal.DEPTH_FIRST
            elif kind == "dw":
                op = api.NpuConvDepthWiseOperation()
            elif kind == "pool":
                op = api.NpuPoolingOperation(rng.choice([api.NpuPoolingOp.MAX, api.NpuPoolingOp.AVERAGE]))
            elif kind == "ew":
                op = api.NpuElementWiseOperation(api.NpuElementWiseOp.ABS)
            else:
                op = api.NpuElementWiseOperation(rng.choice([api.NpuElementWiseOp.ADD, api.NpuElementWiseOp.MUL]))
            if kind in ("conv", "dw", "pool"):
                kk = rng.choice([(1, 1, 1, 1), (3, 3, 1, 1), (3, 3, 2, 2), (2, 2, 2, 2), (1, 3, 1, 1)])
                kw, kh, sx, sy = kk
                pt, pl = rng.choice([0, (kh - 1) // 2]), rng.choice([0, (kw - 1) // 2])
                pb, pr = rng.choice([0, kh // 2]), rng.choice([0, kw // 2])
                oh = (h + pt + pb - kh) // sy + 1
                ow = (w + pl + pr - kw) // sx + 1
                if oh < 1 or ow < 1:
                    kw = kh = sx = sy = 1
                    pt = pl = pb = pr = 0
                    oh, ow = h, w
                # the IFM extent the hardware derives from the OFM size must be the declared IFM size
                ih = (oh - 1) * sy + kh - pt - pb
                iw = (ow - 1) * sx + kw - pl - pr
                op.kernel = api.NpuKernel(kw, kh, sx, sy)
                op.padding = api.NpuPadding(top=pt, left=pl, bottom=pb, right=pr)
                od = rng.choice([8, 16]) if kind == "conv" else d
                op.ifm = fm_at(src, ih, iw, d, tl(src, ih, iw))
                op.ofm = fm_at(dst, oh, ow, od, tl(dst, oh, ow))
                t_ = op.ifm.tiles
                if tiled and t_.width_0 == iw and t_.height_0 < ih and rng.random() < 0.7:
                    # a producer that has just written one of the two row tiles of this IFM (rolling-buffer pattern)
                    upper = rng.random() < 0.5
                    ph = t_.height_0 if upper else ih - t_.height_0
                    prod = api.NpuElementWiseOperation(api.NpuElementWiseOp.ABS)
                    prod.ifm = fm_at(rng.choice(slots), ph, iw, d)
                    prod.ofm = fm_at(t_.addresses[0] if upper else t_.addresses[2], ph, iw, d)
                    try:
                        pc = api.npu_find_block_configs(prod, acc)
                        prod.block_config = rng.choice(pc[:6])
                        ops.append(prod)
                        desc.append("producer of %s tile: ew ->%#x (%d rows) blk %s" % ("upper" if upper else "lower", prod.ofm.tiles.addresses[0], ph,
                                                                                   tuple(prod.block_config)))
                    except Exception:
                        pass
                if kind in ("conv", "dw"):
                    wa = rng.choice(wslots)
                    op.weights = [api.NpuAddressRange(1, wa, 0x100)] * arch.ncores
                    op.biases = [api.NpuAddressRange(1, wa + 0x100, 0x100)] * arch.ncores
            else:
                op.ifm = fm_at(src, tiles=tl(src, h, w))
                op.ofm = fm_at(dst, tiles=tl(dst, h, w))
                if kind == "ew2":
                    s2 = rng.choice(slots)
                    op.ifm2 = fm_at(s2, tiles=tl(s2, h, w))
            if rng.random() < 0.25:
                op.activation = api.NpuActivation(api.NpuActivationOp.TABLE_LOOKUP)
                op.activation.lookup_table_index = rng.randrange(0, 8)
            try:
                cfgs = api.npu_find_block_configs(op, acc)
            except Exception:
                continue
            op.block_config = rng.choice(cfgs[:8] if rng.random() < 0.6 else cfgs)
            ops.append(op)
            last_ofm = dst
            t3 = any(tiles_013(f) for f in (op.ifm, op.ifm2, op.ofm))
            desc.append("%s %#x->%#x%s%s%s" % (kind, src, dst, " lut" if op.activation else "",
                                             (" k%s pad%s blk%s" % ((op.kernel.width, op.kernel.height, op.kernel.stride_x, op.kernel.stride_y),
                                                                    tuple(op.padding), tuple(op.block_config))) if op.kernel else " blk%s" % (tuple(op.block_config),),
                                           " tiles(ifm %s ofm %s)%s" % (tuple(op.ifm.tiles), tuple(op.ofm.tiles), " [tiles 0,1,3]" if t3 else "")
                                           if tiled else ""))
    return ops, desc


def corpus_oplists(api, arch_of):
    """fixed op lists run first: the witness of the repaired get_address_ranges defect (must now get its DMA_WAIT) and the
    wait tests of the repository's suite"""
    out = []
    acc = api.NpuAccelerator.Ethos_U55_128
    op = api.NpuPoolingOperation(api.NpuPoolingOp.MAX)
    op.ifm = mk_fm(api, 8, 8, 16, 1, 0, "NHWC", 8, tiles=(8, 4, 4, [0x0, 0x1000, 0, 0x2000]))
    op.ofm = mk_fm(api, 8, 8, 16, 1, 0x8000, "NHWC", 8)
    op.kernel = api.NpuKernel(1, 1)
    op.padding = api.NpuPadding(0, 0, 0, 0)
    op.block_config = api.npu_find_block_configs(op, acc)[0]
    dma = api.NpuDmaOperation(api.NpuAddressRange(0, 0, 0x100), api.NpuAddressRange(1, 0x2000, 0x100))
    out.append((acc, [dma, op], ["corpus:tile3_witness", "dma 0->0x2000 len 256", "pool 0x0->0x8000 ifm tiles (8,4,4,[0,0x1000,0,0x2000]) [tiles 0,1,3]"]))
    try:
        from ethosu.vela.test.extapi import test_extapi_generate_commands as tx
        conv, dmas = tx.setup_memory_barrier_tests()
        for a in (api.NpuAccelerator.Ethos_U55_64, api.NpuAccelerator.Ethos_U65_256):
            out.append((a, [dmas[0], conv[0], dmas[1], conv[1], dmas[2], conv[2], dmas[3], conv[3]], ["suite: dma/conv x4"]))
            out.append((a, [conv[0], conv[1], dmas[0]], ["suite: conv conv dma0"]))
            out.append((a, [dmas[0], dmas[1], conv[0], conv[1]], ["suite: dma dma conv conv"]))
    except Exception:
        pass
    return out


def accesses_case(api, op, arch):
    """(flat model case, real access set as ({area: ranges}, {area: ranges})) of get_op_memory_accesses / get_dma_memory_accesses"""
    from ethosu.vela import register_command_stream_util as u
    if isinstance(op, api.NpuDmaOperation):
        real = u.get_dma_memory_accesses(op)
        case = [0, 1, op.src.region, op.src.address, op.src.length, 0, 1, op.dest.region, op.dest.address, op.dest.length]
    else:
        real = u.get_op_memory_accesses(op, arch)
        rf = [op.ifm] + ([op.ifm2] if u.has_ifm2(op) else [])
        rr = [tuple(r) for r in list(op.weights) + list(op.biases)]
        lut = op.activation is not None and op.activation.op_type == api.NpuActivationOp.TABLE_LOOKUP
        if lut:
            rr.append((u.BASE_PTR_INDEX_MEM2MEM, arch.available_shram_banks(True) * arch.shram_bank_size, 2048))
        wr = [(u.BASE_PTR_INDEX_MEM2MEM, 0, arch.available_shram_banks(lut) * arch.shram_bank_size)]
        case = [len(rf)] + [v for f in rf for v in flat_fm(f)] + [len(rr)] + [v for r in rr for v in r] + \
            [1] + flat_fm(op.ofm) + [len(wr)] + [v for r in wr for v in r]

    def flat(m):
        return {area: [v for t in r.ranges for v in t] for area, r in m.regions.items()}
    return case, (flat(real.accesses[0]), flat(real.accesses[1]))


def fm_bytes(f):
    """exact byte set of an API feature map (independent address arithmetic: tile, strides, bricks)"""
    e = f.data_type.size_in_bytes()
    H, W, D = f.shape
    if f.strides is not None:
        sy, sx, sc = f.strides.height, f.strides.width, f.strides.depth
    elif f.layout.name == "NHWC":
        sc, sx, sy = e, D * e, W * D * e
    else:
        sx = 16 * e
        sc = sx * W
        sy = e * W * ((D + 15) // 16 * 16)
    t = f.tiles
    out = set()
    for y in range(H):
        for x in range(W):
            if x >= t.width_0:
                base, ly, lx = (t.addresses[3], y - t.height_1, x - t.width_0) if y >= t.height_1 else (t.addresses[1], y, x - t.width_0)
            else:
                base, ly, lx = (t.addresses[2], y - t.height_0, x) if y >= t.height_0 else (t.addresses[0], y, x)
            for c in range(D):
                if f.layout.name == "NHWC":
                    a = base + ly * sy + lx * sx + c * e
                else:
                    a = base + ly * sy + lx * 16 * e + (c // 16) * sc + (c % 16) * e
                for k in range(e):
                    out.add((f.region, a + k))
    return out


def op_bytes(api, op, arch):
    """(reads, writes) as byte sets (region, address) of an API operation; SHRAM region 259"""
    rd, wr = set(), set()

    def rng_bytes(r):
        return {((259 if r.region >= 256 else r.region), a) for a in range(r.address, r.address + r.length)}
    if isinstance(op, api.NpuDmaOperation):
        return rng_bytes(op.src), {(p[0], p[1]) for p in rng_bytes(api.NpuAddressRange(op.dest.region, op.dest.address, op.src.length))}
    rd |= fm_bytes(op.ifm)
    if op.ifm2 is not None and op.ifm2_scalar is None:
        rd |= fm_bytes(op.ifm2)
    for r in list(op.weights) + list(op.biases):
        rd |= rng_bytes(r)
    lut = op.activation is not None and op.activation.op_type == api.NpuActivationOp.TABLE_LOOKUP
    if lut:
        i = op.activation.lookup_table_index
        ln = 256 if op.ifm.data_type.size_in_bytes() == 1 else 2048 - 256 * i
        rd |= {(259, a) for a in range(arch.shram_lut_address + 256 * i, arch.shram_lut_address + 256 * i + ln)}
    wr |= fm_bytes(op.ofm)
    top = arch.shram_lut_address if lut else arch.available_shram_banks(False) * arch.shram_bank_size
    wr |= {(259, a) for a in range(0, top, 64)} | {(259, top - 1)}     # sparse marker bytes of the accumulator area
    return rd, wr


def stream_oracle(api, ops, arch, sw):
    """cross-queue property on the implementation's stream: sw = per op [is_dma, blockdep, [(code, n)...waits before it]]
    (decoded words); pessimistic replay with exact byte sets of the API operations"""
    md, mk = hw_limits(arch.is_ethos_u65_system)
    pk, pd = [], []
    foot = [op_bytes(api, op, arch) for op in ops]
    for i, (isdma, _bd, waits) in enumerate(sw):
        for code, n in waits:
            if code == 18:      # KERNEL_WAIT
                pk = pk[len(pk) - n:] if n else []
            else:
                pd = pd[len(pd) - n:] if n else []
        other = pk if isdma else pd
        ri, wi = foot[i]
        for o in other:
            ro, wo = foot[o]
            # the accumulator marker bytes are sparse: test SHRAM ranges exactly by interval, the rest by set
            if (wi & ro) or (ri & wo) or (wi & wo):
                return ("operation %d issued while operation %d of the other queue, which shares bytes with it (RAW/WAR/WAW), may be "
                        "unfinished" % (i, o)), (i, o)
        if isdma:
            pd = (pd + [i])[-md:]
        else:
            pk = (pk + [i])[-mk:]
    return None, None


def parse_stream_waits(out):
    if out[0] != 1:
        return None
    res, pos = [], 1
    while pos < len(out):
        isdma, bd, nw = out[pos], out[pos + 1], out[pos + 2]
        ws = [(out[pos + 3 + 2 * j], out[pos + 4 + 2 * j]) for j in range(nw)]
        res.append((isdma, bd, ws))
        pos += 3 + 2 * nw
    return res


def explain_blockdep(case, op_index):
    """what the validator saw for a rejected BLOCKDEP: the pair A ; B, B's register facts and the clashing (job, block) pairs
    (CMD blockdep_explain of build/waits).  Returns (facts for the violation key, detail dict)."""
    o = models.run("blockdep_explain", [case[:5] + [op_index] + case[5:]], exe_name=EXE)[0]
    if o[0] != 1:
        return {}, {"explain": o}
    vn = ["region", "base0", "base1", "base2", "base3", "height_0", "height_1", "width_0", "stride_x", "stride_y", "stride_c", "elem",
          "nhcwb16", "height", "width", "depth"]
    kind = {2: "CONV", 3: "DEPTHWISE", 5: "POOL", 6: "ELEMENTWISE"}
    d = {"A": {"op": kind.get(o[1], o[1]), "ofm_block_config(h,w,d)": o[8:11], "n_blocks": o[4], "ofm": dict(zip(vn, o[14:30]))},
         "B": {"op": kind.get(o[2], o[2]), "BLOCKDEP": o[3], "ofm_block_config(h,w,d)": o[11:14], "n_jobs": o[5], "ifm_depth_slices": o[6],
               "ifm_read": dict(zip(vn, o[30:46])), "uses_ifm2": o[46], "ifm2_read": dict(zip(vn, o[47:63]))},
         "operation_level_clash(weights over OFM / LUT overwritten)": bool(o[7])}
    pt, pl, pb, pr, sy, sx, kh, kw, up = o[63:72]
    d["B"].update({"pad(top,left,bottom,right)": [pt, pl, pb, pr], "stride(y,x)": [sy, sx], "dilated_kernel(h,w)": [kh, kw], "upscale": up})
    pairs = []
    p = 72
    while p + 27 <= len(o):
        f, b, cl = o[p:p + 3]
        if cl:
            pairs.append({"job_f_of_B": f, "b_th_last_block_of_A": b,
                          "A_block_box[y0,y1,x0,x1,c0,c1)": o[p + 3:p + 9], "B_ofm_block_box": o[p + 9:p + 15],
                          "B_ifm_box_read": o[p + 15:p + 21], "B_ifm2_box_read": o[p + 21:p + 27] if o[46] else None})
        p += 27
    d["clashing_pairs(f+b<BLOCKDEP and a byte of A's block is read by B's job)"] = pairs
    iv = d["B"]["ifm_read"]
    # the view is larger than the tile sizes can partition and tile bases coincide: one stored byte is read at two positions
    aliased = (iv["height_0"] < iv["height"] and iv["base2"] in (iv["base0"], iv["base0"] + (iv["height_0"] - 1) * iv["stride_y"])) or \
              (iv["width_0"] < iv["width"] and iv["base1"] in (iv["base0"], iv["base0"] + (iv["width_0"] - 1) * 16 * iv["elem"]))
    facts = {"b_pad_top_ne_right": bool(pt != pr), "b_ifm_tiles_alias": bool(aliased)}
    return facts, d


def hw_limits(u65):
    """(max outstanding DMA, max outstanding kernel operations) of the HARDWARE, pinned here as the property text's "both U55
    and U65 outstanding limits" (trusted hardware fact; equal to ArchitectureFeatures.max_outstanding_* of the unchanged tree).
    The compiler's own belief is introspected into gen/GenTables.v; if it drops below these, hazards become possible."""
    return (2, 2) if u65 else (1, 2)


def hz_args(row):
    """ncores lut_addr shram_usable max_dma max_kern for the validator; structural constants from the accelerator row of
    gen/GenTables.v, the outstanding limits from the pinned hardware table"""
    md, mk = hw_limits(row["a_u65"])
    return [row["a_ncores"], row["a_lut_address"], row["a_total_banks"] * row["a_bank_size"], md, mk]


# =====================================================================================================================
def run(tier):
    from ethosu.vela import api
    from ethosu.vela.architecture_features import Accelerator, create_default_arch
    from ethosu.vela.register_command_stream_util import calc_blockdep
    import artefacts
    import compiles
    res = vlib.Result("C04", tier, "proof")
    t_start = time.time()
    b = vlib.build_property("C04")
    vlib.proof_coverage(res, b, [
        "coq/hw/Queues.v: the two-queue execution model (DESIGN.md section 4), MODELLED from the property text",
        "coq/hw/Npu.v footprint model and coq/hw/Hazard.v block traversal (modelled from Vela's own address and block code; "
        "not verified against silicon)",
        "extraction (ExtrOcamlBasic) + ocaml/driver.ml; the correspondence generators of tools/checks/c04.py",
        "not modelled: lru_cache on MemoryAccessSet.conflicts (C14), dict iteration order of MemoryRangeSet"])
    okx, xlog = vlib.build_extraction(EXE)
    rng = random.Random(vlib.seed())
    quick = tier == "quick"
    diffs = []        # (what, case, impl, model)
    fails = []        # (key, detail, what)  property violations with a concrete input
    stats = collections.Counter()
    nontrivial = set()
    samples = []

    # ---------------------------------------------------------------- (a1) waits
    wcases = []
    corpus = [
        (1, 2, [0, 1], [0, 1, 1, 0], [0, 1], True), (1, 2, [0, 0, 1], [0, 0, 1, 0, 0, 0, 1, 0, 0], [0, 1, 2], True),
        (2, 2, [1, 1, 1, 0], [0, 0, 0, 1, 0, 0, 0, 0, 0, 0, 0, 0, 1, 0, 0, 0], [0, 1, 2, 3], True),
        (2, 2, [1, 0, 0, 0], [0, 0, 0, 1, 0, 0, 0, 0, 0, 0, 0, 0, 1, 0, 0, 0], [0, 1, 2, 3], True),
        (1, 2, [1, 0], [1, 1, 1, 1], [0, 1, 0, 1, 0, 0, 1, 1], True),
    ]
    wcases += corpus
    for i in range(1500 if quick else 40000):
        wcases.append(gen_wait_case(rng, ["u55", "u65", "any"][i % 3]))
    wimpl = [impl_waits(*c[:5]) for c in wcases]
    for c, o in zip(wcases, wimpl):
        stats["waits_cases"] += 1
        md, mk, kinds, mat, seq, sym = c
        if any(v >= 0 for v in o[:2 * len(seq)]):
            nontrivial.add(("waits", md, mk, len(seq), sum(1 for v in o[:2 * len(seq)] if v >= 0)))
        if sym:
            why = waits_oracle(md, mk, kinds, mat, seq, o)
            stats["waits_oracle"] += 1
            if why:
                fails.append(({"kind": "waits", "max_dma": md, "max_kern": mk, "n_ops": len(seq)},
                              {"max_outstanding_dma": md, "max_outstanding_kernels": mk, "is_dma": kinds, "conflict_matrix": mat,
                               "sequence": seq, "waits": o[:2 * len(seq)], "reason": why},
                              "get_wait_dependency: " + why))
    if okx:
        wmodel = models.run("waits", [[c[0], c[1], len(c[2])] + c[2] + c[3] + c[4] for c in wcases], exe_name=EXE)
        for c, o, m in zip(wcases, wimpl, wmodel):
            if o != m:
                diffs.append(("get_wait_dependency", {"max_dma": c[0], "max_kern": c[1], "is_dma": c[2], "conflict": c[3], "seq": c[4]}, o, m))
    if wcases:
        c = wcases[len(corpus) + 7]
        samples.append({"waits_case": {"max_dma": c[0], "max_kern": c[1], "is_dma": c[2], "seq": c[4]},
                        "watermarks": wimpl[len(corpus) + 7][:2 * len(c[4])]})

    # ---------------------------------------------------------------- (a2) range sets
    rcases = [([], []), ([(0, 4)], [(4, 8)]), ([(0, 4)], [(3, 8)]), ([(0, 10), (2, 3)], [(5, 6)]), ([(0, 1), (5, 9)], [(1, 5)]),
              ([(0, 4), (0, 4)], [(0, 4)]), ([(1, 2)], [(1, 1)]), ([(3, 3)], [(3, 5)]), ([(5, 6), (0, 10)], [(7, 8)])]
    for i in range(2500 if quick else 60000):
        wf = rng.random() < 0.85
        rcases.append((gen_ranges(rng, wf), gen_ranges(rng, wf)))
    rimpl = [impl_rs_intersects(a, bb) for a, bb in rcases]
    oimpl = [impl_rs_or(a, bb) for a, bb in rcases]
    for (a, bb), r in zip(rcases, rimpl):
        stats["rangeset_cases"] += 1
        wf = all(s < e for s, e in a + bb) and a == sorted(a, key=lambda t: t[0]) and bb == sorted(bb, key=lambda t: t[0])
        if wf:
            if len(a) > 1 and len(bb) > 1:
                nontrivial.add(("rs", len(a), len(bb), r))
            if r != rs_oracle(a, bb):
                fails.append(({"kind": "rangeset", "na": len(a), "nb": len(bb)}, {"a": a, "b": bb, "intersects": r, "required": rs_oracle(a, bb)},
                              "RangeSet.intersects returned %d for range sets whose true intersection is %d" % (r, rs_oracle(a, bb))))
    if okx:
        enc = [[len(a)] + [v for t in a for v in t] + [len(bb)] + [v for t in bb for v in t] for a, bb in rcases]
        for (a, bb), r, m in zip(rcases, rimpl, models.run("rs_intersects", enc, exe_name=EXE)):
            if [r] != m:
                diffs.append(("RangeSet.intersects", {"a": a, "b": bb}, r, m))
        for (a, bb), r, m in zip(rcases, oimpl, models.run("rs_or", enc, exe_name=EXE)):
            if all(s < e for s, e in a) and r != m:
                diffs.append(("RangeSet.__or__", {"a": a, "b": bb}, r, m))
    mcases = [([(1, 1, 0, 8)], [(0, 1, 4, 12)]), ([(1, 1, 0, 8)], [(0, 2, 4, 12)]), ([(0, 1, 0, 8)], [(0, 1, 0, 8)]),
              ([(1, 259, 0, 16)], [(1, 259, 8, 9)]), ([(1, 1, 0, 8), (1, 1, 8, 16)], [(0, 1, 15, 16)]), ([(1, 1, 5, 4)], [])]
    for i in range(1500 if quick else 40000):
        mcases.append((gen_adds(rng), gen_adds(rng)))
    mimpl = [impl_ma(x, y) for x, y in mcases]
    for (x, y), (c, flat, _o) in zip(mcases, mimpl):
        stats["accessset_cases"] += 1
        if c[0] in (0, 1):
            if len(x) > 1 and len(y) > 1:
                nontrivial.add(("ma", len(x), len(y), c[0]))
            want = ma_oracle(x, y)
            if c[0] != want:
                fails.append(({"kind": "conflicts", "nx": len(x), "ny": len(y)}, {"x_adds(write,area,start,end)": x, "y_adds": y, "conflicts": c[0], "required": want},
                              "MemoryAccessSet.conflicts returned %d, a shared written byte %s" % (c[0], "exists" if want else "does not exist")))
            from ethosu.vela.range_set import MemoryAccessSet  # symmetry on the implementation
            if _o is not None:
                try:
                    back = 1 if MemoryAccessSet.conflicts.__wrapped__(_o[1], _o[0]) else 0
                except AssertionError:
                    back = 2
                if back != c[0]:
                    fails.append(({"kind": "conflicts_sym"}, {"x": x, "y": y, "xy": c[0], "yx": back}, "MemoryAccessSet.conflicts is not symmetric"))
    if okx:
        enc = [[len(x)] + [v for t in x for v in t] + [len(y)] + [v for t in y for v in t] for x, y in mcases]
        for (x, y), (c, flat, _o), m in zip(mcases, mimpl, models.run("ma_conflicts", enc, exe_name=EXE)):
            if m[:1] != c:
                diffs.append(("MemoryAccessSet.conflicts", {"x": x, "y": y}, c, m[:1]))
            elif flat is not None:
                rd, pos = parse_mrs(m, 1)
                wr, pos = parse_mrs(m, pos)
                if (rd, wr) != flat:
                    diffs.append(("MemoryAccessSet.add / MemoryRangeSet.__or__", {"x": x}, flat, (rd, wr)))

    # ---------------------------------------------------------------- (a3) calc_blockdep
    accs = list(api.NpuAccelerator)
    archs = {a: create_default_arch(Accelerator.from_npu_accelerator(a)) for a in accs}
    bcases, bimpl, bmeta = [], [], []
    for i in range(1200 if quick else 30000):
        a = accs[i % len(accs)]
        prev, cur, tag = gen_blockdep_pair(rng, api)
        if i % 97 == 0:
            prev = None
        try:
            k = calc_blockdep(archs[a], prev, cur)
            r = [1, int(k)]
        except AssertionError:
            r = [0]
        except ZeroDivisionError:
            continue
        stats["blockdep_cases"] += 1
        stats["blockdep_result_%s" % (r[1] if r[0] else "assert")] += 1
        bcases.append(flat_blockdep_case(api, archs[a], prev, cur))
        bimpl.append(r)
        bmeta.append((a, tag))
        if r[0] == 1 and prev is not None:
            if 0 < r[1] < 3:
                nontrivial.add(("blockdep", tag, r[1]))
            why = blockdep_oracle(archs[a], prev, cur, r[1])
            if why:
                fails.append(({"kind": "blockdep", "tag": str(tag)}, {"case": bcases[-1], "accelerator": a.name, "blockdep": r[1], "reason": why},
                              "calc_blockdep: " + why))
    if okx and bcases:
        for c, r, m, (a, tag) in zip(bcases, bimpl, models.run("calc_blockdep", bcases, exe_name=EXE), bmeta):
            if r != m:
                diffs.append(("calc_blockdep", {"flat_case": c, "accelerator": a.name, "tag": str(tag)}, r, m))

    # ---------------------------------------------------------------- footprint_overapprox on the real code: the former defect's witness
    # (fixed in repo commit de3dc4c: get_address_ranges left out tile 3 of a feature map using tiles 0, 1 and 3) must stay covered
    from ethosu.vela.register_command_stream_util import get_address_ranges, get_address, get_strides
    wfm = mk_fm(api, 8, 8, 16, 1, 0, "NHWC", 8, tiles=(8, 4, 4, [0x0, 0x1000, 0, 0x2000]))
    wr = get_address_ranges(wfm)
    wad = get_address(wfm, get_strides(wfm), 4, 4, 0)
    stats["tile3_witness_replayed"] = 1
    if not any(r is not None and r.region == 1 and r.address <= wad < r.address + r.length for r in wr):
        fails.append(({"kind": "footprint", "defect": "get_address_ranges_omits_tile3"},
                      {"feature_map": {"shape": [8, 8, 16], "layout": "NHWC", "tiles": {"height_0": 8, "height_1": 4, "width_0": 4,
                                       "addresses": [0, 0x1000, 0, 0x2000]}},
                       "element": [4, 4, 0], "get_address": wad, "get_address_ranges": [None if r is None else list(r) for r in wr],
                       "theorem": "footprint_overapprox (coq/props/C04.v) no longer describes the code"},
                      "get_address_ranges omits tile 3 of a feature map that uses tiles 0, 1 and 3 (width > width_0, height_1 < height "
                      "<= height_0): element (4,4,0) at address %#x is in no reported range, so the conflict test cannot see it" % wad))

    # ---------------------------------------------------------------- (b) random op lists through the public generator
    rows = artefacts.accel_rows()
    hcases, hmeta = [], []
    n_lists = 160 if quick else 5000
    t0 = time.time()
    todo = corpus_oplists(api, archs)
    for i in range(n_lists):
        a = accs[i % len(accs)]
        ops, desc = gen_oplist(rng, api, a, archs[a])
        if ops:
            todo.append((a, ops, desc))
    for a, ops, desc in todo:
        try:
            words = api.npu_generate_register_command_stream(ops, a)
        except Exception as ex:  # the generator rejected the list (alignment, limits, assertion): outside C04's quantifier
            stats["oplists_rejected_by_generator"] += 1
            continue
        stats["oplists"] += 1
        name = Accelerator.from_npu_accelerator(a).value
        hcases.append(hz_args(rows[name]) + list(words))
        hmeta.append((a, ops, desc, words))
        if quick and time.time() - t0 > 15:
            break
    if okx and hmeta:
        acases, areal = [], []
        for a, ops, desc, words in hmeta:
            for op_ in ops:
                try:
                    cse, real = accesses_case(api, op_, archs[a])
                except AssertionError:
                    continue
                acases.append(cse)
                areal.append(real)
        # footprint_overapprox on the implementation: every byte of every generated feature map lies in a reported range
        for a, ops, desc, words in hmeta:
            for op_ in ops:
                if isinstance(op_, api.NpuDmaOperation):
                    continue
                for f in (op_.ifm, op_.ifm2 if op_.ifm2_scalar is None else None, op_.ofm):
                    if f is None:
                        continue
                    stats["footprint_oracle_fms"] += 1
                    rs_ = [r for r in get_address_ranges(f) if r is not None]
                    bad = [ad for rg, ad in fm_bytes(f) if not any(r.region == rg and r.address <= ad < r.address + r.length for r in rs_)]
                    if bad:
                        key = ({"kind": "footprint", "defect": "get_address_ranges_omits_tile3"} if tiles_013(f)
                               else {"kind": "footprint", "layout": f.layout.name, "tiles": str(tuple(f.tiles))})
                        fails.append((key, {"shape": list(f.shape), "tiles": [f.tiles.height_0, f.tiles.height_1, f.tiles.width_0, list(f.tiles.addresses)],
                                            "layout": f.layout.name, "first_uncovered_address": min(bad), "ranges": [list(r) for r in rs_]},
                                      "get_address_ranges does not cover byte %#x of a feature map (shape %s tiles %s)"
                                      % (min(bad), tuple(f.shape), tuple(f.tiles))))
        for cse, real, m in zip(acases, areal, models.run_parallel("op_accesses", acases, exe_name=EXE)):
            stats["op_accesses_cases"] += 1
            if m[0] != 1:
                diffs.append(("get_op_memory_accesses", {"flat_case": cse}, real, m))
                continue
            rd, pos = parse_mrs(m, 1)
            wrs, pos = parse_mrs(m, pos)
            if (rd, wrs) != real:
                diffs.append(("get_op_memory_accesses / get_address_ranges", {"flat_case": cse}, real, (rd, wrs)))
    if okx and hcases:
        houts = models.run_parallel("check_hazards", hcases, exe_name=EXE)
        souts = models.run_parallel("stream_waits", [c[5:] for c in hcases], exe_name=EXE)
        for (a, ops, desc, words), o, so in zip(hmeta, houts, souts):
            sw = parse_stream_waits(so)
            stats["api_streams_checked"] += 1
            if sw is not None and any(w for _, _, w in sw):
                nontrivial.add(("api", a.name, len(ops), sum(len(w) for _, _, w in sw)))
            why, pair = None, None
            if desc and desc[0] == "corpus:tile3_witness" and sw is not None and len(sw) == 2 and \
                    not any(code == 17 for code, _n in sw[1][2]):
                # the corpus witness of the repaired defect: DMA into tile 3 of the pool's IFM, then the pool: a DMA_WAIT is required
                fails.append(({"kind": "api_stream", "defect": "get_address_ranges_omits_tile3"},
                              {"accelerator": a.name, "ops": desc, "words": list(words), "validator": o},
                              "npu_generate_register_command_stream: no DMA_WAIT between a DMA into tile 3 of a feature map using tiles 0, 1 "
                              "and 3 and the operation reading it"))
                continue
            if o[0] != 1 or sw is None or len(sw) != len(ops):
                why = "emitted stream does not decode to the given operations"
            else:
                why, pair = stream_oracle(api, ops, archs[a], sw)
                if why is None and o[1] != 1:
                    if o[2] >= 0:
                        why = "proved validator: operation %d is issued while an operation of the other queue that shares bytes with it may be unfinished" % o[2]
                        pair = (o[2], None)
                    else:
                        why = "proved validator: BLOCKDEP %d of operation %d is not justified by the block traversal" % (sw[o[3]][1], o[3])
                        pair = (o[3], None)
            if why:
                if pair and pair[1] is not None:
                    t3 = tile3_is_cause(api, archs[a], ops[pair[0]], ops[pair[1]])
                elif pair and o[2] < 0 <= o[3]:
                    prevs = [j for j in range(o[3]) if not isinstance(ops[j], api.NpuDmaOperation)]
                    t3 = bool(prevs) and tile3_blockdep_cause(api, archs[a], ops[prevs[-1]], ops[o[3]])
                else:
                    t3 = False
                key = {"kind": "api_stream", "accelerator": a.name, "n_ops": len(ops), "why": why[:40]}
                if t3:
                    key = {"kind": "api_stream", "defect": "get_address_ranges_omits_tile3"}
                    why += " [an operand uses tiles 0, 1 and 3: get_address_ranges does not report tile 3]"
                stats["api_streams_rejected" + ("_tile3" if t3 else "")] += 1
                fails.append((key, {"accelerator": a.name, "ops": desc, "words": list(words), "validator": o, "reason": why,
                                    "oracle_pair": pair},
                              "npu_generate_register_command_stream: " + why))
        if hmeta:
            samples.append({"api_op_list": hmeta[-1][2], "accelerator": hmeta[-1][0].name, "validator": houts[-1]})
        for o in models.run_parallel("hazard_stats", hcases, exe_name=EXE):
            if o[0] == 1:
                for j, kname in enumerate(["api_kernel_pairs", "api_pairs_blockdep_pos", "api_pairs_blockdep_pos_overlapping",
                                           "api_cross_pairs_tested", "api_waits"]):
                    stats[kname] += o[1 + j]

    # ---------------------------------------------------------------- (c) every stream of the shared compilation plan
    n = 64 if quick else 1600
    jobs = compiles.corpus_jobs() + compiles.plan(FAMS, n, vlib.seed(), tag="d2", capture=True)
    results = compiles.run_all(jobs, timeout=900)
    ccases, cmeta = [], []
    cstat = collections.Counter()
    for r in results:
        cstat[r["status"]] += 1
        if r["status"] != "ok":
            continue
        art = artefacts.load(r)
        if art is None:
            continue
        row = rows[artefacts.job_accel(r["job"])]
        for k, npu in enumerate(art["npu"]):
            if npu["words"] is None:
                continue
            ccases.append(hz_args(row) + npu["words"])
            cmeta.append((r, k))
    programs = 0
    ops_checked = 0
    if okx and ccases:
        couts = models.run_parallel("check_hazards", ccases, exe_name=EXE)
        for (r, k), o in zip(cmeta, couts):
            if o[0] != 1:
                stats["compiled_streams_not_decoding"] += 1
                continue
            programs += 1
            ops_checked += o[4]
            if o[1] != 1:
                which = "cross-queue" if o[2] >= 0 else "blockdep"
                opi = o[2] if o[2] >= 0 else o[3]
                facts, expl = ({}, {})
                if which == "blockdep":
                    try:
                        facts, expl = explain_blockdep(ccases[cmeta.index((r, k))], opi)
                    except Exception as ex:  # diagnostics only
                        expl = {"explain_failed": repr(ex)}
                fails.append((dict({"kind": "compiled_stream", "test": which, "net": r.get("net_name"), "seed": r["job"]["seed"]}, **facts),
                              {"job": r["job"], "stream": k, "op_index": opi, "validator": o, "explanation": expl,
                               "replay_cmd": "cd /verif && /venv/bin/python tools/vela_worker.py %s/job.json" % r["job"]["out_dir"]},
                              "C04: %s hazard test rejects operation %d of a compiled stream (net %s ops %s, %s)"
                              % (which, opi, r.get("net_name"), r.get("net_desc"), " ".join(r["job"]["args"][:2]))))
            if len(samples) < 5:
                samples.append({"net": r.get("net_name"), "args": r["job"]["args"][:4], "npu_ops": o[4], "accepted": o[1] == 1})
        for o in models.run_parallel("hazard_stats", ccases, exe_name=EXE):
            if o[0] == 1:
                for j, kname in enumerate(["compiled_kernel_pairs", "compiled_pairs_blockdep_pos", "compiled_pairs_blockdep_pos_overlapping",
                                           "compiled_cross_pairs_tested", "compiled_waits"]):
                    stats[kname] += o[1 + j]

    evals = stats["waits_cases"] + stats["rangeset_cases"] + stats["accessset_cases"] + stats["blockdep_cases"] + \
        stats["api_streams_checked"] + programs
    res.cov.update({
        "evaluations": evals, "distinct_nontrivial": len(nontrivial),
        "rule": "non-trivial = wait sequences in which at least one wait was emitted (by limits, length, number of waits); "
                "well-formed range-set pairs with >= 2 ranges each; access-set pairs with >= 2 adds each; calc_blockdep pairs "
                "with result 1 or 2 (by producer/consumer kind, overlap mode, layout, width); API op lists whose stream contains "
                "a wait; plus every compiled stream",
        "programs": programs, "npu_operations_checked": ops_checked, "compile_status": dict(cstat),
        "disagreements_checked": len(diffs), "model_vs_impl_differences": len(diffs),
        "volumes": {k: v for k, v in stats.items()},
        "samples": samples or [{"note": "none"}],
        "input_distribution": {
            "waits": "lengths 1..40, 1..12 distinct operations (repeats allowed), DMA share 0.2/0.5/0.8, conflict density 0..1, "
                     "80% symmetric relations, limits U55 (1,2) / U65 (2,2) / random 1..4",
            "range sets": "0..8 ranges, coordinates < 64 (+ offsets), adjacency / duplicates / nesting; 15% malformed (unsorted, empty ranges)",
            "access sets": "0..6 adds over areas {0,1,2,259}, empty and (3%) inverted ranges",
            "calc_blockdep": "producer conv/pool/elementwise, consumer conv/depthwise/pool/elementwise over the same buffer, a row "
                             "stripe of it, a tile of a larger map, IFM2, disjoint, other layout; 6 accelerators; LUT flags",
            "api op lists": "2..12 operations (weight/feature-map/LUT DMAs, conv, depthwise, pool, elementwise) over 6 shared SRAM "
                            "slots, tiles, LUT slots; all 6 accelerators"},
    })
    res.assumptions += ["hardware execution model of coq/hw/Queues.v and block traversal of coq/hw/Hazard.v (modelled)",
                        "the set of compilations and op lists is sampled; the theorems quantify over all histories / streams"]
    res.cov["wall_build_s"] = round(b["wall"], 1)

    def search():
        return fails[0] if fails else None

    reported = False          # a violation that is not a recorded known finding
    seen = set()
    classes = collections.Counter()
    for key, detail, what in fails:
        kk = tuple(sorted((k, str(v)) for k, v in key.items()))
        cls = (key.get("kind"), key.get("test"), key.get("defect"))
        if kk in seen or classes[cls] >= 3 or len(seen) >= 12:
            continue          # the first input of a class is the (smallest, corpus-first) witness; keep its replay file
        seen.add(kk)
        classes[cls] += 1
        reported |= bool(res.violation(key, detail, what))
    if not reported:
        if not b["ok"]:
            vlib.report_broken_build(res, b, None)
        elif diffs or not okx:
            what, case, impl, model = diffs[0] if diffs else ("extraction", {}, None, None)
            res.violation({"correspondence": what}, {"case": case, "impl": impl, "model": model, "n_differences": len(diffs),
                                                       "differing_functions": sorted(set(d[0] for d in diffs)),
                                                       "extraction_ok": okx, "log": xlog[-600:] if not okx else ""},
                          "correspondence of the Coq model with %s no longer holds (%d differing cases)" % (what, len(diffs)), no_input=True)
        elif programs == 0:
            res.violation({"machinery": "no program validated"}, {"status": dict(cstat)}, "no compiled stream could be validated", no_input=True)
    return res.finish()
