"""C19 -- lookup tables and compile-time fixed-point maths match their reference functions.

Proof side (coq/props/C19.v): every fp_math.py function, translated on every run into coq/gen/GenFpMath.v,
equals the transcribed gemmlowp/TFLite reference on its whole domain (all int32/int16 operands), never
fails there, and the integer-only tables (leaky ReLU, hard-swish, same-width requantise) equal the
reference kernels' pipelines.  This module:
  1. builds the proofs and the extracted model (build/fpMath);
  2. correspondence: the real fp_math functions, called with Python ints AND with the NumPy scalar
     types the real call sites pass, against the extracted model, on corpus + boundary-biased
     + malformed cases (exhaustive 16-bit in the thorough tier);
  3. property oracle: an independent Python transcription of the C reference functions, evaluated
     on the implementation's results;
  4. tables: the real rewrites (convert_lrelu_to_lut, convert_hardswish_to_lut, optimise_quantize,
     convert_to_lut8) are run on one-operator graphs; integer tables are compared with the model and
     with the independently transcribed TFLite kernels; sigmoid/tanh tables get one Coq-Interval
     certificate each (device D3), checked by coqc.
"""
import hashlib
import math
import os
import random
import subprocess
import time
import warnings
from concurrent.futures import ThreadPoolExecutor
from fractions import Fraction

import numpy as np

import vlib
import models

EXE = "fpMath"
I32MIN, I32MAX = -(1 << 31), (1 << 31) - 1
I16MIN, I16MAX = -(1 << 15), (1 << 15) - 1

# ------------------------------------------------------------------------------------------------
# independent transcription of the C reference functions (the property oracle)


def wrap(w, x):
    return ((x + (1 << (w - 1))) & ((1 << w) - 1)) - (1 << (w - 1))


def cdiv(a, b):
    q = abs(a) // abs(b)
    return q if (a < 0) == (b < 0) else -q


def ref_srdhm32(a, b):
    if a == b == I32MIN:
        return I32MAX
    ab = a * b
    nudge = (1 << 30) if ab >= 0 else 1 - (1 << 30)
    return wrap(32, cdiv(ab + nudge, 1 << 31))


def ref_srdhm16(a, b):
    if a == b == I16MIN:
        return I16MAX
    ab = a * b
    nudge = (1 << 14) if ab >= 0 else 1 - (1 << 14)
    return wrap(16, cdiv(ab + nudge, 1 << 15))


def ref_sdhm16(a, b):
    if a == b == I16MIN:
        return I16MAX
    return wrap(16, cdiv(a * b, 1 << 15))


def ref_rdbpot(x, e, w=32):
    mask = wrap(w, (1 << e) - 1)
    rem = x & mask
    thr = wrap(w, (mask >> 1) + (1 if x < 0 else 0))
    return wrap(w, (x >> e) + (1 if rem > thr else 0))


def ref_shl(a, off, w):
    lo, hi = -(1 << (w - 1)), (1 << (w - 1)) - 1
    return max(lo, min(hi, a * (1 << off)))


def ref_srmbpot(e, x):
    if e < 0:
        return ref_rdbpot(x, -e)
    if e == 0:
        return x
    thr = (1 << (31 - e)) - 1
    r = ref_shl(x, e, 32)
    if x > thr:
        r = I32MAX
    if x < -thr:
        r = I32MIN
    return r


def ref_exp_interval(a):
    ct, c13 = 1895147668, 715827883
    x = wrap(32, a + (1 << 28))
    x2 = ref_srdhm32(x, x)
    x3 = ref_srdhm32(x2, x)
    x4 = ref_srdhm32(x2, x2)
    x4_4 = ref_srmbpot(-2, x4)
    p = ref_srmbpot(-1, wrap(32, ref_srdhm32(wrap(32, x4_4 + x3), c13) + x2))
    return wrap(32, ct + ref_srdhm32(ct, wrap(32, x + p)))


EXP_STEPS = [(-2, 1672461947), (-1, 1302514674), (0, 790015084), (1, 290630308), (2, 39332535), (3, 720401), (4, 242)]


def ref_exp_neg(a, ib=5):
    fb = 31 - ib
    quarter = 1 << (fb - 2)
    mask = quarter - 1
    am = wrap(32, (a & mask) - quarter)
    result = ref_exp_interval(ref_srmbpot(ib, am))
    rem = wrap(32, am - a)
    for e, m in EXP_STEPS:
        if ib > e and (rem & (1 << (fb + e))):
            result = ref_srdhm32(result, m)
    return I32MAX if a == 0 else result


def ref_mbqm(x, m, shift):
    """TFLite convention"""
    ls = shift if shift > 0 else 0
    rs = 0 if shift > 0 else -shift
    return ref_rdbpot(ref_srdhm32(wrap(32, x * wrap(32, 1 << ls)), m), rs)


def ref_downscale(a):
    if a >= I32MAX - 32768:
        return I16MAX
    return wrap(16, (a + 32768) >> 16)


def ref_quantize_multiplier(d):
    """TFLite QuantizeMultiplier(double) -> (int32 multiplier, TFLite shift)"""
    if d == 0.0:
        return 0, 0
    q, shift = math.frexp(d)
    qf = int(math.floor(abs(q) * (1 << 31) + 0.5)) * (1 if q >= 0 else -1)   # TfLiteRound: half away from zero
    if qf == (1 << 31):
        qf //= 2
        shift += 1
    if shift < -31:
        shift, qf = 0, 0
    return qf, shift


def ref_leaky_relu(x, zi, zo, mi, si, ma, sa, qmin, qmax):
    iv = x - zi
    u = zo + (ref_mbqm(iv, mi, si) if iv >= 0 else ref_mbqm(iv, ma, sa))
    return min(qmax, max(qmin, u))


def ref_prelu(x, zi, zo, azp, acode, m1, s1, m2, s2, qmin, qmax):
    """TFLite reference/prelu.h, 8-bit, one element"""
    iv = x - zi
    o = ref_mbqm(iv, m1, s1) if iv >= 0 else ref_mbqm(wrap(32, iv * (acode - azp)), m2, s2)
    return min(qmax, max(qmin, wrap(32, o + zo)))


def ref_hardswish(x, zi, zo, relu_m16, relu_exp, out_m16, out_exp, qmin, qmax):
    iv = wrap(16, x - zi)
    hires = wrap(16, iv * 128)
    pre = ref_srdhm16(hires, out_m16)
    r = hires
    if relu_exp > 0:
        r = ref_shl(r, relu_exp - 1, 16)
    r = ref_srdhm16(r, relu_m16)
    if relu_exp > 0:
        r = ref_shl(r, 1, 16)
    if relu_exp < 0:
        r = ref_rdbpot(r, -relu_exp, 16)
    r = wrap(16, (r + (1 << 15)) >> 1)
    o = ref_sdhm16(r, pre)
    o = ref_rdbpot(o, -out_exp, 16)
    o = wrap(16, o + zo)
    return max(qmin, min(qmax, o))


def ref_requant(v, zi, zo, m, s, qmin, qmax):
    return max(min(ref_mbqm(v - zi, m, s) + zo, qmax), qmin)


# ------------------------------------------------------------------------------------------------
# functions under test: name -> (model command, arity, reference on ints, domain predicate, call-site type combos)
NPT = {"int": int, "int8": np.int8, "int16": np.int16, "int32": np.int32, "int64": np.int64}


def in32(x):
    return I32MIN <= x <= I32MAX


def in16(x):
    return I16MIN <= x <= I16MAX


def _mbqm_domain(x, m, s):
    return in32(x) and 0 <= m < (1 << 31) and 0 <= s <= 62 and in32(x * (1 << max(0, 31 - s)))


FUNCS = {
    # name: cmd, ref(*ints), domain(*ints) [the theorem's hypotheses], call-site type combos
    "saturating_rounding_mul32": ("srdhm32", ref_srdhm32, lambda a, b: in32(a) and in32(b),
                                  [(p, q) for p in ("int", "int32", "int64") for q in ("int", "int32", "int64")]),
    "saturating_rounding_mul16": ("srdhm16", ref_srdhm16, lambda a, b: in16(a) and in16(b),
                                  [("int", "int"), ("int64", "int16"), ("int64", "int"), ("int16", "int16"), ("int16", "int"),
                                   ("int32", "int16")]),
    "saturating_mul16": ("satmul16", ref_sdhm16, lambda a, b: in16(a) and in16(b),
                         [("int", "int"), ("int32", "int32"), ("int16", "int32"), ("int64", "int32")]),
    "shift_left32": ("shl32", lambda a, o: ref_shl(a, o, 32), lambda a, o: in32(a) and 0 <= o <= 30,
                     [("int", "int"), ("int32", "int")]),   # saturating_rounding_multiply_by_pot passes np.int32
    "shift_left16": ("shl16", lambda a, o: ref_shl(a, o, 16), lambda a, o: in16(a) and 0 <= o <= 30,
                     [("int", "int"), ("int16", "int"), ("int32", "int")]),
    "downscale_multiplier_int32_to_int16": ("downscale", ref_downscale, lambda a: in32(a), [("int",)]),
    "rounding_divide_by_pot": ("rdbpot", ref_rdbpot, lambda x, e: in32(x) and 0 <= e <= 31,
                               [("int", "int"), ("int32", "int"), ("int64", "int")]),
    "saturating_rounding_multiply_by_pot": ("srmbpot", lambda x, e: ref_srmbpot(e, x), lambda x, e: in32(x) and 0 <= e <= 30,
                                            [("int", "int"), ("int32", "int")]),
    "rescale": ("rescale", lambda s, d, x: ref_srmbpot(s - d, x),
                lambda s, d, x: in32(x) and -31 <= s - d <= 30 and in32(s) and in32(d), [("int", "int", "int"), ("int", "int", "int32")]),
    "exp_on_interval_between_negative_one_quarter_and_0_excl": ("expint", ref_exp_interval, lambda a: -(1 << 29) <= a < 0,
                                                                [("int",), ("int32",)]),
    "exp_on_negative_values": ("expneg", ref_exp_neg, lambda a: in32(a) and a <= 0, [("int",), ("int32",), ("int64",)]),
    "multiply_by_quantized_multiplier": ("mbqm", lambda x, m, s: ref_mbqm(x, m, 31 - s), _mbqm_domain,
                                         [("int", "int", "int"), ("int64", "int", "int")]),
}
# further NumPy types exercised for the record (not passed by a call site of the unchanged tree): informational only
EXTRA_TYPES = {
    "saturating_rounding_mul32": [("int8", "int"), ("int16", "int")],
    "shift_left32": [("int64", "int")],
    "shift_left16": [("int64", "int")],
    "rounding_divide_by_pot": [("int16", "int"), ("int8", "int")],
    "multiply_by_quantized_multiplier": [("int8", "int", "int"), ("int16", "int", "int"), ("int32", "int", "int")],
    "saturating_mul16": [("int16", "int16")],
    "saturating_rounding_multiply_by_pot": [("int64", "int")],
}


# a call site passes that type only with these operand values (read from the callers)
CALLSITE_DOM = {
    # convert_hardswish_to_lut: shift_left16(<np.int32 result of saturating_rounding_mul16>, 1)
    ("shift_left16", ("int32", "int")): lambda a, o: o == 1,
    # saturating_rounding_multiply_by_pot: shift_left32(<np.int32 x>, exponent) only after its own threshold tests,
    # i.e. only when the product fits
    ("shift_left32", ("int32", "int")): lambda a, o: in32(a * (1 << o)),
}


def bias32(rng):
    k = rng.random()
    if k < 0.25:
        return rng.choice([I32MIN, I32MAX, 0, 1, -1, I32MIN + 1, I32MAX - 1, 1 << 30, -(1 << 30), (1 << 30) - 1, 1 - (1 << 30)])
    if k < 0.6:
        e = rng.randrange(0, 31)
        return rng.choice([1, -1]) * (1 << e) + rng.choice([-1, 0, 0, 1])
    if k < 0.8:
        return rng.randrange(-70000, 70000)
    return rng.randrange(I32MIN, I32MAX + 1)


def bias16(rng):
    k = rng.random()
    if k < 0.3:
        return rng.choice([I16MIN, I16MAX, 0, 1, -1, I16MIN + 1, I16MAX - 1, 16384, -16384, 16383, -16383, 32640, -32640])
    if k < 0.6:
        e = rng.randrange(0, 15)
        return max(I16MIN, min(I16MAX, rng.choice([1, -1]) * (1 << e) + rng.choice([-1, 0, 1])))
    return rng.randrange(I16MIN, I16MAX + 1)


def malformed32(rng):
    return rng.choice([1 << 31, -(1 << 31) - 1, 1 << 32, -(1 << 40), (1 << 63), rng.randrange(1 << 31, 1 << 34), -rng.randrange((1 << 31) + 1, 1 << 34)])


B16 = [I16MIN, I16MIN + 1, -16385, -16384, -16383, -3, -2, -1, 0, 1, 2, 3, 255, 16383, 16384, 16385, 21845, 32640, I16MAX - 1, I16MAX]


def gen_cases(name, rng, tier):
    """list of integer argument tuples: corpus, boundary-biased valid, malformed"""
    n = {"quick": 1, "thorough": 12}[tier]
    c = []
    if name == "saturating_rounding_mul32":
        c += [(I32MIN, I32MIN), (I32MIN, I32MAX), (I32MAX, I32MAX), (-3, 1 << 30), (3, 1 << 30), (-1, 1 << 30), (1, 1 << 30),
              (-(1 << 30), 1), ((1 << 30), 1), (-(1 << 30) - 1, 1), (I32MIN, -1), (I32MIN, 1), (0, 0), (I32MIN + 1, I32MIN)]
        c += [(bias32(rng), bias32(rng)) for _ in range(2500 * n)]
        c += [(bias32(rng), rng.choice([1672461947, 1302514674, 790015084, 290630308, 39332535, 720401, 242, 1895147668, 715827883]))
              for _ in range(500 * n)]
        c += [(malformed32(rng), bias32(rng)) for _ in range(40)] + [(bias32(rng), malformed32(rng)) for _ in range(40)]
    elif name in ("saturating_rounding_mul16", "saturating_mul16"):
        c += [(a, b) for a in B16 for b in B16]
        c += [(bias16(rng), bias16(rng)) for _ in range(1500 * n)]
        c += [(rng.choice([1 << 15, -(1 << 15) - 1, 1 << 20, -(1 << 31)]), bias16(rng)) for _ in range(20)]
        c += [(bias16(rng), rng.choice([1 << 15, -(1 << 15) - 1, 70000])) for _ in range(20)]
        if tier == "thorough":
            c += [(a, b) for a in range(I16MIN, I16MAX + 1) for b in B16]        # exhaustive in one operand
            c += [(b, a) for a in range(I16MIN, I16MAX + 1, 1) for b in (I16MIN, -16384, -1, 1, 16384, I16MAX)]
    elif name == "shift_left32":
        c += [(3, 31), (1, 31), (-1, 31), (0, 40), (1 << 20, 12), (I32MIN, 0), (I32MAX, 1), (-5, 3), (1, 30), (-1, 30)]
        c += [(bias32(rng), rng.randrange(0, 34)) for _ in range(1200 * n)]
        c += [(malformed32(rng), rng.randrange(0, 5)) for _ in range(20)]
    elif name == "shift_left16":
        c += [(32640, 1), (-32640, 1), (32640, 5), (1, 15), (3, 14), (-1, 15), (1, 14), (0, 30), (I16MIN, 0), (I16MAX, 0), (16384, 1), (-16384, 1)]
        c += [(bias16(rng), rng.randrange(0, 31)) for _ in range(1200 * n)]
        c += [(rng.choice([1 << 15, -(1 << 15) - 1, 70000]), rng.randrange(0, 5)) for _ in range(20)]
        if tier == "thorough":
            c += [(a, o) for a in range(I16MIN, I16MAX + 1) for o in (0, 1, 2, 5, 14, 15, 16, 30)]
    elif name == "downscale_multiplier_int32_to_int16":
        c += [(0,), (1,), (32767,), (32768,), (I32MAX,), (I32MAX - 32768,), (I32MAX - 32769,), (1 << 30,), ((1 << 30) + 32767,), (-1,), (I32MIN,)]
        c += [(rng.randrange(0, 1 << 31),) for _ in range(800 * n)] + [(bias32(rng),) for _ in range(400 * n)]
        c += [(malformed32(rng),) for _ in range(20)]
    elif name == "rounding_divide_by_pot":
        c += [(-5, 1), (5, 1), (-6, 2), (6, 2), (-7, 2), (I32MIN, 31), (I32MAX, 31), (1 << 30, 31), ((1 << 30) - 1, 31), (-(1 << 30), 31),
              (-(1 << 30) - 1, 31), (I32MAX, 0), (I32MIN, 0), (I32MAX, 1), (I32MIN, 1), (0, 31)]
        c += [(bias32(rng), rng.randrange(0, 32)) for _ in range(2500 * n)]
        c += [(bias16(rng), rng.randrange(0, 16)) for _ in range(500 * n)]
        c += [(malformed32(rng), rng.randrange(0, 32)) for _ in range(30)] + [(bias32(rng), rng.choice([32, 33, 40, 64])) for _ in range(30)]
        if tier == "thorough":
            c += [(a, e) for a in range(I16MIN, I16MAX + 1) for e in (0, 1, 2, 7, 14, 15)]
    elif name == "saturating_rounding_multiply_by_pot":
        c += [(67108864, 5), (67108863, 5), (-67108863, 5), (-67108864, 5), (0, 31), (1, 31), (-1, 31), (I32MIN, 0), (I32MAX, 0), (1, 30), (-1, 30)]
        c += [(bias32(rng), rng.randrange(0, 32)) for _ in range(1200 * n)]
        c += [(rng.randrange(-(1 << 24), 0), 5) for _ in range(300 * n)]
        c += [(malformed32(rng), 3) for _ in range(20)]
    elif name == "rescale":
        c += [(5, 0, -16777216), (5, 0, -1), (0, 5, -48), (0, 0, 7), (0, 2, I32MIN), (12, 0, 1 << 19), (0, 31, I32MAX), (30, 0, -1)]
        c += [(rng.randrange(0, 32), rng.randrange(0, 32), bias32(rng)) for _ in range(1200 * n)]
        c += [(5, 0, rng.randrange(-(1 << 24), 0)) for _ in range(300 * n)]
        c += [(5, 0, malformed32(rng)) for _ in range(10)]
    elif name == "exp_on_interval_between_negative_one_quarter_and_0_excl":
        c += [(-(1 << 29),), (-1,), (-(1 << 28),), (-(1 << 28) - 1,), (-(1 << 28) + 1,), (-32,), (-(1 << 29) + 32,)]
        c += [(-rng.randrange(1, (1 << 29) + 1),) for _ in range(500 * n)]
        c += [(0,), (1,), (-(1 << 29) - 1,), (I32MIN,), (5,)]
    elif name == "exp_on_negative_values":
        c += [(0,), (-1,), (I32MIN,), (I32MIN + 1,), (-12345678,), (-(1 << 24),), (-(1 << 24) + 1,), (-(1 << 24) - 1,), (-(1 << 26),), (-(1 << 30),)]
        c += [(-(1 << k),) for k in range(31)] + [(-(1 << k) - 1,) for k in range(30)] + [(-(1 << k) + 1,) for k in range(1, 31)]
        c += [(-rng.randrange(0, 1 << 31),) for _ in range(350 * n)] + [(-rng.randrange(0, 1 << 27),) for _ in range(150 * n)]
        c += [(1,), (5,), (I32MAX,), (-(1 << 31) - 1,), (-(1 << 33),)]
    elif name == "multiply_by_quantized_multiplier":
        c += [(-255, 1518500250, 30), (255, 1518500250, 30), (100000, 1 << 30, 0), (-1, 1 << 30, 0), (0, 1 << 30, 0), (77, I32MAX, 40),
              (I32MAX, I32MAX, 31), (I32MIN, I32MAX, 31), (I32MIN, I32MAX, 62), (I32MAX, 1 << 30, 62), (-255, 1 << 30, 9), (255, I32MAX, 9),
              (1, 1 << 30, 1), (-1, 1 << 30, 1), (3, 1 << 30, 31), (-3, 1 << 30, 31), (65535, 1 << 30, 16), (-65535, I32MAX, 16)]
        for _ in range(2500 * n):
            s = rng.choice([rng.randrange(0, 63), rng.randrange(20, 45)])
            ls = max(0, 31 - s)
            lim = I32MAX >> ls
            x = rng.choice([rng.randrange(-255, 256), rng.randrange(-65535, 65536), bias32(rng)])
            if rng.random() < 0.9:
                x = max(-lim - (1 if ls else 1), min(lim, x))
            m = rng.choice([rng.randrange(1 << 30, 1 << 31), 1 << 30, I32MAX, rng.randrange(0, 1 << 31), 0])
            c.append((x, m, s))
        c += [(malformed32(rng), 1 << 30, 31) for _ in range(10)] + [(5, malformed32(rng), 31) for _ in range(10)]
        c += [(bias32(rng), 1 << 30, rng.choice([63, 64, 70])) for _ in range(10)]
    return c


def call_impl(fn, args, types):
    """run the real function with the given scalar types; ('ok', int, warned) | ('exc', ExceptionName)"""
    try:
        typed = []
        for a, t in zip(args, types):
            if t == "int":
                typed.append(int(a))
            else:
                ty = NPT[t]
                ii = np.iinfo(ty)
                if not (ii.min <= a <= ii.max):
                    return ("skip",)
                typed.append(ty(a))
    except Exception:
        return ("skip",)
    with warnings.catch_warnings(record=True) as w:
        warnings.simplefilter("always")
        try:
            r = fn(*typed)
            return ("ok", int(r), bool(w))
        except (AssertionError, OverflowError, ValueError, ZeroDivisionError, TypeError) as ex:
            return ("exc", type(ex).__name__)


def prun(cmd, cases, chunks=None):
    """models.run over several processes"""
    if not cases:
        return []
    k = chunks or min(vlib.NCPU, max(1, len(cases) // 400))
    step = (len(cases) + k - 1) // k
    parts = [cases[i:i + step] for i in range(0, len(cases), step)]
    with ThreadPoolExecutor(max_workers=k) as ex:
        outs = list(ex.map(lambda p: models.run(cmd, p, exe_name=EXE), parts))
    return [o for part in outs for o in part]


# ------------------------------------------------------------------------------------------------
def check_fpmath(tier, rng, okx):
    """returns dict(stats, violations[list of (key, detail, what)], corr_diffs[list], ref_diffs, info)"""
    from ethosu.vela import fp_math
    out = {"evals": 0, "nontrivial": set(), "viol": {}, "corr": {}, "info": {}, "per_function": {}, "samples": []}
    for name, (cmd, ref, dom, combos) in FUNCS.items():
        fn = getattr(fp_math, name, None)
        if fn is None:
            out["corr"][(name, "missing")] = {"function": name, "problem": "function no longer exists"}
            continue
        seen = set()
        cases = []
        for c in gen_cases(name, rng, tier):
            if c not in seen:
                seen.add(c)
                cases.append(c)
        mouts = prun(cmd, [list(c) for c in cases]) if okx else [None] * len(cases)
        n_dom = n_mal = 0
        for args, mo in zip(cases, mouts):
            indom = dom(*args)
            want = ref(*args) if indom else None
            n_dom += indom
            n_mal += not indom
            if mo is not None and indom and (mo[0] != 1 or mo[2] != want or mo[1] != want):
                # the Coq reference / translated function and the Python transcription disagree on a value the
                # theorems cover: the model side is broken
                out["corr"].setdefault((name, "model-vs-oracle"), {"function": name, "args": list(args), "model": mo, "oracle": want})
            for combo in combos + EXTRA_TYPES.get(name, []):
                callsite = combo in combos
                r = call_impl(fn, args, combo)
                if r[0] == "skip":
                    continue
                out["evals"] += 1
                tkey = ",".join(combo)
                if indom:
                    good = r[0] == "ok" and r[1] == want
                    if good:
                        if all(a != 0 for a in args):
                            out["nontrivial"].add((name, args))
                        continue
                    if (name, combo) in CALLSITE_DOM and not CALLSITE_DOM[(name, combo)](*args):
                        callsite = False
                    if callsite:
                        k = (name, tkey)
                        v = out["viol"].setdefault(k, {"function": name, "arg_types": tkey, "args": list(args), "observed": list(r),
                                                       "required": want, "count": 0})
                        v["count"] += 1
                    else:
                        i = out["info"].setdefault("%s(%s)" % (name, tkey), {"in_domain_failures": 0, "first": [list(args), list(r), want]})
                        i["in_domain_failures"] += 1
                elif combo == tuple(["int"] * len(combo)) and mo is not None:
                    # malformed stream: Python ints against the translated model (None <-> exception)
                    same = (mo[0] == 1 and r[0] == "ok" and r[1] == mo[1]) or (mo[0] == 0 and r[0] == "exc")
                    if not same:
                        out["corr"].setdefault((name, "malformed"), {"function": name, "args": list(args), "model": mo, "impl": list(r)})
        if name == "shift_left16" and okx:
            # the model behind theorem shift_left16_np_int16_eq (code as it is now: int(a) * (1 << offset)) must be the real
            # behaviour on np.int16 operands; if the int16 wrap returns this breaks together with the oracle above
            npc = [c for c in cases if in16(c[0])]
            for args, mo in zip(npc, prun("shl16np", [list(c) for c in npc])):
                r = call_impl(fn, args, ("int16", "int"))
                same = (mo[0] == 1 and r[0] == "ok" and r[1] == mo[1]) or (mo[0] == 0 and r[0] == "exc")
                out["np_model_cases"] = out.get("np_model_cases", 0) + 1
                if not same:
                    out["corr"].setdefault((name, "numpy-int16-model"), {"function": name, "args": list(args), "model": mo, "impl": list(r)})
        out["per_function"][name] = {"cases": len(cases), "in_domain": n_dom, "malformed": n_mal,
                                     "type_combinations": [",".join(c) for c in combos]}
        if cases:
            a = cases[min(len(cases) - 1, 20)]
            out["samples"].append({"function": name, "args": list(a), "reference": ref(*a) if dom(*a) else None})
    return out


# ------------------------------------------------------------------------------------------------
# one-operator graphs for the real rewrites
def f32(x):
    return np.float32(x)


def mk_op(optype, dtype, s_in, zp_in, s_out, zp_out, attrs=None, const_values=None, const_input2=None):
    """tensors as tflite_reader produces them: np.float32 scale, np.int64 zero point"""
    from ethosu.vela.operation import Operation
    from ethosu.vela.tensor import QuantizationParameters, Tensor, create_const_tensor
    bits = dtype.bits
    from ethosu.vela.data_type import DataType
    signed = dtype != DataType.uint8
    qmin, qmax = (-(1 << (bits - 1)), (1 << (bits - 1)) - 1) if signed else (0, (1 << bits) - 1)

    def q(s, zp):
        qp = QuantizationParameters()
        qp.scale_f32 = np.float32(s)
        qp.zero_point = np.int64(zp)
        qp.quant_min, qp.quant_max = qmin, qmax
        return qp
    if const_values is None:
        ifm = Tensor([1, 1, 1, 8], dtype, "in")
        ifm.quantization = q(s_in, zp_in)
    else:
        ifm = create_const_tensor("in", [len(const_values)], dtype, list(const_values), quantization=q(s_in, zp_in))
    ofm = Tensor(list(ifm.shape), dtype, "out")
    ofm.quantization = q(s_out, zp_out)
    op = Operation(optype, "op")
    op.add_input_tensor(ifm)
    if const_input2 is not None:
        # (shape, fill code, scale, zero point): a constant second input, e.g. the alpha tensor of PRELU
        shp, code, s2, zp2 = const_input2
        op.add_input_tensor(create_const_tensor("in2", list(shp), dtype, np.full(list(shp), code), quantization=q(s2, zp2)))
    op.set_output_tensor(ofm)
    if attrs:
        op.attrs.update(attrs)
    op.set_ifm_ofm_shapes()
    op.run_on_npu = True
    return op, qmin, qmax


def run_rewrite(fn, op, *a):
    with warnings.catch_warnings(record=True) as w:
        warnings.simplefilter("always")
        try:
            r = fn(op, *a)
            return ("ok", r, [str(x.message) for x in w][:2])
        except Exception as ex:  # the rewrite crashed: that is an observation, not a harness error
            import traceback
            tb = traceback.extract_tb(ex.__traceback__)
            where = "%s:%d" % (os.path.basename(tb[-1].filename), tb[-1].lineno) if tb else "?"
            return ("exc", type(ex).__name__, str(ex)[:160], where)


def rand_scale(rng, lo=-9, hi=1):
    return float(np.float32(2.0 ** rng.uniform(lo, hi)))


def vela_shift_of(tfl_shift):
    return 31 - tfl_shift


def check_tables(tier, rng, okx):
    from ethosu.vela import tflite_graph_optimiser as tgo
    from ethosu.vela import scaling
    from ethosu.vela.data_type import DataType
    from ethosu.vela.operation import Op
    from ethosu.vela.test import testutil
    arch = testutil.create_arch()
    out = {"evals": 0, "tables": 0, "viol": {}, "corr": {}, "samples": [], "dist": {}, "nontrivial": set()}
    n = {"quick": 1, "thorough": 25}[tier]
    # one generator per section, all derived from the run's seed: adding cases to one section never moves the
    # draws of another (a seeded change was once detected only by the luck of a draw that later moved)
    base_seed = rng.getrandbits(64)

    def section_rng(tag):
        return random.Random("%d/%s" % (base_seed, tag))

    def dt_of(name):
        return DataType.int8 if name == "int8" else DataType.uint8 if name == "uint8" else DataType.int16

    def zp_for(dtn):
        lo, hi = (-128, 127) if dtn == "int8" else (0, 255)
        return rng.choice([lo, hi, (lo + hi + 1) // 2, rng.randrange(lo, hi + 1), rng.randrange(lo, hi + 1)])

    # ---- leaky relu -------------------------------------------------------------------------
    rng = section_rng("lrelu")
    lr = [("int8", 0.05, -128, 0.05, -128, 0.1), ("int8", 0.02, 3, 0.04, -5, 0.2), ("uint8", 0.1, 128, 0.05, 100, 0.3),
          ("int8", 0.007, 0, 0.9, 0, 0.01), ("int8", 0.5, -20, 0.004, 10, 0.5), ("int8", 0.03, 10, 0.03, 10, -0.25),
          ("uint8", 0.03, 0, 0.03, 255, 1.5), ("int8", 0.05, 127, 0.05, -128, 0.2)]
    for _ in range(12 * n):
        dtn = rng.choice(["int8", "int8", "uint8"])
        lr.append((dtn, rand_scale(rng), zp_for(dtn), rand_scale(rng), zp_for(dtn),
                   rng.choice([0.01, 0.1, 0.2, 0.3, float(np.float32(rng.uniform(0.001, 0.99))), float(np.float32(rng.uniform(-1, 2)))])))
    mcases, minfo = [], []
    for dtn, si, zi, so, zo, alpha in lr:
        alpha = float(np.float32(alpha))
        if alpha == 0:
            continue
        op, qmin, qmax = mk_op(Op.LeakyRelu, dt_of(dtn), si, zi, so, zo, {"alpha": alpha})
        r = run_rewrite(tgo.convert_lrelu, op, arch, None)
        out["tables"] += 1
        key = {"table": "lrelu", "dtype": dtn, "ifm_scale": float(f32(si)), "zp_in": zi, "ofm_scale": float(f32(so)), "zp_out": zo, "alpha": alpha}
        if r[0] != "ok" or getattr(r[1], "activation_lut", None) is None:
            out["viol"].setdefault(("lrelu", "crash"), (dict(table="lrelu", failure=r[1] if r[0] == "exc" else "no LUT"),
                                                       dict(key, observed=list(r[1:]) if r[0] == "exc" else "no LUT"),
                                                       "convert_lrelu did not produce a table: %r" % (r[1:],)))
            continue
        table = [int(v) for v in r[1].activation_lut.values]
        dsi, dso = float(f32(si)), float(f32(so))
        # reference parameters, derived independently (double and float32 evaluation orders of LeakyReluPrepare)
        cand = []
        for am, im in ((dsi * alpha / dso, dsi / dso),
                       (float(f32(f32(si) * f32(alpha)) / f32(so)), float(f32(si) / f32(so)))):
            ma, sa = ref_quantize_multiplier(am)
            mi, smi = ref_quantize_multiplier(im)
            cand.append([ref_leaky_relu(x, zi, zo, mi, smi, ma, sa, qmin, qmax) for x in range(qmin, qmax + 1)])
        bad = [i for i, v in enumerate(table) if v != cand[0][i] and v != cand[1][i]]
        # additionally accept what the property text itself asks for: the correctly rounded real value
        really_bad = []
        for i in bad:
            x = qmin + i
            real = Fraction(dsi) * (x - zi) * (Fraction(alpha) if x < zi else 1) / Fraction(dso) + zo
            real = min(Fraction(qmax), max(Fraction(qmin), real))
            if abs(table[i] - real) > Fraction(1, 2) + Fraction(1, 1024):
                really_bad.append(i)
        out["evals"] += len(table)
        out["nontrivial"].add(("lrelu", dtn, float(f32(si)), zi, float(f32(so)), zo, alpha))
        if really_bad:
            i = really_bad[0]
            out["viol"].setdefault(("lrelu", "value"), (dict(table="lrelu", failure="value"),
                                                       dict(key, code=qmin + i, observed=table[i], reference_double=cand[0][i], reference_float32=cand[1][i],
                                                            n_bad=len(really_bad)),
                                                       "leaky-ReLU table entry differs from the reference kernel and from the correctly rounded real value"))
        # model correspondence with the integer parameters the real scaling functions give
        ids, idsh = scaling.elementwise_mul_scale(np.double(f32(si)), 1, np.double(f32(so)))
        als, alsh = scaling.elementwise_mul_scale(np.double(f32(si)), alpha, np.double(f32(so)))
        mcases.append([zi, zo, int(ids), int(idsh), 1, int(als), int(alsh), qmin, qmax])
        minfo.append((key, table))
        if len(out["samples"]) < 2:
            out["samples"].append(dict(key, first_entries=table[:6], last_entries=table[-4:]))
    if okx and mcases:
        for (key, table), mo in zip(minfo, prun("lrelu_table", mcases, chunks=min(8, len(mcases)))):
            st, gv = mo[0::3], mo[1::3]
            if any(s != 1 for s in st) or gv != table:
                i = next((j for j in range(len(table)) if j >= len(gv) or st[j] != 1 or gv[j] != table[j]), 0)
                out["corr"].setdefault(("lrelu", "model"), dict(key, code_index=i, model=mo[3 * i:3 * i + 3], impl=table[i]))
    out["dist"]["lrelu_tables"] = len(lr)

    # ---- PRELU with a constant alpha that is the same in every channel -----------------------------
    rng = section_rng("prelu")
    # convert_prelu turns it into a LeakyRelu carrying attrs["alpha_scaling"] = (alpha_code - alpha_zp, scale, shift),
    # convert_lrelu -> convert_lrelu_to_lut builds the table from that triple.
    # (dtype, ifm_scale, zp_in, ofm_scale, zp_out, alpha tensor scale, alpha zero point, alpha code)
    pr = [("int8", 0.0625, 0, 0.0625, 0, 2.0 ** -7, -128, -96),        # slope 0.25 as the TFLite converter quantises it
          ("int8", 0.05, -128, 0.05, -128, 0.002, -128, -28),            # slope 0.2
          ("int8", 0.02, 3, 0.04, -5, 0.01, 0, 25), ("int8", 0.03, 10, 0.03, 10, 0.004, 17, -40),   # zp 0; "other" zp, negative slope
          ("uint8", 0.1, 128, 0.05, 100, 0.003, 0, 100), ("uint8", 0.03, 0, 0.03, 255, 0.005, 128, 228),
          ("uint8", 0.04, 120, 0.04, 120, 0.01, 200, 150), ("int8", 0.007, 0, 0.9, 0, 0.001, -128, 127),
          ("int8", 0.5, -20, 0.004, 10, 0.0005, -128, 0), ("int8", 0.05, 127, 0.05, -128, 2.0 ** -8, -128, 127)]
    for _ in range(8 * n):
        dtn = rng.choice(["int8", "int8", "uint8"])
        lo_, hi_ = (-128, 127) if dtn == "int8" else (0, 255)
        azp = rng.choice([lo_, lo_, 0 if dtn == "uint8" else -128, (lo_ + hi_ + 1) // 2, rng.randrange(lo_, hi_ + 1)])
        pr.append((dtn, rand_scale(rng), zp_for(dtn), rand_scale(rng), zp_for(dtn), rand_scale(rng, -12, -5), azp,
                   rng.randrange(lo_, hi_ + 1)))
    mcases, minfo = [], []
    n_pr = 0
    for dtn, si, zi, so, zo, asc, azp, acode in pr:
        if acode == azp:
            continue   # alpha = 0: converted to a ReLU, no table
        dsi, dso, das = float(f32(si)), float(f32(so)), float(f32(asc))
        cand = []
        for am, im in ((dsi * das / dso, dsi / dso), (float(f32(f32(si) * f32(asc)) / f32(so)), float(f32(si) / f32(so)))):
            ma, sa = ref_quantize_multiplier(am)
            mi, smi = ref_quantize_multiplier(im)
            cand.append((ma, sa, mi, smi))
        if any(not (-15 <= sa <= 15 and smi <= 22) for ma, sa, mi, smi in cand):
            continue   # multipliers outside the modelled range (alpha multiplier >= 2^15)
        op, qmin, qmax = mk_op(Op.Prelu, dt_of(dtn), si, zi, so, zo, const_input2=([1, 1, 8], acode, asc, azp))
        key = {"table": "prelu", "dtype": dtn, "ifm_scale": dsi, "zp_in": zi, "ofm_scale": dso, "zp_out": zo,
               "alpha_scale": das, "alpha_zp": azp, "alpha_code": acode}
        r = run_rewrite(tgo.convert_prelu, op, arch, None)
        if r[0] == "ok":
            asc_attr = op.attrs.get("alpha_scaling")
            r = run_rewrite(tgo.convert_lrelu, op, arch, None)
        out["tables"] += 1
        n_pr += 1
        if r[0] != "ok" or getattr(r[1], "activation_lut", None) is None:
            out["viol"].setdefault(("prelu", "crash"), (dict(table="prelu", failure=r[1] if r[0] == "exc" else "no LUT"),
                                                       dict(key, observed=list(r[1:]) if r[0] == "exc" else "no LUT"),
                                                       "convert_prelu + convert_lrelu did not produce a table: %r" % (r[1:],)))
            continue
        table = [int(v) for v in r[1].activation_lut.values]
        refs = [[ref_prelu(x, zi, zo, azp, acode, mi, smi, ma, sa, qmin, qmax) for x in range(qmin, qmax + 1)]
                for ma, sa, mi, smi in cand]
        bad = [i for i, v in enumerate(table) if v != refs[0][i] and v != refs[1][i]]
        really_bad = []
        alpha_real = Fraction(das) * (acode - azp)
        for i in bad:     # what the property text itself asks for: the rounded, saturated real value
            x = qmin + i
            real = Fraction(dsi) * (x - zi) * (alpha_real if x < zi else 1) / Fraction(dso) + zo
            real = min(Fraction(qmax), max(Fraction(qmin), real))
            if abs(table[i] - real) > Fraction(1, 2) + Fraction(1, 1024):
                really_bad.append(i)
        out["evals"] += len(table)
        out["nontrivial"].add(("prelu", dtn, dsi, zi, dso, zo, das, azp, acode))
        if really_bad:
            i = really_bad[0]
            out["viol"].setdefault(("prelu", "value", bool(azp != 0)), (
                dict(table="prelu", failure="value", alpha_zero_point_nonzero=bool(azp != 0)),
                dict(key, code=qmin + i, observed=table[i], reference_double=refs[0][i], reference_float32=refs[1][i],
                     alpha_real=float(alpha_real), n_bad=len(really_bad), alpha_scaling_attr=[int(v) for v in asc_attr] if asc_attr else None),
                "PRELU (constant uniform alpha %.6g = %r*(%d - %d)) table entry for code %d is %d, the Prelu reference kernel gives %d "
                "(%d of 256 entries wrong)" % (float(alpha_real), das, acode, azp, qmin + i, table[i], refs[1][i], len(really_bad))))
        # model correspondence with the integer parameters the real scaling functions give (float32 operands, as convert_prelu passes)
        ids, idsh = scaling.elementwise_mul_scale(np.double(f32(si)), 1, np.double(f32(so)))
        als, alsh = scaling.elementwise_mul_scale(f32(si), f32(asc), f32(so))
        mcases.append([zi, zo, azp, acode, int(ids), int(idsh), int(als), int(alsh), qmin, qmax])
        minfo.append((key, table))
        if n_pr <= 1:
            out["samples"].append(dict(key, first_entries=table[:6], last_entries=table[-4:]))
    if okx and mcases:
        for (key, table), mo in zip(minfo, prun("prelu_table", mcases, chunks=min(8, len(mcases)))):
            st, gv = mo[0::3], mo[1::3]
            if any(s_ != 1 for s_ in st) or gv != table:
                i = next((j for j in range(len(table)) if j >= len(gv) or st[j] != 1 or gv[j] != table[j]), 0)
                out["corr"].setdefault(("prelu", "model"), dict(key, code_index=i, model=mo[3 * i:3 * i + 3], impl=table[i]))
    out["dist"]["prelu_tables"] = n_pr

    # ---- Maximum(x, Mul(x, c)) -> LeakyRelu table (convert_mul_max_to_abs_or_lrelu), both operand orders -------
    rng = section_rng("mulmax")
    from ethosu.vela.operation import Operation
    from ethosu.vela.tensor import QuantizationParameters, Tensor, create_const_tensor

    def mulmax_graph(dtn, s_x, zp_x, code, s_c, zp_c, swap_mul, swap_max):
        dt = dt_of(dtn)

        def q(sc, zp):
            qp = QuantizationParameters()
            qp.scale_f32 = np.float32(sc)
            qp.zero_point = np.int64(zp)
            return qp
        shape = [1, 2, 2, 8]
        x = Tensor(shape, dt, "x")
        x.quantization = q(s_x, zp_x)
        src = Operation(Op.Placeholder, "x_src")
        src.set_output_tensor(x)
        c = create_const_tensor("alpha", [], dt, np.array(code, dt.as_numpy_type()), quantization=q(s_c, zp_c))
        m = Tensor(shape, dt, "mul_out")
        m.quantization = q(s_x, zp_x)
        mul = Operation(Op.Mul, "mul")
        for t in ((c, x) if swap_mul else (x, c)):
            mul.add_input_tensor(t)
        mul.set_output_tensor(m)
        mul.set_ifm_ofm_shapes()
        y = Tensor(shape, dt, "Maximum_out")
        y.quantization = q(s_x, zp_x)
        mx = Operation(Op.Maximum, "Maximum")
        for t in ((m, x) if swap_max else (x, m)):
            mx.add_input_tensor(t)
        mx.set_output_tensor(y)
        mx.set_ifm_ofm_shapes()
        mx.run_on_npu = True
        return mx

    # (dtype, s_x, zp_x, alpha code, alpha scale, alpha zero point)
    mm0 = [("int8", 0.1, 12, 38, 0.3 / 38, 0), ("int8", 0.7, 127, 51, 0.01, 0), ("uint8", 0.05, 128, 200, 0.001, 100),
           ("int8", 0.0625, 0, -96, 2.0 ** -7, -128), ("uint8", 0.03, 3, 64, 2.0 ** -7, 0), ("int8", 0.02, -128, 127, 2.0 ** -8, -128),
           ("int8", 0.1, 0, -128, 2.0 ** -7, 0),       # value -1: Abs
           ("uint8", 0.1, 128, 192, 2.0 ** -7, 0),     # value 1.5: must not be rewritten
           ("int8", 0.1, 0, -30, 0.01, 0),             # value -0.3: must not be rewritten
           ("int8", 0.1, 5, 0, 0.01, -100), ("uint8", 0.2, 7, 128, 2.0 ** -7, 0)]   # value exactly 1
    mm = [t + (sm, sx) for t in mm0 for sm in (False, True) for sx in (False, True)]
    for _ in range(6 * n):
        dtn = rng.choice(["int8", "int8", "uint8"])
        lo_, hi_ = (-128, 127) if dtn == "int8" else (0, 255)
        mm.append((dtn, rand_scale(rng), zp_for(dtn), rng.randrange(lo_, hi_ + 1), rand_scale(rng, -12, -6),
                   rng.choice([lo_, 0 if dtn == "uint8" else -128, rng.randrange(lo_, hi_ + 1)]), rng.random() < 0.5, rng.random() < 0.5))
    mcases, minfo, kcases, kinfo = [], [], [], []
    n_mm = n_kind = 0
    for dtn, sx_, zx, code, sc_, zc, swap_mul, swap_max in mm:
        dsx, dsc = float(f32(sx_)), float(f32(sc_))
        qmin, qmax = (-128, 127) if dtn == "int8" else (0, 255)
        val = Fraction(dsc) * (code - zc)
        want_kind = "LeakyRelu" if 0 <= val <= 1 else "Abs" if val == -1 else "Maximum"
        key = {"table": "mulmax", "dtype": dtn, "ifm_scale": dsx, "zp": zx, "alpha_code": code, "alpha_scale": dsc, "alpha_zp": zc,
               "const_first_in_mul": bool(swap_mul), "mul_first_in_max": bool(swap_max)}
        mx = mulmax_graph(dtn, sx_, zx, code, sc_, zc, swap_mul, swap_max)
        r = run_rewrite(tgo.convert_mul_max_to_abs_or_lrelu, mx, arch, None)
        n_kind += 1
        out["evals"] += 1
        if r[0] != "ok":
            out["viol"].setdefault(("mulmax", "crash"), (dict(table="mulmax", failure=r[1]), dict(key, observed=list(r[1:])),
                                                        "convert_mul_max_to_abs_or_lrelu raised %r" % (r[1:],)))
            continue
        got_kind = mx.type.name
        if got_kind != want_kind:
            out["viol"].setdefault(("mulmax", "decision", want_kind), (
                dict(table="mulmax", failure="decision", expected=want_kind),
                dict(key, alpha_real=float(val), observed=got_kind, required=want_kind),
                "Maximum(x, Mul(x, c)) with c = %r*(%d - %d) = %.6g was rewritten to %s; by the value of c it must be %s" % (
                    dsc, code, zc, float(val), got_kind, want_kind)))
            continue
        fr = Fraction(dsc)
        kcases.append([code, zc, fr.numerator, -(fr.denominator.bit_length() - 1)])
        kinfo.append((key, {"Maximum": 0, "LeakyRelu": 1, "Abs": 2}[want_kind]))
        if want_kind != "LeakyRelu" or val == 0:
            continue
        asc_attr = mx.attrs.get("alpha_scaling")
        r = run_rewrite(tgo.convert_lrelu, mx, arch, None)
        out["tables"] += 1
        n_mm += 1
        if r[0] != "ok" or getattr(r[1], "activation_lut", None) is None:
            out["viol"].setdefault(("mulmax", "crash"), (dict(table="mulmax", failure=r[1] if r[0] == "exc" else "no LUT"),
                                                        dict(key, observed=list(r[1:]) if r[0] == "exc" else "no LUT"),
                                                        "the rewritten Mul+Maximum did not get a table: %r" % (r[1:],)))
            continue
        table = [int(v) for v in r[1].activation_lut.values]
        m2, s2 = ref_quantize_multiplier(dsx * dsc / dsx)     # TFLite MUL: double(s1) * double(s2) / double(s_out)
        ref = []
        for x in range(qmin, qmax + 1):
            mulv = max(qmin, min(qmax, zx + ref_mbqm(wrap(32, (x - zx) * (code - zc)), m2, s2)))
            ref.append(max(x, mulv))                          # MAXIMUM of equally quantised operands
        bad = [i for i, v in enumerate(table) if v != ref[i]]
        really_bad = []
        for i in bad:
            x = qmin + i
            real = (x - zx) * (val if x < zx else 1) + zx      # output quantisation == input quantisation
            real = min(Fraction(qmax), max(Fraction(qmin), real))
            if abs(table[i] - real) > Fraction(1, 2) + Fraction(1, 1024):
                really_bad.append(i)
        out["evals"] += len(table)
        out["nontrivial"].add(("mulmax", dtn, dsx, zx, code, dsc, zc, swap_mul, swap_max))
        if really_bad:
            i = really_bad[0]
            out["viol"].setdefault(("mulmax", "value", bool(swap_mul)), (
                dict(table="mulmax", failure="value", const_first_in_mul=bool(swap_mul)),
                dict(key, code=qmin + i, observed=table[i], reference=ref[i], alpha_real=float(val), n_bad=len(really_bad),
                     alpha_scaling_attr=[int(np.asarray(v).flatten()[0]) for v in asc_attr] if asc_attr else None,
                     reference_multiplier=[m2, 31 - s2]),
                "Maximum(x, Mul(%s)) table (alpha %.6g = %r*(%d - %d), x scale %r): entry for code %d is %d, the MUL+MAXIMUM reference "
                "kernels give %d (%d of 256 entries wrong)" % ("c, x" if swap_mul else "x, c", float(val), dsc, code, zc, dsx, qmin + i,
                                                               table[i], ref[i], len(really_bad))))
        ids, idsh = scaling.elementwise_mul_scale(np.double(f32(sx_)), 1, np.double(f32(sx_)))
        a11, s11 = scaling.elementwise_mul_scale(np.double(f32(sx_)), np.double(f32(sx_)), np.double(f32(sx_)))
        a12, s12 = scaling.elementwise_mul_scale(np.double(f32(sx_)), np.double(f32(sc_)), np.double(f32(sx_)))
        if 16 <= s12 <= 62 and 9 <= idsh <= 62:
            mcases.append([1 if swap_mul else 0, zx, zx, zc, code, int(ids), int(idsh), int(a11), int(s11), int(a12), int(s12), qmin, qmax])
            minfo.append((key, table))
        if n_mm <= 1:
            out["samples"].append(dict(key, first_entries=table[:6], last_entries=table[-4:]))
    if okx and mcases:
        for (key, table), mo in zip(minfo, prun("mulmax_table", mcases, chunks=min(8, len(mcases)))):
            st, gv = mo[0::3], mo[1::3]
            if any(s_ != 1 for s_ in st) or gv != table:
                i = next((j for j in range(len(table)) if j >= len(gv) or st[j] != 1 or gv[j] != table[j]), 0)
                out["corr"].setdefault(("mulmax", "model"), dict(key, code_index=i, model=mo[3 * i:3 * i + 3], impl=table[i]))
    if okx and kcases:
        for (key, k), mo in zip(kinfo, prun("mulmax_kind", kcases, chunks=1)):
            if mo[1] != k:
                out["corr"].setdefault(("mulmax", "decision-model"), dict(key, model=mo, impl_kind=k))
    out["dist"]["mulmax_tables"] = n_mm
    out["dist"]["mulmax_decisions"] = n_kind

    # ---- hard swish -------------------------------------------------------------------------
    rng = section_rng("hardswish")
    hs = [("int8", 0.005, -128, 0.04, -128), ("int8", 0.011, 0, 0.011, 0), ("uint8", 0.003, 128, 0.003, 128), ("int8", 0.0117, -3, 0.02, 5),
          ("int8", 0.04, -128, 0.04, -128), ("int8", 0.0234, 10, 0.03, -10), ("uint8", 0.1, 0, 0.05, 0), ("int8", 0.0118, -128, 0.02, -128)]
    for _ in range(10 * n):
        dtn = rng.choice(["int8", "int8", "uint8"])
        si = rand_scale(rng, -10, -2)
        hs.append((dtn, si, zp_for(dtn), float(f32(si * 2.0 ** rng.uniform(-1.5, 3))), zp_for(dtn)))
    mcases, minfo = [], []
    n_crash = 0
    for dtn, si, zi, so, zo in hs:
        dsi, dso = float(f32(si)), float(f32(so))
        os_, osh = scaling.quantise_scale(np.double(f32(si)) * (1 / 128) / np.double(f32(so)))
        rs_, rsh = scaling.quantise_scale(np.double(f32(si)) * (1 / 128) / np.double(3 / 32768))
        if not (31 <= osh <= 46 and 16 <= rsh <= 46):
            continue   # outside the reference kernel's own preconditions (output_multiplier_exponent <= 0)
        op, qmin, qmax = mk_op(Op.HardSwish, dt_of(dtn), si, zi, so, zo)
        r = run_rewrite(tgo.convert_hardswish_to_lut, op, arch, None)
        out["tables"] += 1
        key = {"table": "hardswish", "dtype": dtn, "ifm_scale": dsi, "zp_in": zi, "ofm_scale": dso, "zp_out": zo}
        cand = []
        for om, rm in ((dsi / 128 / dso, dsi / 128 / (3 / 32768)),
                       (float(f32(f32(1.0 / 128.0) * f32(si)) / f32(so)), float(f32(f32(1.0 / 128.0) * f32(si)) / f32(f32(3.0) / f32(32768.0))))):
            om32, oexp = ref_quantize_multiplier(om)
            rm32, rexp = ref_quantize_multiplier(rm)
            cand.append([ref_hardswish(x, zi, zo, ref_downscale(rm32), rexp, ref_downscale(om32), oexp, qmin, qmax)
                         for x in range(qmin, qmax + 1)])
        if r[0] != "ok" or getattr(r[1], "activation_lut", None) is None:
            n_crash += 1
            fail = r[1] if r[0] == "exc" else "no LUT"
            out["viol"].setdefault(("hardswish", "crash"), (
                dict(table="hardswish", failure=fail, relu_shift_below_31=bool(rsh < 31)),
                dict(key, observed=list(r[1:]), relu_shift=int(rsh), out_shift=int(osh), required_first_entries=cand[0][:8],
                     numpy=np.__version__),
                "convert_hardswish_to_lut raises %s (%s) instead of producing the table; ifm_scale=%r relu_shift=%d" % (
                    fail, r[3] if r[0] == "exc" else "", dsi, rsh)))
            if okx:
                mcases.append([zi, zo, int(os_), int(osh), int(rs_), int(rsh), qmin, qmax])
                minfo.append((key, None, cand))
            continue
        table = [int(v) for v in r[1].activation_lut.values]
        out["evals"] += len(table)
        out["nontrivial"].add(("hardswish", dtn, dsi, zi, dso, zo))
        bad = [i for i, v in enumerate(table) if v != cand[0][i] and v != cand[1][i]]
        if bad:
            i = bad[0]
            warned = any("overflow" in w for w in r[2])
            out["viol"].setdefault(("hardswish", "value", warned, bool(rsh < 31)), (
                dict(table="hardswish", failure="value", numpy_overflow_warning=warned, relu_shift_below_31=bool(rsh < 31)),
                                                           dict(key, code=qmin + i, observed=table[i], reference_double=cand[0][i],
                                                                reference_float32=cand[1][i], n_bad=len(bad), warnings=r[2]),
                                                           "hard-swish table entry differs from the TFLite reference kernel (ifm_scale=%r, code %d: %d, reference %d)" % (
                                                               dsi, qmin + i, table[i], cand[0][i])))
        mcases.append([zi, zo, int(os_), int(osh), int(rs_), int(rsh), qmin, qmax])
        minfo.append((key, table, cand))
    if okx and mcases:
        for (key, table, cand), mo in zip(minfo, prun("hswish_table", mcases, chunks=min(8, len(mcases)))):
            st, gv, rv = mo[0::3], mo[1::3], mo[2::3]
            if any(s != 1 for s in st) or gv != rv or gv != cand[0]:
                out["corr"].setdefault(("hardswish", "model-vs-oracle"), dict(key, model=mo[:12], oracle=cand[0][:4]))
            elif table is not None and gv != table:
                i = next(j for j in range(len(table)) if gv[j] != table[j])
                out["corr"].setdefault(("hardswish", "model"), dict(key, code_index=i, model=mo[3 * i:3 * i + 3], impl=table[i]))
    out["dist"]["hardswish_tables"] = len(hs)
    out["dist"]["hardswish_crashes"] = n_crash

    # ---- optimise_quantize: constant folding of same-width requantisation ------------------------
    rng = section_rng("quantize_fold")
    rq = [("int8", 0.05, -128, 0.1, -128), ("int8", 0.02, 3, 0.013, -5), ("int8", 0.5, 0, 0.004, 0), ("int16", 0.001, 0, 0.0007, 0),
          ("int16", 0.01, 0, 0.02, 0), ("int8", 0.1, 127, 0.1, -128),
          # pinned: scale pairs whose float32 quotient differs from the double quotient (the Q31 multiplier moves by tens of
          # units), with the int16 constants on which that changes the folded value (added below as discriminating constants)
          # (found by a search over scale pairs: 124, 68 and 56 of the 65536 int16 codes discriminate)
          ("int16", 0.3733404576778412, 0, 0.4346107840538025, 0), ("int16", 0.007658849935978651, 5, 0.012321320362389088, -3),
          ("int16", 0.10379436612129211, 0, 0.1710173338651657, 0)]
    for _ in range(8 * n):
        dtn = rng.choice(["int8", "int8", "int16"])
        si = rand_scale(rng)
        rq.append((dtn, si, zp_for("int8") if dtn == "int8" else rng.choice([0, 0, 5, -7]),
                   float(f32(si * 2.0 ** rng.uniform(-6, 6))), zp_for("int8") if dtn == "int8" else rng.choice([0, 0, -3, 11])))
    mcases, minfo = [], []
    for dtn, si, zi, so, zo in rq:
        if dtn == "int8":
            vals = list(range(-128, 128))
        else:
            vals = set([I16MIN, I16MIN + 1, -1, 0, 1, I16MAX - 1, I16MAX] + [bias16(rng) for _ in range(249)])
            # discriminating constants: the codes of the whole int16 range on which another evaluation order of the
            # effective scale (quotient taken in float32, as np.float32 / np.float32 does) gives a different folded value.
            # They depend only on the scale pair, not on any draw.
            m_d, t_d = ref_quantize_multiplier(float(f32(si)) / float(f32(so)))
            m_f, t_f = ref_quantize_multiplier(float(f32(si) / f32(so)))
            if (m_d, t_d) != (m_f, t_f) and -15 <= t_d <= 15:
                qlo, qhi = I16MIN, I16MAX
                disc = [v for v in range(I16MIN, I16MAX + 1)
                        if ref_requant(v, zi, zo, m_d, t_d, qlo, qhi) != ref_requant(v, zi, zo, m_f, t_f, qlo, qhi)]
                vals.update(disc[:24] + disc[-24:])
                out["dist"]["quantize_fold_discriminating_constants"] = out["dist"].get("quantize_fold_discriminating_constants", 0) + min(len(disc), 48)
            vals = sorted(vals)
        npv = np.array(vals, dtype=np.int8 if dtn == "int8" else np.int16)
        op, qmin, qmax = mk_op(Op.Quantize, dt_of(dtn), si, zi, so, zo, const_values=npv)
        dsi, dso = float(f32(si)), float(f32(so))
        m, tsh = ref_quantize_multiplier(dsi / dso)
        if any(not in32((v - zi) * (1 << max(0, tsh))) for v in vals):
            continue
        r = run_rewrite(tgo.optimise_quantize, op, arch, None)
        out["tables"] += 1
        key = {"table": "quantize_fold", "dtype": dtn, "ifm_scale": dsi, "zp_in": zi, "ofm_scale": dso, "zp_out": zo}
        if r[0] != "ok" or op.ofm.values is None:
            out["viol"].setdefault(("quantize_fold", "crash"), (dict(table="quantize_fold", failure=r[1] if r[0] == "exc" else "not folded"),
                                                               dict(key, observed=list(r[1:]) if r[0] == "exc" else "ofm.values is None"),
                                                               "optimise_quantize did not fold the constant: %r" % (r[1:],)))
            continue
        got = [int(v) for v in np.asarray(op.ofm.values).flatten()]
        want = [ref_requant(v, zi, zo, m, tsh, qmin, qmax) for v in vals]
        out["evals"] += len(got)
        out["nontrivial"].add(("quantize_fold", dtn, dsi, zi, dso, zo))
        if got != want:
            i = next(j for j in range(len(want)) if j >= len(got) or got[j] != want[j])
            out["viol"].setdefault(("quantize_fold", "value"), (dict(table="quantize_fold", failure="value"),
                                                               dict(key, constant=vals[i], observed=got[i] if i < len(got) else None, required=want[i]),
                                                               "folded %s quantize constant %d (ifm_scale %r zp %d -> ofm_scale %r zp %d) is %s, the reference "
                                                               "Requantize kernel (double(s_in)/double(s_out)) gives %d" % (
                                                                   dtn, vals[i], dsi, zi, dso, zo, got[i] if i < len(got) else None, want[i])))
        vm, vs = scaling.quantise_scale(np.float64(f32(si)) / np.float64(f32(so)))
        mcases.append([zi, zo, int(vm), int(vs), qmin, qmax] + vals)
        minfo.append((key, got))
    if okx and mcases:
        for (key, got), mo in zip(minfo, prun("requant", mcases, chunks=min(8, len(mcases)))):
            st, gv = mo[0::3], mo[1::3]
            if any(s != 1 for s in st) or gv != got:
                out["corr"].setdefault(("quantize_fold", "model"), dict(key, model=mo[:9], impl=got[:3]))
    out["dist"]["quantize_fold_tensors"] = len(rq)

    # ---- softmax exp table (softmax.py: saturating_rounding_mul32 + exp_on_negative_values on Python ints) -----
    rng = section_rng("softmax")
    from ethosu.vela.softmax import SoftMax
    sm = [(1.0, 0.05), (1.0, 1 / 256), (1.0, 0.1), (2.0, 0.03), (0.5, 0.2), (1.0, 1.0)]
    # pinned, 'sharp' softmax: beta * input_scale * 2^26 in [2^30, 2^31) is left shift 31 = Vela shift exactly 0 (the edge of
    # quantise_scale's valid range), [2^29, 2^30) is Vela shift 1, above 2^31 - 1 the scale is clamped (again shift 0)
    sm += [(100.0, 0.2), (16.0, 1.0), (31.99, 1.0), (20.0, 1.0), (15.999, 1.0), (8.0, 1.0), (12.0, 1.0), (64.0, 1.0), (200.0, 0.5),
           (32.0, 0.5), (7.999, 1.0)]
    sm += [(rng.choice([1.0, 1.0, 0.25, 4.0]), rand_scale(rng, -9, 1)) for _ in range(6 * n)]
    for beta, si in sm:
        key = {"table": "softmax_exp", "beta": beta, "ifm_scale": float(f32(si))}
        with warnings.catch_warnings(record=True):
            warnings.simplefilter("always")
            try:
                got = [int(v) for v in SoftMax(None).generate_exp_table(beta, f32(si))]
            except Exception as ex:
                out["viol"].setdefault(("softmax_exp", "crash"), (dict(table="softmax_exp", failure=type(ex).__name__),
                                                                 dict(key, observed=str(ex)[:200]), "generate_exp_table raised %r" % (ex,)))
                continue
        out["tables"] += 1
        real_beta = min(float(np.double(beta) * np.double(f32(si)) * (1 << 26)), float((1 << 31) - 1.0))
        m, ls = ref_quantize_multiplier(real_beta)
        diff_min = -1.0 * math.floor(1.0 * 31 * (1 << 26) / (1 << ls)) if 0 <= ls < 63 else 0
        want = []
        for x in range(256):
            d = x - 255
            want.append(ref_exp_neg(ref_srdhm32(d * (1 << ls), m)) if d >= diff_min and ls >= 0 and in32(d * (1 << ls)) else 0)
        out["evals"] += 256
        out["nontrivial"].add(("softmax_exp", beta, float(f32(si))))
        if got != want:
            i = next(j for j in range(256) if j >= len(got) or got[j] != want[j])
            out["viol"].setdefault(("softmax_exp", "value"), (dict(table="softmax_exp", failure="value"),
                                                             dict(key, index=i, observed=got[i] if i < len(got) else None, required=want[i]),
                                                             "softmax exp table (beta %r, input scale %r; reference multiplier %d, left shift %d): entry %d is %s, the "
                                                             "gemmlowp exp_on_negative_values pipeline gives %d (%d of 256 entries differ)" % (
                                                                 beta, float(f32(si)), m, ls, i, got[i] if i < len(got) else None, want[i],
                                                                 sum(1 for j in range(256) if j >= len(got) or got[j] != want[j]))))
    out["dist"]["softmax_exp_tables"] = len(sm)
    return out


# ------------------------------------------------------------------------------------------------
# D3: per-table Coq-Interval certificates for the real-function tables (sigmoid, tanh)
CERT_DIR = os.path.join(vlib.BUILD, "lutcert")
EPS_NUM, EPS_DEN = 1, 1024    # 2^-10 quantisation steps: covers the float64 evaluation (relative error ~1e-15 of values
#                               below 2^9) and the rounding of `f + 0.5` inside round_away_zero by many orders of magnitude


def rlit(fr):
    fr = Fraction(fr)
    n, d = fr.numerator, fr.denominator
    s = "(%d / %d)" % (n, d) if d != 1 else "%d" % n
    return s if n >= 0 else "(%s)" % s if d == 1 else "(- (%d / %d))" % (-n, d)


CHUNK = 128


def cert_text(fname, dtn, si, zi, so, zo, qmin, qmax, table, lo=0, hi=None, print_assumptions=False):
    """Coq source: one lemma per table entry (entries lo..hi-1 of the table)"""
    hi = len(table) if hi is None else hi
    L = ["(* GENERATED by tools/checks/c19.py: certificate for one %s table of Vela's convert_to_lut8." % fname,
         "   ifm_scale=%r zp_in=%d ofm_scale=%r zp_out=%d dtype=%s.  v = table entry, x = input code." % (float(si), zi, float(so), zo, dtn),
         "   Statement per entry: |v - (f(s_in*(x - zp_in))/s_out + zp_out)| <= 1/2 + 2^-10, or, for v at the end of the",
         "   output range, the saturated form (the real value is beyond v -/+ (1/2 + 2^-10)). *)",
         "From Coq Require Import Reals.", "From Interval Require Import Tactic.", "Open Scope R_scope.", "",
         "Definition sigmoid (t : R) : R := 1 / (1 + exp (- t)).",
         "Definition s_in : R := %s." % rlit(si), "Definition s_out : R := %s." % rlit(so),
         "Definition eps : R := %d / %d." % (EPS_NUM, EPS_DEN), ""]
    f = "sigmoid" if fname == "sigmoid" else "tanh"
    first = None
    for i in range(lo, hi):
        v = table[i]
        x = qmin + i
        tgt = "(%s (s_in * %s) / s_out + %s)" % (f, rlit(x - zi), rlit(zo))
        nm = "e_%s%d" % ("m" if x < 0 else "", abs(x))
        if v == qmax and qmax != qmin:
            stmt = "%s - 1 / 2 - eps <= %s" % (rlit(v), tgt)
        elif v == qmin:
            stmt = "%s <= %s + 1 / 2 + eps" % (tgt, rlit(v))
        else:
            stmt = "Rabs (%s - %s) <= 1 / 2 + eps" % (rlit(v), tgt)
        first = first or nm
        L.append("Lemma %s : %s." % (nm, stmt))
        L.append("Proof. unfold eps, s_in, s_out, sigmoid, tanh, sinh, cosh. interval. Qed.")
    L.append("")
    if print_assumptions:   # costs ~8 s of coqc time: done for one chunk per run, the tactic is the same everywhere
        L.append("Print Assumptions %s." % first)
    return "\n".join(L) + "\n"


def float_precheck(fname, si, zi, so, zo, qmin, qmax, table):
    """float evaluation of the same statements: gives the (parameters, code, value) triple when a goal will fail"""
    bad = []
    for i, v in enumerate(table):
        x = qmin + i
        t = float(Fraction(si) * (x - zi))
        y = (1.0 / (1.0 + math.exp(-t))) if fname == "sigmoid" else math.tanh(t)
        tgt = y / float(so) + zo
        eps = 0.5 + EPS_NUM / EPS_DEN
        ok = (v == qmax and tgt >= v - eps) or (v == qmin and tgt <= v + eps) or abs(v - tgt) <= eps
        if not ok:
            bad.append((x, v, tgt))
    return bad


def start_certificates(tier, rng):
    """run the real rewrites, write certificates, start coqc processes; returns the job list"""
    from ethosu.vela import tflite_graph_optimiser as tgo
    from ethosu.vela.data_type import DataType
    from ethosu.vela.operation import Op
    from ethosu.vela.test import testutil
    arch = testutil.create_arch()
    os.makedirs(CERT_DIR, exist_ok=True)
    params = [("sigmoid", "int8", 0.047, -3, 1 / 256, -128), ("tanh", "int8", 0.02, 5, 1 / 128, 0),
              ("sigmoid", "uint8", 0.1, 128, 1 / 256, 0), ("tanh", "uint8", 0.05, 120, 1 / 128, 128)]
    if tier == "thorough":
        # corpus: clamp_sigmoid's cut-off at |x| >= 8 flips the rounding of codes 55.. when the output scale is not 1/256
        params.append(("sigmoid", "int8", 0.12572947144508362, -9, 0.013983922079205513, -50))
    extra = {"quick": 2, "thorough": 195}[tier]
    for _ in range(extra):
        fname = rng.choice(["sigmoid", "tanh"])
        dtn = rng.choice(["int8", "int8", "uint8"])
        lo, hi = (-128, 127) if dtn == "int8" else (0, 255)
        si = rand_scale(rng, -8, -1)
        if rng.random() < 0.6:   # the output quantisation TFLite prescribes for these operators
            so, zo = (1 / 256, lo) if fname == "sigmoid" else (1 / 128, (lo + hi + 1) // 2)
        else:
            so, zo = rand_scale(rng, -9, -5), rng.randrange(lo, hi + 1)
        params.append((fname, dtn, si, rng.randrange(lo, hi + 1), so, zo))
    jobs = []
    for fname, dtn, si, zi, so, zo in params:
        dt = DataType.int8 if dtn == "int8" else DataType.uint8
        op, qmin, qmax = mk_op(Op.Sigmoid if fname == "sigmoid" else Op.Tanh, dt, si, zi, so, zo)
        r = run_rewrite(tgo.convert_tanh_sigmoid_to_lut, op, arch, None)
        key = {"table": fname, "dtype": dtn, "ifm_scale": float(f32(si)), "zp_in": zi, "ofm_scale": float(f32(so)), "zp_out": zo}
        job = {"key": key, "proc": None, "status": None}
        jobs.append(job)
        if r[0] != "ok" or getattr(r[1], "activation_lut", None) is None:
            job["status"] = "crash"
            job["detail"] = list(r[1:]) if r[0] == "exc" else "no LUT"
            continue
        table = [int(v) for v in r[1].activation_lut.values]
        fsi, fso = Fraction(float(f32(si))), Fraction(float(f32(so)))
        job["table"] = table
        job["qrange"] = (qmin, qmax)
        job["precheck"] = float_precheck(fname, fsi, zi, fso, zo, qmin, qmax, table)
        job["chunks"] = []
        spans = [(lo, min(len(table), lo + CHUNK), False) for lo in range(0, len(table), CHUNK)]
        if len(jobs) == 1:
            spans.append((0, 1, True))     # a one-entry file whose only purpose is the Print Assumptions output
        for lo, hi_, pa in spans:
            text = cert_text(fname, dtn, fsi, zi, fso, zo, qmin, qmax, table, lo, hi_, print_assumptions=pa)
            h = hashlib.sha256(text.encode()).hexdigest()[:16]
            base = os.path.join(CERT_DIR, "LutCert_%s" % h)
            ch = {"file": base + ".v", "proc": None, "status": None, "entries": 0 if pa else hi_ - lo}
            job["chunks"].append(ch)
            if os.path.exists(base + ".ok"):
                ch["status"] = "ok"
                ch["cached"] = True
                ch["assumptions"] = open(base + ".ok").read()
                continue
            with open(base + ".v", "w") as fh:
                fh.write(text)
            # bound the number of concurrent coqc processes
            while sum(1 for j in jobs for c in j.get("chunks", []) if c["proc"] is not None and c["proc"].poll() is None) >= vlib.NCPU:
                time.sleep(0.1)
            ch["t0"] = time.time()
            ch["proc"] = subprocess.Popen(["timeout", "600", "coqc", "-q", base + ".v"], stdout=subprocess.PIPE,
                                          stderr=subprocess.STDOUT, text=True, cwd=CERT_DIR)
    return jobs


def finish_certificates(jobs):
    for j in jobs:
        for c in j.get("chunks", []):
            if c["proc"] is not None:
                outp = c["proc"].communicate()[0]
                c["wall"] = round(time.time() - c["t0"], 1)
                if c["proc"].returncode == 0:
                    c["status"] = "ok"
                    ax = outp[outp.find("Axioms:"):] if "Axioms:" in outp else outp.strip()
                    names = sorted(set(m for m in __import__("re").findall(r"^([A-Za-z_][\w.']*) :", ax, __import__("re").M)))
                    c["assumptions"] = "Axioms: " + " | ".join(names) if names else " ".join(ax.split())[:300]
                    with open(c["file"][:-2] + ".ok", "w") as fh:
                        fh.write(c["assumptions"])
                else:
                    c["status"] = "failed"
                    c["log"] = outp[-1500:]
        if j["status"] is None:
            ch = j.get("chunks", [])
            j["status"] = "ok" if ch and all(c["status"] == "ok" for c in ch) else "failed"
            j["cached"] = bool(ch) and all(c.get("cached") for c in ch)
            j["assumptions"] = next((c["assumptions"] for c in ch if c.get("assumptions", "").startswith("Axioms")), "")
            j["log"] = next((c["log"] for c in ch if c["status"] == "failed"), "")
            j["file"] = next((c["file"] for c in ch if c["status"] == "failed"), ch[0]["file"] if ch else None)
    return jobs


# ------------------------------------------------------------------------------------------------
def run(tier):
    res = vlib.Result("C19", tier, "proof")
    rng = random.Random(vlib.seed())
    jobs = start_certificates(tier, random.Random(vlib.seed() + 19))
    b = vlib.build_property("C19")
    vlib.proof_coverage(res, b, [
        "extraction (ExtrOcamlBasic only) + ocaml/driver.ml for the correspondence run of build/fpMath",
        "coq/model/FpMath.v: the gemmlowp / TFLite reference functions were transcribed by hand from the upstream sources "
        "(no network: from knowledge of fixedpoint.h, common.h, hard_swish.h, leaky_relu.h, requantize.h); an independent second "
        "transcription in tools/checks/c19.py is compared with it on every case",
        "modelled, not verified: NumPy scalar semantics (the theorems are about Python-int evaluation; every NumPy type a call "
        "site passes is exercised against the model by correspondence), the float derivation of multipliers (C09)",
        "D3 certificates: Coq-Interval / Flocq / Reals with the axioms printed under `certificates.assumptions`; the generator "
        "of the certificate statements (cert_text) and Fraction(float32) as the exact value of a scale",
    ])
    okx, xlog = vlib.build_extraction(EXE)
    if not okx:
        res.notes.append("extraction build failed: " + xlog[-500:])
    fp = check_fpmath(tier, rng, okx)
    tb = check_tables(tier, rng, okx)
    finish_certificates(jobs)

    raised = 0
    explained = set()
    # 1. property oracle failures on the implementation: real violations with their input
    for (name, tkey), v in sorted(fp["viol"].items()):
        what = "fp_math.%s(%s) on %r gives %r, the reference gives %r (%d such cases)" % (
            name, tkey, v["args"], v["observed"], v["required"], v["count"])
        raised += bool(res.violation({"function": name, "arg_types": tkey}, v, what))
    for tk, (key, detail, what) in sorted(tb["viol"].items()):
        tname = tk[0]
        explained.add(tname)
        raised += bool(res.violation(key, detail, what))
    n_cert_ok = n_cert_entries = n_cached = 0
    cert_ax = ""
    for j in jobs:
        if j["status"] == "ok":
            n_cert_ok += 1
            n_cert_entries += sum(c["entries"] for c in j["chunks"])
            n_cached += bool(j.get("cached"))
            cert_ax = cert_ax or j.get("assumptions", "")
            continue
        key = dict(j["key"], failure="crash" if j["status"] == "crash" else "certificate")
        if j["status"] == "crash":
            raised += bool(res.violation(key, {"observed": j.get("detail")}, "convert_tanh_sigmoid_to_lut did not produce a table: %r" % (j.get("detail"),)))
        elif j.get("precheck"):
            x, v, tgt = j["precheck"][0]
            if j["key"]["table"] == "sigmoid":
                # do all failing codes lie where clamp_sigmoid replaces the function by 0 / 1 (|x_real| >= 8)?
                # and is the entry exactly what rounding the cut-off value (0.0 / 1.0) gives?  Then the failure is the known
                # clamp_sigmoid cut-off effect and nothing else.
                qlo, qhi = j["qrange"]

                def cut_value(c):
                    y = 1.0 if c - j["key"]["zp_in"] > 0 else 0.0
                    f = j["key"]["zp_out"] + y / j["key"]["ofm_scale"]
                    return min(qhi, max(qlo, int(math.floor(abs(f) + 0.5)) * (1 if f >= 0 else -1)))
                key["only_beyond_cutoff_8"] = all(abs(j["key"]["ifm_scale"] * (c - j["key"]["zp_in"])) >= 8 and tv == cut_value(c)
                                                  for c, tv, _ in j["precheck"])
            raised += bool(res.violation(key, {"code": x, "table_value": v, "real_value": tgt, "n_entries_failing": len(j["precheck"]),
                                               "certificate": j.get("file"), "coqc": j.get("log", "")[-600:]},
                                         "%s table entry for code %d is %d but f(dequant)/s_out+zp = %.6f: not the rounded and saturated value" % (
                                             j["key"]["table"], x, v, tgt)))
        else:
            raised += bool(res.violation(key, {"certificate": j.get("file"), "coqc": j.get("log", "")[-1200:]},
                                         "interval certificate of a %s table no longer checks (no failing entry found by float evaluation)" % j["key"]["table"],
                                         no_input=True))

    def search():
        return None   # every oracle was already evaluated above; nothing further to search

    # 2. broken proof build
    if not b["ok"] and raised == 0:
        vlib.report_broken_build(res, b, search)
    # 3. model / implementation differences not explained by a reported property violation
    diffs = 0
    for (name, kind), d in sorted(fp["corr"].items()):
        diffs += 1
        res.violation({"correspondence": "fp_math." + name, "kind": kind}, d,
                      "correspondence of fp_math.%s with the translated model / reference no longer holds (%s)" % (name, kind), no_input=True)
    for (tname, kind), d in sorted(tb["corr"].items()):
        diffs += 1
        if tname in explained and kind == "model":
            continue
        res.violation({"correspondence": "table." + tname, "kind": kind}, d,
                      "correspondence of the %s table generator with the model no longer holds (%s)" % (tname, kind), no_input=True)
    if not okx:
        res.violation({"correspondence": "extraction"}, {"log": xlog[-1500:]}, "extracted model does not build", no_input=True)

    res.cov.update({
        "evaluations": fp["evals"] + tb["evals"] + n_cert_entries,
        "distinct_nontrivial": len(fp["nontrivial"]) + len(tb["nontrivial"]) + n_cert_ok,
        "rule": "fp_math: distinct in-domain argument tuples with all operands non-zero on which the real function (called with each "
                "scalar type combination a call site passes) returned the reference value; tables: distinct parameter sets whose whole "
                "table (256 codes) was produced by the real rewrite and judged; certificates: tables with every entry proved by coqc",
        "fp_math": fp["per_function"],
        "fp_math_evaluations": fp["evals"],
        "numpy_types_not_passed_by_any_call_site": fp["info"],
        "numpy_int16_model_of_shift_left16_cases": fp.get("np_model_cases", 0),
        "tables": dict(tb["dist"], tables_judged=tb["tables"], entries_judged=tb["evals"]),
        "certificates": {"tables_certified": n_cert_ok, "tables_attempted": len(jobs), "entries_proved": n_cert_entries,
                         "from_cache": n_cached, "eps": "2^-10", "assumptions": cert_ax,
                         "checker_cmd": "cd /verif/build/lutcert && coqc -q LutCert_<sha>.v",
                         "parameters": [j["key"] for j in jobs][:8]},
        "model_vs_impl_differences": diffs,
        "samples": fp["samples"][:4] + tb["samples"][:2],
    })
    res.assumptions += ["CPython evaluates the translated subset of fp_math.py as Z arithmetic",
                        "the transcriptions in coq/model/FpMath.v are the upstream gemmlowp/TFLite functions",
                        "multipliers/shifts reach the table generators from scaling.quantise_scale (property C09)"]
    return res.finish()
