"""C07 -- weight compression is lossless, hardware-ordered and memory-safe (PARTIAL, level `other`).

Proof (coq/props/C07.v): the brick traversal `reorder` of mlw_encode.c (model Reorder.reorder) is a padded
permutation of the source volume in the documented nesting order for every valid configuration; the bit
writer/reader pair round-trips; the model of the reference decoder mlw_decode.c terminates on every input and
never reads outside the buffer.

Correspondence / testing (NOT proof), this file:
  * Reorder.reorder  vs  the real C `reorder`, observed through weight_compressor.encode_weights /
    api.npu_encode_weights / mlw_codec.reorder_encode + mlw_codec.decode with index-coded weights;
  * MlwDecode.decode vs  mlw_codec.decode on encoder output and on corrupted / truncated streams (the real
    decoder calls exit(1) on an underrun, so every such call runs in a forked child);
  * per input: decode_model(encode(w)) == w, decode_model(reorder_encode(v)) == reorder_model(v),
    len(stream) % 16 == 0, out-of-range weights raise;
  * thorough tier: the same inputs through an ASan/UBSan build of /repo's C sources (supporting evidence);
  * compiled networks (D2, both tiers): every (core, depth-slice) weight stream in the output file of the shared
    compilation plan is decoded with the extracted decoder model and compared with the operator's source weights
    (read from the INPUT .tflite) put through the extracted traversal model with the parameters the hardware uses:
    core k owns channels k, k+ncores, ... of the slice, block depth = its share of the emitted OFM_BLK_DEPTH
    register, traversal / dilation / precision from the emitted KERNEL_STRIDE / IFM_PRECISION registers,
    micro-blocks from the accelerator table written down here.
The palette search / GRC parameter search of the encoder and the memory safety of the C code are not modelled.
"""
import collections
import hashlib
import itertools
import json
import os
import random
import re
import subprocess
import sys
import time

HERE = os.path.dirname(os.path.abspath(__file__))

ACCS = ["Ethos_U55_32", "Ethos_U55_64", "Ethos_U55_128", "Ethos_U55_256", "Ethos_U65_256", "Ethos_U65_512"]
B = 510  # non-zero weight values -255..-1, 1..255


# ------------------------------------------------------------------------------------------ shared by worker and parent
def digit_values(n, k):
    """pass k of the index coding: position p carries digit k of p in base 510 as a non-zero weight"""
    out = []
    for p in range(n):
        d = (p // (B ** k)) % B
        out.append(d + 1 if d < 255 else -(d - 254))
    return out


def undigit(v):
    return v - 1 if v > 0 else 254 - v


def gen_values(spec, n):
    if spec[0] == "digits":
        return digit_values(n, spec[1])
    rng = random.Random(spec[1])
    kind = spec[2]
    if kind == "dense":
        return [rng.randint(-255, 255) for _ in range(n)]
    if kind == "sparse":
        return [rng.choice([0, 0, 0, 0, 0, 0, 0, 1, -1, 3]) for _ in range(n)]
    return [max(-255, min(255, int(rng.gauss(0, 12)))) for _ in range(n)]


# ------------------------------------------------------------------------------------------ worker (real code)
def _forked(fn, timeout=60):
    """run fn() in a forked child; returns (code, text): code 0 and the child's text, or exit code / -signal"""
    import resource
    import signal
    r, w = os.pipe()
    pid = os.fork()
    if pid == 0:
        try:
            os.close(r)
            dn = os.open(os.devnull, os.O_WRONLY)
            os.dup2(dn, 1)
            os.dup2(dn, 2)
            resource.setrlimit(resource.RLIMIT_AS, (4 << 30, 4 << 30))
            signal.alarm(timeout)
            txt = fn()
            os.write(w, txt.encode())
            os._exit(0)
        except BaseException:
            os._exit(77)
    os.close(w)
    chunks = []
    while True:
        c = os.read(r, 1 << 16)
        if not c:
            break
        chunks.append(c)
    os.close(r)
    _, st = os.waitpid(pid, 0)
    code = os.WEXITSTATUS(st) if os.WIFEXITED(st) else -os.WTERMSIG(st)
    return code, b"".join(chunks).decode()


def make_volume(np, job):
    ofd, kh, kw, ifd = job["shape"]
    vals = gen_values(job["vals"], ofd * kh * kw * ifd)
    if job.get("poke") is not None:
        vals[job["poke"][0]] = job["poke"][1]
    a = np.array(vals, dtype=np.int16).reshape(ofd, kh, kw, ifd)
    lay = job.get("layout", "c")
    if lay == "slice":       # a strided view into a larger array, as weight_compressor slices bricks
        big = np.zeros((ofd, kh, kw, 2 * ifd + 3), dtype=np.int16)
        big[:, :, :, 1:1 + 2 * ifd:2] = a
        a = big[:, :, :, 1:1 + 2 * ifd:2]
    elif lay == "transposed":  # HWIO storage viewed as OHWI, as the compiler transposes
        t = np.ascontiguousarray(np.transpose(a, (1, 2, 3, 0)))
        a = np.transpose(t, (3, 0, 1, 2))
    elif lay == "core":      # every second output channel of a larger volume (core_deinterleave)
        big = np.zeros((2 * ofd, kh, kw, ifd), dtype=np.int16)
        big[1::2] = a
        a = big[1::2]
    return a


def do_renc(job):
    import numpy as np
    from ethosu import mlw_codec
    a = make_volume(np, job)
    how = job["api"]
    if how == "raw":
        enc, n = mlw_codec.reorder_encode(job["iud"], job["oud"], a, job["obd"], job["dw"], job["pk"], job["bd"],
                                          job["dh"], job["dw_"])
    else:
        from ethosu.vela import api, weight_compressor
        from ethosu.vela.architecture_features import Accelerator
        trav = api.NpuBlockTraversal.PART_KERNEL_FIRST if job["pk"] else api.NpuBlockTraversal.DEPTH_FIRST
        if how == "wc":
            acc = getattr(Accelerator, job["acc"])
            enc, n = weight_compressor.encode_weights(acc, a, tuple(job["dil"]), job["bd"], job["obd"], bool(job["dw"]), trav)
        else:
            acc = getattr(api.NpuAccelerator, job["acc"])
            enc = api.npu_encode_weights(acc, a, tuple(job["dil"]), job["bd"], job["obd"], bool(job["dw"]), trav)
            n = None
    return bytes(enc), n


def worker_main(jobfile, outfile):
    sys.path.insert(0, os.environ.get("VERIF_REPO", "/repo"))
    from ethosu import mlw_codec
    out = open(outfile, "w")
    for line in open(jobfile):
        job = json.loads(line)
        k = job["k"]
        res = {"i": job["i"]}
        out.write(json.dumps({"i": job["i"], "start": 1}) + "\n")
        out.flush()
        try:
            if k == "enc":
                try:
                    s = bytes(mlw_codec.encode(job["w"]))
                    d = mlw_codec.decode(bytearray(s))
                    res.update(ok=1, s=s.hex(), d=d)
                except (ValueError, TypeError, SystemError, OverflowError) as ex:
                    res.update(ok=0, exc=type(ex).__name__)
            elif k == "renc":
                s, n = do_renc(job)
                d = mlw_codec.decode(bytearray(s))
                res.update(ok=1, s=s.hex(), n=n, d=d)
            elif k == "dec":
                raw = bytes.fromhex(job["s"])
                code, txt = _forked(lambda: " ".join(map(str, mlw_codec.decode(bytearray(raw)))))
                res.update(code=code, v=[int(x) for x in txt.split()] if code == 0 else None)
            elif k == "oor":
                def f():
                    try:
                        s, n = do_renc(job)
                    except Exception as ex:   # any Python exception is a rejection
                        return "raised " + type(ex).__name__
                    d = mlw_codec.decode(bytearray(s))
                    return "returned %d %s" % (len(s), " ".join(map(str, d[:64])))
                code, txt = _forked(f)
                res.update(code=code, txt=txt)
        except Exception as ex:  # an unexpected Python-level failure of the real code is a result, not a crash
            res.update(ok=0, exc=type(ex).__name__ + ": " + str(ex)[:200])
        out.write(json.dumps(res) + "\n")
        out.flush()
    out.close()


if __name__ == "__main__" and len(sys.argv) >= 4 and sys.argv[1] == "--worker":
    # the codec under test is the one built from /repo's CURRENT C sources (tools/codec_build.py)
    sys.path.insert(0, os.path.dirname(os.path.dirname(os.path.abspath(__file__))))
    try:
        import codec_build
        codec_build.install()
    except Exception as _ex:  # fall back to the extension found on PYTHONPATH
        sys.stderr.write("codec_build failed: %r\n" % (_ex,))
    worker_main(sys.argv[2], sys.argv[3])
    sys.exit(0)

# ------------------------------------------------------------------------------------------ parent side
import vlib  # noqa: E402
import models  # noqa: E402


def run_jobs(jobs, tag, nworkers=None):
    """run jobs in worker processes (fresh interpreters, real code); a worker that dies marks the job it was
    running as {"crash": returncode} and the rest of its jobs are given to a new worker."""
    for i, j in enumerate(jobs):
        j["i"] = i
    results = [None] * len(jobs)
    d = os.path.join(vlib.BUILD, "c07tmp", "%s-%d" % (tag, os.getpid()))
    os.makedirs(d, exist_ok=True)
    nworkers = min(nworkers or vlib.NCPU, max(1, len(jobs)))
    pending = [jobs[w::nworkers] for w in range(nworkers)]
    rnd = 0
    while any(pending):
        procs = []
        for w, js in enumerate(pending):
            if not js:
                continue
            jf = os.path.join(d, "j%d_%d.jsonl" % (rnd, w))
            of = os.path.join(d, "o%d_%d.jsonl" % (rnd, w))
            with open(jf, "w") as f:
                for j in js:
                    f.write(json.dumps(j) + "\n")
            p = subprocess.Popen([vlib.PY, os.path.abspath(__file__), "--worker", jf, of], env=vlib.py_env(),
                                 stdout=subprocess.DEVNULL, stderr=subprocess.PIPE)
            procs.append((w, js, of, p))
        nxt = [[] for _ in pending]
        for w, js, of, p in procs:
            try:
                _, err = p.communicate(timeout=3600)
            except subprocess.TimeoutExpired:
                p.kill()
                _, err = p.communicate()
            started = None
            done = set()
            if os.path.exists(of):
                for line in open(of):
                    try:
                        r = json.loads(line)
                    except ValueError:
                        continue
                    if r.get("start"):
                        started = r["i"]
                    else:
                        results[r["i"]] = r
                        done.add(r["i"])
            if p.returncode != 0:
                # the job that was started and has no result killed the interpreter
                rest = [j for j in js if j["i"] not in done]
                if started is not None and started not in done:
                    results[started] = {"i": started, "crash": p.returncode, "stderr": (err or b"").decode(errors="replace")[-600:]}
                    rest = [j for j in rest if j["i"] != started]
                elif rest:
                    results[rest[0]["i"]] = {"i": rest[0]["i"], "crash": p.returncode, "stderr": (err or b"").decode(errors="replace")[-600:]}
                    rest = rest[1:]
                nxt[w] = rest
        pending = nxt
        rnd += 1
        if rnd > 50:
            break
    try:
        import shutil
        shutil.rmtree(d)
    except OSError:
        pass
    return results


def accel_table():
    from ethosu.vela.architecture_features import Accelerator, ArchitectureFeatures
    t = {}
    for a in Accelerator:
        c = ArchitectureFeatures.accelerator_configs[a]
        t[a.name] = (c.ofm_ublock.depth, c.ifm_ublock.depth)
    sk = ArchitectureFeatures.SubKernelMax
    return t, (sk.height, sk.width)


def cfg_vector(job, table, skmax):
    """the twelve integers of Reorder.cfg for a job"""
    ofd, kh, kw, ifd = job["shape"]
    if job["api"] == "raw":
        oud, iud, dh, dw_ = job["oud"], job["iud"], job["dh"], job["dw_"]
    else:
        oud, iud = table[job["acc"]]
        dh, dw_ = skmax[0] // job["dil"][1], skmax[1] // job["dil"][0]
    return [ofd, kh, kw, ifd, oud, iud, job["obd"], int(job["dw"]), int(job["pk"]), job["bd"], dh, dw_]


def cfg_valid(c):
    ofd, kh, kw, ifd, oud, iud, obd, dw, pk, bd, dh, dw_ = c
    ibd = 16 if (pk or bd == 16) else 32
    return (min(c[:7]) > 0 and dh > 0 and dw_ > 0 and (obd % oud == 0 or ofd <= obd) and ibd % iud == 0 and (not dw or (ifd == 1 and not pk)))


def py_order_key(c, p):
    """independent statement of the documented nesting (property oracle), p a flat OHWI position"""
    ofd, kh, kw, ifd, oud, iud, obd, dw, pk, bd, dh, dw_ = c
    iz = p % ifd
    wx = (p // ifd) % kw
    wy = (p // (ifd * kw)) % kh
    oz = p // (ifd * kw * kh)
    ibd = 16 if (pk or bd == 16) else 32
    sub_w = min(kw - (wx // dw_) * dw_, dw_)
    ro, ri = oz % obd, iz % ibd
    iub = ri // iud
    return (oz // obd, iz // ibd, wy // dh, wx // dw_, iub if pk else 0, ro // oud,
            (wy % dh) * sub_w + wx % dw_, 0 if pk else iub, ro % oud, ri % iud)


# ------------------------------------------------------------------------------------------ generators
def seq_generators(rng):
    """name -> function(n) giving a weight sequence; chosen to reach every coding mode of the encoder"""
    def clip(x):
        return max(-255, min(255, int(x)))

    def dense(n):
        return [rng.randint(-255, 255) for _ in range(n)]

    def small(n):
        al = rng.sample(range(-40, 41), rng.randint(2, 32))
        return [rng.choice(al) for _ in range(n)]

    def sparse(n):
        p = rng.choice([0.6, 0.8, 0.95, 0.99])
        al = rng.sample(range(-255, 256), rng.randint(1, 40))
        return [0 if rng.random() < p else rng.choice(al) for _ in range(n)]

    def zeros(n):
        return [0] * n

    def const(n):
        return [rng.choice([1, -1, 255, -255, 17])] * n

    def two(n):
        a, b = rng.sample(range(-255, 256), 2)
        return [rng.choice([a, b]) for _ in range(n)]

    def gauss(n):
        s = rng.choice([0.7, 2, 6, 20, 60, 150])
        return [clip(rng.gauss(0, s)) for _ in range(n)]

    def switching(n):   # statistics change every few hundred weights: GRC switches and palette restarts
        out = []
        while len(out) < n:
            m = rng.choice([0.5, 1, 4, 30, 120])
            k = rng.randint(40, 700)
            z = rng.choice([0.0, 0.3, 0.8])
            off = rng.choice([0, 0, 100, -200])
            out += [0 if rng.random() < z else clip(off + rng.gauss(0, m)) for _ in range(k)]
        return out[:n]

    def far(n):         # no small magnitudes: direct offset > 0, large palette values
        return [rng.choice([-1, 1]) * rng.randint(rng.choice([9, 40, 200]), 255) for _ in range(n)]

    def extremes(n):
        return [rng.choice([255, -255, 254, 0, 1, -1, 128, -128]) for _ in range(n)]

    def ramp(n):
        s = rng.randint(-255, 255)
        return [((s + i) % 511) - 255 for i in range(n)]

    def runs(n):        # long zero runs between isolated values, run lengths beyond one unary word
        out = []
        while len(out) < n:
            out += [0] * rng.choice([1, 3, 12, 13, 40, 300, 5000]) + [rng.randint(-255, 255)] * rng.choice([1, 1, 2])
        return out[:n]

    def pal33(n):       # 33 distinct values: just too many for a palette
        al = rng.sample(range(-255, 256), 33)
        return [rng.choice(al) for _ in range(n)]

    return collections.OrderedDict(dense=dense, small=small, sparse=sparse, zeros=zeros, const=const, two=two, gauss=gauss,
                                   switching=switching, far=far, extremes=extremes, ramp=ramp, runs=runs, pal33=pal33)


def make_sequences(rng, tier):
    gens = seq_generators(rng)
    # corpus first: [0] is the one-element all-zero section that overflowed zrun_values in encode_section
    # (fixed in the C source by commit b193c0f; the sanitizer pass must report it again if it returns)
    seqs = [("corpus", w) for w in ([0], [0, 0], [1], [255], [-255], [0, 255], [0] * 13, [0] * 12 + [1], [3] + [0] * 40000 + [-3],
                                    [255, -255] * 20, list(range(-255, 256)), [0, 0, 0, 1] * 9000)]
    lens = [1, 2, 3, 7, 12, 13, 16, 31, 32, 33, 64, 100, 257, 600, 1500, 4000]
    reps = 2 if tier == "quick" else 25
    for name, g in gens.items():
        for _ in range(reps):
            for n in rng.sample(lens, 6):
                seqs.append((name, g(n)))
    # slices longer than 32767 weights, and long streams with many sections
    long_spec = [("small", 40000), ("dense", 34000)] if tier == "quick" else \
        [("small", 70000), ("dense", 40000), ("gauss", 100000), ("sparse", 300000), ("switching", 120000), ("runs", 200000),
         ("two", 66000), ("zeros", 70000)]
    for name, n in long_spec:
        seqs.append((name + "_long", gens[name](n)))
    return seqs


def exhaustive_sequences(tier):
    out = []
    spec = [((-2, -1, 0, 1, 2), 5), ((-255, 0, 255), 5)] if tier == "quick" else \
        [((-2, -1, 0, 1, 2), 6), ((-255, 0, 255), 7), ((-1, 0, 1), 9), ((0, 1), 12), ((-255, -1, 0, 7, 255), 5)]
    seen = set()
    for al, L in spec:
        for n in range(1, L + 1):
            for t in itertools.product(al, repeat=n):
                if t not in seen:
                    seen.add(t)
                    out.append(("exh", list(t)))
    return out


def make_reorder_jobs(rng, tier, table):
    jobs = []
    n_api = 150 if tier == "quick" else 3000
    n_raw = 50 if tier == "quick" else 1000
    kernels = [(1, 1), (3, 3), (1, 1), (2, 2), (5, 5), (9, 9), (1, 10), (7, 3), (10, 2), (3, 1), (1, 7), (8, 8), (17, 1), (4, 9)]
    combos = list(itertools.product(ACCS, [8, 16], ["df", "pk", "dw"]))
    rng.shuffle(combos)
    for i in range(n_api):
        acc, bd, trav = combos[i % len(combos)]
        oud, iud = table[acc]
        dw, pk = trav == "dw", trav == "pk"
        kh, kw = rng.choice(kernels)
        dil = rng.choice([(1, 1), (1, 1), (2, 1), (1, 2), (2, 2)])
        big = rng.random() < 0.2
        ofd = rng.choice([1, 2, 3, 7, 8, 9, 15, 16, 17, 24, 31, 33] + ([48, 65] if big else []))
        ifd = 1 if dw else rng.choice([1, 2, 3, 7, 8, 9, 15, 16, 17, 31, 32, 33] + ([40, 64, 70] if big else []))
        while ofd * kh * kw * ifd > (60000 if tier == "quick" else 200000):
            ofd = max(1, ofd // 2)
            ifd = 1 if dw else max(1, ifd // 2)
        obd = oud * rng.choice([1, 1, 2, 2, 3, 4, 8])
        jobs.append({"k": "renc", "api": rng.choice(["wc", "wc", "api"]), "acc": acc, "shape": [ofd, kh, kw, ifd], "dil": list(dil),
                     "bd": bd, "obd": obd, "dw": int(dw), "pk": int(pk), "layout": rng.choice(["c", "c", "slice", "transposed", "core"])})
    for i in range(n_raw):   # the C entry point directly, including configurations no caller produces
        dw = rng.random() < 0.2
        pk = (not dw or rng.random() < 0.1) and rng.random() < 0.4
        kh, kw = rng.choice(kernels[:10])
        ofd = rng.choice([1, 2, 5, 8, 9, 16, 19])
        ifd = rng.choice([1, 1, 2]) if dw else rng.choice([1, 3, 8, 16, 17, 33])
        oud = rng.choice([1, 2, 4, 8, 16])
        iud = rng.choice([1, 2, 4, 8, 16, 3])
        obd = rng.choice([oud, 2 * oud, 3 * oud, oud + 1, max(1, oud // 2), 16])
        jobs.append({"k": "renc", "api": "raw", "shape": [ofd, kh, kw, ifd], "oud": oud, "iud": iud, "obd": obd, "dw": int(dw), "pk": int(pk),
                     "bd": rng.choice([8, 16, 8, 16, 32]), "dh": rng.choice([8, 4, 8, 3, 1]), "dw_": rng.choice([8, 4, 8, 5, 1]),
                     "layout": rng.choice(["c", "slice", "transposed", "core"])})
    return jobs


def corrupt_streams(rng, base, n):
    out = [b"", b"\xff", b"\x00", b"\xff" * 16, b"\x00" * 16, b"\x07", b"\x06\x00\x00"]
    for _ in range(n):
        s = bytearray(rng.choice(base))
        m = rng.random()
        if m < 0.3:
            s = s[:rng.randrange(0, len(s) + 1)]
        elif m < 0.7:
            for _ in range(rng.choice([1, 1, 2, 5])):
                if s:
                    s[rng.randrange(len(s))] ^= 1 << rng.randrange(8)
        elif m < 0.85:
            s = bytearray(rng.getrandbits(8) for _ in range(rng.choice([1, 2, 4, 16, 32, 64])))
        elif s:
            p = rng.randrange(len(s))
            s[p:p + rng.randrange(1, 4)] = bytes(rng.getrandbits(8) for _ in range(rng.randrange(0, 4)))
        out.append(bytes(s))
    return out


def trace_modes(tr, cnt):
    sl = [tr[i:i + 8] for i in range(0, len(tr) - 7, 8)]
    for j, (z, nv, wdiv, wtr, newpal, ps, pb, dofs) in enumerate(sl):
        cnt["slices"] += 1
        cnt["zero_runs" if z != 6 else "no_zero_runs"] += 1
        if wdiv == 7:
            cnt["uncompressed" + ("_palette" if ps else "_direct")] += 1
        if wtr:
            cnt["grc_truncated"] += 1
        if newpal and j > 0:
            cnt["palette_restart"] += 1
        if not newpal:
            cnt["grc_parameter_switch_without_new_palette"] += 1
        cnt["palette_le_32" if ps else "direct_no_palette"] += 1
        if ps == 32:
            cnt["palette_32_entries"] += 1
        if dofs:
            cnt["direct_offset_nonzero"] += 1
        if nv >= 32767:
            cnt["slice_of_32767_values(section>32767)"] += 1
        cnt["wdiv=%d" % wdiv] += 1
        if z != 6:
            cnt["zdiv=%d" % z] += 1
    return len(sl)


# ------------------------------------------------------------------------------------------ sanitizer build (thorough)
HARNESS_C = r"""
#include <stdio.h>
#include <stdlib.h>
#include <stdint.h>
#include <string.h>
#include "mlw_encode.h"
#include "mlw_decode.h"
/* one case per line:  E n w..   |  R iud oud ofd kh kw ifd obd dw pk bd dh dw n w..   |  D n byte..
   prints: stream bytes, then the decoded values */
int main(void) {
    static char tag[8];
    while (scanf("%7s", tag) == 1) {
        uint8_t *out = NULL; int len = 0; int64_t padded = 0;
        if (tag[0] == 'D') {
            int n; if (scanf("%d", &n) != 1) return 2;
            uint8_t *in = malloc(n > 0 ? n : 1);
            for (int i = 0; i < n; i++) { int v; if (scanf("%d", &v) != 1) return 2; in[i] = (uint8_t)v; }
            int16_t *dec = NULL; int nd = mlw_decode(in, n, &dec, 0);
            printf("D %d", nd); for (int i = 0; i < nd; i++) printf(" %d", dec[i]); printf("\n");
            free(dec); free(in); fflush(stdout); continue;
        }
        int p[12] = {0}; int n;
        if (tag[0] == 'R') for (int i = 0; i < 12; i++) if (scanf("%d", &p[i]) != 1) return 2;
        if (scanf("%d", &n) != 1) return 2;
        int16_t *w = malloc(sizeof(int16_t) * (n > 0 ? n : 1));
        for (int i = 0; i < n; i++) { int v; if (scanf("%d", &v) != 1) return 2; w[i] = (int16_t)v; }
        if (tag[0] == 'E') len = mlw_encode(w, n, &out, 0);
        else {
            int strides[4] = { p[3] * p[4] * p[5], p[4] * p[5], p[5], 1 };
            len = mlw_reorder_encode(p[0], p[1], p[2], p[3], p[4], p[5], strides, w, p[6], p[7], p[8], p[9], p[10], p[11], &out, &padded, 0);
        }
        printf("S %d %lld", len, (long long)padded);
        for (int i = 0; i < len; i++) printf(" %d", out[i]);
        printf("\n");
        if (len > 0) {
            int16_t *dec = NULL; int nd = mlw_decode(out, len, &dec, 0);
            printf("D %d", nd); for (int i = 0; i < nd; i++) printf(" %d", dec[i]); printf("\n");
            free(dec);
        } else printf("D -1\n");
        mlw_free_outbuf(out); free(w); fflush(stdout);
    }
    return 0;
}
"""


def build_sanitized(ndebug):
    """ASan+UBSan executable of /repo's codec sources + harness in /verif/build; returns (path or None, log)"""
    srcdir = os.path.join(vlib.REPO, "ethosu", "mlw_codec")
    srcs = [os.path.join(srcdir, f) for f in ("mlw_encode.c", "mlw_decode.c")]
    h = hashlib.sha256(HARNESS_C.encode())
    for f in srcs + [os.path.join(srcdir, x) for x in ("mlw_encode.h", "mlw_decode.h", "mlw_common.h")]:
        h.update(open(f, "rb").read())
    d = os.path.join(vlib.BUILD, "c07_asan", h.hexdigest()[:16] + ("_ndebug" if ndebug else "_assert"))
    exe = os.path.join(d, "harness")
    if os.path.exists(exe):
        return exe, "cached"
    os.makedirs(d, exist_ok=True)
    with open(os.path.join(d, "harness.c"), "w") as f:
        f.write(HARNESS_C)
    cmd = ["clang", "-g", "-O1", "-fno-omit-frame-pointer", "-fsanitize=address,undefined", "-fno-sanitize-recover=all",
           "-I", srcdir] + (["-DNDEBUG"] if ndebug else []) + [os.path.join(d, "harness.c")] + srcs + ["-lm", "-o", exe]
    try:
        p = subprocess.run(cmd, capture_output=True, text=True, timeout=300)
    except (OSError, subprocess.TimeoutExpired) as ex:
        return None, repr(ex)
    if p.returncode != 0:
        return None, p.stderr[-1500:]
    return exe, " ".join(cmd)


def run_sanitized(exe, lines, timeout=3600):
    env = dict(os.environ, ASAN_OPTIONS="detect_leaks=0:abort_on_error=0:allocator_may_return_null=1", UBSAN_OPTIONS="print_stacktrace=1")
    p = subprocess.run([exe], input="\n".join(lines) + "\n", capture_output=True, text=True, timeout=timeout, env=env)
    return p.returncode, p.stdout.split("\n"), p.stderr


def reorder_batch(rjobs, base, rng, table, skmax, use_model, bad, diffs, cnt, nontrivial):
    """recover the traversal of the real code for each job, judge it by the oracle, compare with the model"""
    passes = []
    for ji, j in enumerate(rjobs):
        n = j["shape"][0] * j["shape"][1] * j["shape"][2] * j["shape"][3]
        np_ = 1 if n <= B else 2 if n <= B * B else 3
        for k in range(np_):
            passes.append(dict(j, vals=["digits", k], jid=ji))
        passes.append(dict(j, vals=["rand", rng.randrange(1 << 30), rng.choice(["dense", "sparse", "gauss"])], jid=ji))
    pr = run_jobs(passes, "renc%d" % base)
    mre = None
    if use_model:
        try:
            mre = models.run_parallel("reorder", [cfg_vector(j, table, skmax) for j in rjobs], exe_name="mlw")
        except Exception as ex:
            diffs.append(({"correspondence": "reorder model run"}, {"error": repr(ex)}))
    per_job = collections.defaultdict(list)
    for pj, r in zip(passes, pr):
        per_job[pj["jid"]].append((pj, r))
    valid_n = evals = 0
    model_checks = []
    for ji, j in enumerate(rjobs):
        evals += 1
        c = cfg_vector(j, table, skmax)
        key = {"kind": "reorder", "cfg": c, "api": j["api"], "layout": j["layout"]}
        prs = per_job[ji]
        n = c[0] * c[1] * c[2] * c[3]
        crashed = [r for _, r in prs if r is None or "crash" in r or not r.get("ok")]
        if crashed:
            bad.append((dict(key, kind="crash"), {"job": j, "result": crashed[0]}, "encode_weights failed or killed the interpreter for configuration %r: %s" % (c, str(crashed[0])[:200])))
            continue
        rec = None
        for pj, r in prs:
            s = bytes.fromhex(r["s"])
            if len(s) % 16:
                bad.append((dict(key, kind="length"), {"job": j, "len": len(s)}, "encoded stream length %d is not a multiple of 16 for configuration %r" % (len(s), c)))
            if pj["vals"][0] == "digits":
                d = r["d"]
                if rec is None:
                    rec = [0 if x else -1 for x in d]
                if len(d) != len(rec) or any((x == 0) != (y == -1) for x, y in zip(d, rec)):
                    bad.append((dict(key, kind="padding_moves"), {"job": j}, "zero positions depend on the weight values for configuration %r" % (c,)))
                    rec = None
                    break
                k = pj["vals"][1]
                for i, x in enumerate(d):
                    if x:
                        rec[i] += undigit(x) * B ** k
        if rec is None:
            continue
        valid = cfg_valid(c)
        # property oracle (valid configurations): every source position exactly once, the rest zero, documented order
        if valid:
            valid_n += 1
            src = [x for x in rec if x >= 0]
            if sorted(src) != list(range(n)):
                missing = sorted(set(range(n)) - set(src))[:5]
                bad.append((dict(key, kind="not_a_permutation"), {"job": j, "missing": missing, "n_src": len(src), "n": n},
                            "decoded stream is not the source weights plus zero padding for configuration %r (first missing positions %r)" % (c, missing)))
            else:
                keys = [py_order_key(c, p) for p in src]
                if any(a >= b_ for a, b_ in zip(keys, keys[1:])):
                    i = next(i for i, (a, b_) in enumerate(zip(keys, keys[1:])) if a >= b_)
                    bad.append((dict(key, kind="order"), {"job": j, "position": i, "source_positions": src[i:i + 2]},
                                "source weights leave the documented block-traversal order at stream position %d for configuration %r" % (i, c)))
            nontrivial.add(("reorder", tuple(c)))
        # random-valued pass: decoded == reorder applied to the real weights
        for pj, r in prs:
            if pj["vals"][0] != "rand":
                continue
            w = gen_values(pj["vals"], n)
            want = [w[p] if 0 <= p < n else 0 for p in rec]
            if r["d"] != want and valid:
                bad.append((dict(key, kind="values"), {"job": pj, "decoded": r["d"][:200], "want": want[:200]},
                            "decoding the stream of a random volume does not give the reordered weights for configuration %r" % (c,)))
            pl = r.get("n")
            if pl is not None and pl != len(rec):
                diffs.append(({"correspondence": "padded_length", "cfg": c}, {"impl": pl, "decoded": len(rec)}))
        if mre is not None:
            for pj, r in prs:
                if pj["vals"][0] == "rand":
                    wv = gen_values(pj["vals"], n)
                    model_checks.append((ji, pj, r["s"], [wv[p] if 0 <= p < n else 0 for p in mre[ji]]))
        if mre is not None and mre[ji] != rec:
            diffs.append(({"correspondence": "reorder", "cfg": c, "api": j["api"], "layout": j["layout"]},
                          {"job": j, "model_len": len(mre[ji]), "impl_len": len(rec), "first_difference": next((i for i, (a, b_) in enumerate(zip(mre[ji], rec)) if a != b_), None),
                           "model": mre[ji][:64], "impl": rec[:64]}))
        cnt["reorder_" + ("dw" if c[7] else "pk" if c[8] else "df") + "_%dbit" % c[9]] += 1
        if c[1] > c[10] or c[2] > c[11]:
            cnt["reorder_with_subkernel_decomposition"] += 1
    # the per-input statement on the model side: decode_model(encode_weights(v)) == reorder_model(v)
    if model_checks:
        try:
            md = models.run_parallel("decode", [[0] + list(bytes.fromhex(sx)) for _, _, sx, _ in model_checks], exe_name="mlw")
            for (ji, pj, sx, want), o in zip(model_checks, md):
                if want is not None and o != [1] + want:
                    diffs.append(({"correspondence": "decode_model(encode_weights v) = reorder_model v", "cfg": cfg_vector(rjobs[ji], table, skmax)},
                                  {"job": pj, "model_decode": o[:64], "reorder_model_applied": want[:64]}))
                cnt["decode_model(encode_weights v) == reorder_model v checked"] += 1
        except Exception as ex:
            diffs.append(({"correspondence": "decode model run"}, {"error": repr(ex)}))
    return valid_n, evals


# ------------------------------------------------------------------------------------------ compiled networks (D2)
# hardware facts written down independently of the tree: (cores, ofm micro-block depth, ifm micro-block depth)
HW = {"ethos-u55-32": (1, 4, 8), "ethos-u55-64": (1, 8, 8), "ethos-u55-128": (1, 8, 8), "ethos-u55-256": (1, 8, 8),
      "ethos-u65-256": (1, 8, 8), "ethos-u65-512": (2, 8, 8)}
R_OP_CONV, R_OP_DEPTHWISE = 2, 3
R_IFM_DEPTH_M1, R_IFM_PRECISION, R_OFM_BLK_DEPTH_M1, R_KERNEL_WIDTH_M1, R_KERNEL_HEIGHT_M1, R_KERNEL_STRIDE = 260, 261, 279, 288, 289, 290


def parse_op_events(flat):
    """flat output of the extracted Npu.decode_stream -> [(code, param, {register: value})] of the operation events"""
    if not flat or flat[0] != 1:
        return None
    i, n, evs = 1, len(flat), []
    while i < n:
        t = flat[i]
        if t == 1:
            cnt = flat[i + 3]
            kv = flat[i + 4:i + 4 + 2 * cnt]
            evs.append((flat[i + 1], flat[i + 2], dict(zip(kv[0::2], kv[1::2]))))
            i += 4 + 2 * cnt
        elif t == 3:
            i += 2
        else:
            i += 3
    return evs


def source_volume(summ, name):
    """the OHWI volume of zero-point corrected source weights of the input model's constant whose name the compiler's
    weight tensor name starts with; (volume as nested numpy array, tflite opcode) or (None, reason)"""
    import numpy as np
    best = None
    for si, sg in enumerate(summ["subgraphs"]):
        for t in sg["tensors"]:
            nm = t["name"]
            if nm and t["data_len"] and (name == nm or name.startswith(nm + "_")) and (best is None or len(nm) > len(best[2]["name"])):
                best = (si, sg, t)
    if best is None:
        return None, "no constant of the input model carries the name (weights made by the compiler)"
    si, sg, t = best
    users = [o for o in sg["operators"] if len(o["inputs"]) > 1 and o["inputs"][1] == t["idx"]]
    kinds = set(o["opcode"] for o in users)
    if len(kinds) != 1 or not kinds <= {"CONV_2D", "DEPTHWISE_CONV_2D", "FULLY_CONNECTED", "TRANSPOSE_CONV"}:
        return None, "constant is not the weight operand of one kind of convolution (%s)" % sorted(kinds)
    kind = kinds.pop()
    dt = {"INT8": np.int8, "UINT8": np.uint8, "INT16": np.int16}.get(t["type"].upper())
    if dt is None:
        return None, "weight type %s" % t["type"]
    a = np.frombuffer(summ["_bufs"][t["buffer"]], dtype=dt).astype(np.int64).reshape(t["shape"])
    zps = (t["quant"] or {}).get("zero_point") or [0]
    if kind == "FULLY_CONNECTED":
        if a.ndim != 2:
            return None, "fully connected weights of rank %d" % a.ndim
        v = a.reshape(a.shape[0], 1, 1, a.shape[1])
    elif kind == "DEPTHWISE_CONV_2D":
        if a.ndim != 4 or a.shape[0] != 1:
            return None, "depthwise weights of shape %r" % (t["shape"],)
        v = np.transpose(a, (3, 1, 2, 0))
    else:
        if a.ndim != 4:
            return None, "weights of rank %d" % a.ndim
        v = a[:, ::-1, ::-1, :] if kind == "TRANSPOSE_CONV" else a
    if len(zps) == 1:
        v = v - zps[0]
    elif len(zps) == v.shape[0]:
        v = v - np.array(zps, dtype=np.int64).reshape(-1, 1, 1, 1)
    else:
        return None, "%d zero points for %d output channels" % (len(zps), v.shape[0])
    return v, kind


def np_hardware_order(np, c):
    """source positions of a flat OHWI volume sorted by the documented nesting (py_order_key, vectorised)"""
    ofd, kh, kw, ifd, oud, iud, obd, dw, pk, bd, dh, dw_ = c
    p = np.arange(ofd * kh * kw * ifd, dtype=np.int64)
    iz = p % ifd
    wx = (p // ifd) % kw
    wy = (p // (ifd * kw)) % kh
    oz = p // (ifd * kw * kh)
    ibd = 16 if (pk or bd == 16) else 32
    sub_w = np.minimum(kw - (wx // dw_) * dw_, dw_)
    ro, ri = oz % obd, iz % ibd
    iub = ri // iud
    zero = np.zeros_like(p)
    keys = [oz // obd, iz // ibd, wy // dh, wx // dw_, iub if pk else zero, ro // oud, (wy % dh) * sub_w + wx % dw_, zero if pk else iub, ro % oud, ri % iud]
    return np.lexsort(keys[::-1])


def embeds_with_zero_padding(src, dec):
    """`dec` is `src` with zeros inserted (the property's "only zero padding added"): same non-zero values in the same
    order, and between two of them at least as many zeros as the source has; returns None or the reason"""
    def gaps(l):
        nz, g, c = [], [], 0
        for x in l:
            if x:
                nz.append(x)
                g.append(c)
                c = 0
            else:
                c += 1
        g.append(c)
        return nz, g
    a, ga = gaps(src)
    b_, gb = gaps(dec)
    if a != b_:
        i = next((i for i, (x, y) in enumerate(zip(a, b_)) if x != y), min(len(a), len(b_)))
        return "non-zero weight number %d of the stream is %s, the hardware order has %s there (%d / %d non-zero weights)" % (
            i, b_[i] if i < len(b_) else "missing", a[i] if i < len(a) else "nothing", len(b_), len(a))
    for i, (x, y) in enumerate(zip(ga, gb)):
        if y < x:
            return "only %d zeros before non-zero weight number %d, the source has %d zero weights there" % (y, i, x)
    return None


def d2_jobs(tier):
    import compiles
    n = 64 if tier == "quick" else 1600
    jobs = compiles.plan([], n, vlib.seed(), tag="d2", capture=True)
    # two-core compilations with deep convolutions beyond the few of the shared plan: the per-core share of the OFM block
    # only matters there (several OFM blocks per core and several IFM blocks / part-kernel-first / sub-kernels)
    rng = random.Random("c07/d2/%s" % vlib.seed())
    extra = []
    for i in range(8 if tier == "quick" else 160):
        args = ["--accelerator-config", "ethos-u65-512"]
        m = i % 4
        if m == 1:
            args += ["--config", compiles.CONFIG_INI, "--system-config", "Ethos_U65_High_End", "--memory-mode", "Dedicated_Sram"]
        elif m == 2:
            args += ["--config", compiles.CONFIG_INI, "--system-config", "Ethos_U65_Embedded", "--memory-mode", "Shared_Sram"]
        elif m == 3:
            args += ["--config", compiles.CONFIG_INI, "--system-config", "Ethos_U65_High_End", "--memory-mode", "Sram_Only"]
        args += ["--optimise", "Size" if i % 2 else "Performance"]
        if rng.random() < 0.4:
            args += ["--arena-cache-size", str(rng.choice([16384, 65536, 262144]))]
        extra.append({"family": ["weights_heavy", "conv_chain_big", "weights_heavy", "conv_chain"][i % 4], "seed": "c07u-%s-%d" % (vlib.seed(), i),
                      "args": args, "capture": True})
    return jobs + extra


def d2_level(tier, okx, bad, diffs, nontrivial):
    """every (core, depth-slice) weight stream of the compiled models against the source weights in hardware order"""
    import numpy as np
    import artefacts
    import compiles
    import tflsum
    d2 = collections.Counter()
    info = {"skipped": collections.Counter(), "by_accelerator": collections.Counter(), "by_traversal": collections.Counter()}
    okv, vlog = vlib.build_extraction()     # build/velaverif: Npu.decode_stream (register snapshots of the emitted stream)
    if not (okx and okv):
        diffs.append(({"correspondence": "d2 model binaries"}, {"mlw": okx, "velaverif": okv, "log": vlog[-300:]}))
        return {"error": "extracted models not built"}
    jobs = d2_jobs(tier)
    results = compiles.run_all(jobs, timeout=900)
    items = []      # one per judged weight stream
    streams_words, streams_meta = [], []
    arts = []
    for r in results:
        if r["status"] != "ok":
            d2["compilations_not_ok"] += 1
            continue
        art = artefacts.load(r)
        if not art or not art["capture"]:
            continue
        d2["compilations"] += 1
        for k, stream in enumerate(art["capture"]["streams"]):
            streams_words.append([int(w) for w in stream["words"]])
            streams_meta.append((len(arts), k))
        arts.append((r, art))
    evs_all = models.run_parallel("decode_stream", streams_words) if streams_words else []
    evs_of = {m: parse_op_events(o) for m, o in zip(streams_meta, evs_all)}
    cfg_cache = {}
    for ai, (r, art) in enumerate(arts):
        src_path = r["job"].get("tflite") or os.path.join(r["job"]["out_dir"], "model.tflite")
        try:
            summ = tflsum.summarise(src_path)
        except Exception as ex:
            info["skipped"]["input model unreadable: %s" % type(ex).__name__] += 1
            continue
        for k, stream in enumerate(art["capture"]["streams"]):
            acc = stream["accelerator"]
            nc, oud, iud = HW[acc]
            match = [j for j, n2 in enumerate(art["npu"]) if n2["words"] == stream["words"]]
            flash = bytes(art["npu"][match[0]]["flash"]) if match and art["npu"][match[0]]["flash"] is not None else None
            evs = evs_of.get((ai, k))
            if evs is None or len(evs) != len(stream["ops"]):
                info["skipped"]["emitted stream does not decode to one operation event per NPU operation"] += 1
                diffs.append(({"correspondence": "d2 operation events", "net": r.get("net_name")}, {"events": None if evs is None else len(evs), "ops": len(stream["ops"])}))
                continue
            seen = set()
            for opi, (op, ev) in enumerate(zip(stream["ops"], evs)):
                cmd = op.get("cmd")
                if not (cmd and cmd.get("kind") == "stripe" and cmd.get("weight") and "weights" in op["api"]):
                    continue
                wsrc = cmd["weight_src"]
                tk = (wsrc["name"], wsrc["address"])
                if tk in seen:
                    continue
                seen.add(tk)
                d2["weight_tensors"] += 1
                code, _, regs = ev
                if code not in (R_OP_CONV, R_OP_DEPTHWISE):
                    info["skipped"]["operation event %d is not a convolution" % code] += 1
                    continue
                if flash is None or wsrc["mem_type"] != "Permanent_NPU":
                    info["skipped"]["weights not in the read-only tensor of the output file"] += 1
                    continue
                vol, kind = source_volume(summ, wsrc["name"])
                if vol is None:
                    info["skipped"][kind] += 1
                    continue
                # the operator's own OFM depth: a convolution with groups is split by convert_conv_groups into one
                # convolution per group whose weights are the group's output channels [g*D, (g+1)*D) of the source
                # constant (tensor names ..._cg<g>_...); any other operator that does not produce all output channels
                # of the source constant was rewritten by the graph optimiser and is not judged
                try:
                    op_ofd = int(cmd["ofm_shapes"][0][-1])
                except Exception:
                    op_ofd = vol.shape[0]
                if op_ofd != vol.shape[0]:
                    mg = re.search(r"_cg(\d+)(?:_|$)", wsrc["name"])
                    if mg and kind == "CONV_2D" and op_ofd > 0 and vol.shape[0] % op_ofd == 0 and int(mg.group(1)) < vol.shape[0] // op_ofd:
                        g = int(mg.group(1))
                        vol = vol[g * op_ofd:(g + 1) * op_ofd]
                        d2["convolution_group_tensors"] += 1
                    else:
                        info["skipped"]["operator produces %s output channels than the source constant has (rewritten by the graph optimiser; not judged)" % (
                            "fewer" if op_ofd < vol.shape[0] else "more")] += 1
                        continue
                ks = regs.get(R_KERNEL_STRIDE, 0)
                pk, dil_x, dil_y = (ks >> 2) & 1, 1 + ((ks >> 3) & 1), 1 + ((ks >> 4) & 1)
                kh = regs.get(R_KERNEL_HEIGHT_M1, 0) // dil_y + 1
                kw = regs.get(R_KERNEL_WIDTH_M1, 0) // dil_x + 1
                bits = 8 * (1 << ((regs.get(R_IFM_PRECISION, 0) >> 2) & 3))
                obd = regs.get(R_OFM_BLK_DEPTH_M1, 0) + 1
                dw = int(code == R_OP_DEPTHWISE)
                ofd, vh, vw, ifd = vol.shape
                if (vh, vw) != (kh, kw) or (not dw and ifd != regs.get(R_IFM_DEPTH_M1, 0) + 1) or (dw and ifd != 1) or \
                        dw != int(kind == "DEPTHWISE_CONV_2D"):
                    info["skipped"]["operator rewritten by the graph optimiser, e.g. fixup_strided_conv folding the stride into the IFM depth "
                                    "(emitted kernel / IFM depth differ from the source weights; not judged)"] += 1
                    if len(info.setdefault("rewritten_examples", [])) < 4:
                        info["rewritten_examples"].append("kernel %dx%d ifm %d %s, source weights %r %s" % (
                            kh, kw, regs.get(R_IFM_DEPTH_M1, 0) + 1, "depthwise" if dw else "conv", list(vol.shape)[1:], kind))
                    continue
                rs = sorted(([rr[0][0], rr[0][1]] + rr[1:] for rr in cmd["encoded_ranges"]), key=lambda x: (x[1], x[0]))
                starts = sorted(set(x[1] for x in rs))
                if not rs or starts[-1] >= ofd:
                    info["skipped"]["depth slices beyond the source tensor (split operator)"] += 1
                    continue
                d2["weight_tensors_judged"] += 1
                for core, d0, off, sbytes, woff, wbytes, _idx in rs:
                    d1 = starts[starts.index(d0) + 1] if starts.index(d0) + 1 < len(starts) else ofd
                    chans = list(range(d0 + core, d1, nc))
                    if not chans:
                        continue
                    if tier == "quick" and nc == 1 and wbytes > 150000:
                        info["skipped"]["quick tier: single-core stream above 150000 bytes (judged in the thorough tier)"] += 1
                        continue
                    a0 = wsrc["address"] + off + woff
                    raw = flash[a0:a0 + wbytes]
                    cfg = (len(chans), kh, kw, 1 if dw else ifd, oud, iud, (obd + nc - 1 - core) // nc, dw, pk, bits, 8 // dil_y, 8 // dil_x)
                    items.append(dict(r=r, stream=k, op=opi, op_name=cmd.get("primary_op_name"), op_type=cmd.get("primary_op"), tensor=wsrc["name"],
                                      acc=acc, nc=nc, core=core, d0=d0, d1=d1, cfg=cfg, raw=raw, nbytes=wbytes, complete=len(raw) == wbytes,
                                      flat=np.ascontiguousarray(vol[chans]).reshape(-1), obd=obd))
                    cfg_cache.setdefault(cfg, None)
    items.sort(key=lambda it: -it["nbytes"])
    if items:
        cfgs = list(cfg_cache)
        for c, o in zip(cfgs, models.run_parallel("reorder", [list(c) for c in cfgs], exe_name="mlw")):
            cfg_cache[c] = o
        decs = models.run_parallel("decode", [[0] + list(it["raw"]) for it in items], exe_name="mlw")
    else:
        decs = []
    samples = []
    for it, dec in zip(items, decs):
        d2["weight_streams"] += 1
        c = it["cfg"]
        r = it["r"]
        info["by_accelerator"][it["acc"]] += 1
        info["by_traversal"]["depthwise" if c[7] else "part_kernel_first" if c[8] else "depth_first"] += 1
        several = c[0] > c[6]
        sens = several and (c[7] == 0) and ((c[8] and c[3] > 8) or (not c[8] and c[3] > (16 if c[9] == 16 else 32)) or c[1] > c[10] or c[2] > c[11] or c[6] % c[4])
        if it["nc"] > 1:
            d2["two_core_streams"] += 1
            d2["two_core_streams_with_several_ofm_blocks"] += several
            d2["two_core_streams_where_the_block_share_changes_the_order"] += bool(sens)
        where = dict(net=r.get("net_name"), seed=r["job"]["seed"], args=r["job"]["args"], model=r["job"].get("tflite") or r["job"].get("family"),
                     accelerator=it["acc"], operator=it["op_name"], operator_type=it["op_type"], weight_tensor=it["tensor"], core=it["core"],
                     depth_slice=[it["d0"], it["d1"]], emitted_ofm_block_depth=it["obd"],
                     hardware_cfg=dict(zip(["ofm_channels_of_core", "kh", "kw", "ifm_depth", "ofm_ublock", "ifm_ublock", "ofm_block_depth_of_core",
                                            "depthwise", "part_kernel", "ifm_bits", "decomp_h", "decomp_w"], c)),
                     replay_cmd="cd /verif && /venv/bin/python tools/vela_worker.py %s/job.json" % r["job"]["out_dir"])
        key = {"kind": "compiled_stream_not_in_hardware_order", "ncores": it["nc"]}
        why = None
        if not it["complete"] or it["nbytes"] % 16:
            why = "weight stream of %d bytes is not a 16-byte multiple inside the read-only tensor" % it["nbytes"]
        elif dec[0] != 1:
            why = "the reference decoder model does not decode the weight stream (status %r)" % dec[:2]
        else:
            order = cfg_cache[c]
            n = len(it["flat"])
            if not cfg_valid(list(c)):
                info["skipped"]["configuration outside the traversal theorem (not judged by the oracle)"] += 1
            else:
                why = embeds_with_zero_padding(it["flat"][np_hardware_order(np, c)].tolist(), dec[1:])
            oa = np.array(order, dtype=np.int64)
            want = np.where((oa >= 0) & (oa < n), it["flat"][np.clip(oa, 0, n - 1)], 0).tolist()
            if why is None and want != dec[1:]:
                i = next((i for i, (x, y) in enumerate(zip(want, dec[1:])) if x != y), min(len(want), len(dec) - 1))
                diffs.append(({"correspondence": "compiled stream vs Reorder model (padding positions)", "net": r.get("net_name")},
                              dict(where, first_difference=i, model=want[max(0, i - 4):i + 8], decoded=dec[1:][max(0, i - 4):i + 8],
                                   model_len=len(want), decoded_len=len(dec) - 1)))
            elif why is not None and want == dec[1:]:
                diffs.append(({"correspondence": "oracle vs Reorder model on a compiled stream", "net": r.get("net_name")}, dict(where, oracle=why)))
            if why is not None:
                i = next((i for i, (x, y) in enumerate(zip(want, dec[1:])) if x != y), None)
                where.update(first_difference_from_traversal_model=i, decoded_len=len(dec) - 1, model_len=len(want),
                             decoded_there=dec[1:][max(0, (i or 0) - 2):(i or 0) + 10], hardware_order_there=want[max(0, (i or 0) - 2):(i or 0) + 10])
        if why:
            bad.append((key, dict(where, reason=why),
                        "compiled model %s (%s): weight stream of operator %s, core %d, OFM slice [%d, %d) does not decode to the source weights in "
                        "hardware block-traversal order (per-core OFM block depth %d of the emitted %d): %s" % (
                            r.get("net_name"), it["acc"], it["op_name"], it["core"], it["d0"], it["d1"], c[6], it["obd"], why)))
        nontrivial.add(("d2", it["acc"], c))
        if len(samples) < 3 and it["nc"] > 1 and several:
            samples.append({k_: where[k_] for k_ in ("net", "accelerator", "operator", "core", "depth_slice", "emitted_ofm_block_depth", "hardware_cfg")})
    out = dict(d2)
    out.update(skipped=dict(info["skipped"]), streams_by_accelerator=dict(info["by_accelerator"]), streams_by_traversal=dict(info["by_traversal"]),
               samples=samples, jobs=len(jobs), rewritten_examples=info.get("rewritten_examples", []))
    return out


# ------------------------------------------------------------------------------------------ the check
def run(tier):
    t0 = time.time()
    res = vlib.Result("C07", tier, "other")
    b = vlib.build_property("C07")
    vlib.proof_coverage(res, b, [
        "extraction (ExtrOcamlBasic only) + ocaml/driver.ml for the correspondence run",
        "coq/model/Reorder.v and coq/model/MlwDecode.v are hand models of mlw_encode.c:reorder and mlw_decode.c, tied to the "
        "built extension only by the correspondence runs of this check (device H)",
        "mlw_decode.c is taken as the reference stream decoder; the C compiler; C int overflow is not modelled "
        "(needs streams > 2^20 bytes)",
        "NOT covered by any theorem: the encoder's palette/GRC search, decode(encode w) = w, the 16-byte multiple, "
        "memory safety of the C code (sampled per input below; ASan/UBSan build in the thorough tier)"])
    okx, xlog = vlib.build_extraction("mlw")
    rng = random.Random(vlib.seed())
    table, skmax = accel_table()
    bad = []          # (key, detail, what)   real violations of the property with an input
    diffs = []        # model/implementation differences without a property violation
    cnt = collections.Counter()
    evals = 0
    nontrivial = set()

    marks = [("build", time.time() - t0)]
    # ---- 1. the encoder on weight sequences: lossless + length, model decoder on its streams
    seqs = make_sequences(rng, tier) + exhaustive_sequences(tier)
    rr = run_jobs([{"k": "enc", "w": w} for _, w in seqs], "enc")
    streams = []
    for (name, w), r in zip(seqs, rr):
        evals += 1
        key = {"kind": "encode", "generator": name, "n": len(w), "sha": hashlib.sha256(json.dumps(w).encode()).hexdigest()[:12]}
        if r is None or "crash" in r:
            bad.append((dict(key, kind="crash"), {"weights": w[:4000], "result": r}, "mlw_codec.encode/decode killed the interpreter (%s) on %d weights from generator %s" % ((r or {}).get("crash"), len(w), name)))
            streams.append(None)
            continue
        if not r.get("ok"):
            bad.append((dict(key, kind="rejected"), {"weights": w[:4000], "result": r}, "encode rejected in-range weights: %s" % r.get("exc")))
            streams.append(None)
            continue
        s = bytes.fromhex(r["s"])
        streams.append(s)
        if len(s) % 16:
            bad.append((dict(key, kind="length"), {"weights": w[:4000], "len": len(s)}, "encoded stream length %d is not a multiple of 16" % len(s)))
        if r["d"] != w:
            bad.append((dict(key, kind="lossless"), {"weights": w[:4000], "decoded": r["d"][:4000], "stream": r["s"][:4000]},
                        "reference decoder does not return the source weights (%d weights, generator %s)" % (len(w), name)))
        nontrivial.add(("enc", key["sha"]))
    base_streams = [s for s in streams if s]
    marks.append(("encode", time.time() - t0))
    # ---- 2. corrupted / truncated streams through the real decoder (forked) and the model
    corrupt = corrupt_streams(rng, [s for s in base_streams if len(s) <= 4096], 1500 if tier == "quick" else 40000)
    cr = run_jobs([{"k": "dec", "s": s.hex()} for s in corrupt], "dec")
    marks.append(("corrupt", time.time() - t0))
    # ---- 3. reorder: real traversal recovered through encode_weights with index-coded weights (in batches)
    rjobs = make_reorder_jobs(rng, tier, table)
    # ---- 4. out-of-range weights must raise at the public entries (never given to the raw binding
    #         mlw_codec.reorder_encode: its C range check is compiled out by -DNDEBUG and it can crash), and the
    #         extreme in-range values must be accepted
    oor_jobs = []
    for v, api in [(256, "api"), (-256, "wc"), (300, "wc"), (511, "api"), (-512, "wc"), (1000, "api"), (32767, "api"), (-32768, "wc"),
                   (255, "api"), (-255, "wc")]:
        oor_jobs.append({"k": "oor", "api": api, "acc": "Ethos_U55_128", "shape": [4, 1, 1, 4], "dil": [1, 1], "bd": 8, "obd": 16, "dw": 0, "pk": 0,
                         "vals": ["rand", 7, "gauss"], "poke": [5, v]})
    orr = run_jobs(oor_jobs, "oor", nworkers=5)
    enc_oor = run_jobs([{"k": "enc", "w": [1, 2, v, 3]} for v in (256, -256, 511, 40000, -70000)], "encoor", nworkers=1)

    marks.append(("oor", time.time() - t0))
    # ---- model runs
    model_err = None
    mdec = mstrict = mtrace = mcor = mcors = None
    if okx:
        try:
            sl = [s for s in streams if s is not None]
            mdec = models.run_parallel("decode", [[0] + list(s) for s in sl], exe_name="mlw")
            mstrict = models.run_parallel("decode", [[1] + list(s) for s in sl], exe_name="mlw")
            mtrace = models.run_parallel("decode_trace", [list(s) for s in sl], exe_name="mlw")
            mcor = models.run_parallel("decode", [[0] + list(s) for s in corrupt], exe_name="mlw")
            mcors = models.run_parallel("decode", [[1] + list(s) for s in corrupt], exe_name="mlw")
        except Exception as ex:
            model_err = repr(ex)
    else:
        model_err = "extraction build failed: " + xlog[-500:]

    marks.append(("models", time.time() - t0))
    # ---- compare: encoder streams
    if mdec is not None:
        it = iter(zip(mdec, mstrict, mtrace))
        for (name, w), s in zip(seqs, streams):
            if s is None:
                continue
            o, o2, tr = next(it)
            if o != [1] + w or o2 != [1] + w:
                # the model decoder disagrees with the source weights: with an agreeing real decoder this is a
                # model/implementation difference, otherwise already recorded as a lossless violation
                diffs.append(({"correspondence": "decode(encode w)", "generator": name, "n": len(w)},
                              {"weights": w[:2000], "model": o[:200], "model_strict": o2[:200], "stream": s.hex()[:2000]}))
            ns = trace_modes(tr, cnt)
            if ns > 1:
                cnt["streams_with_several_slices"] += 1
    # ---- compare: corrupted streams
    ncmp = 0
    for idx, (s, r) in enumerate(zip(corrupt, cr)):
        evals += 1
        if r is None or "crash" in r:
            diffs.append(({"correspondence": "corrupt-decode-worker", "n": len(s)}, {"stream": s.hex(), "result": r}))
            continue
        cnt["corrupt_real_" + ("ok" if r["code"] == 0 else "exit1_underrun" if r["code"] == 1 else "signal_%s" % -r["code"] if r["code"] in (-11, -6, -7, -4, -8)
                               else "resource_limit_%s" % r["code"])] += 1
        if r["code"] not in (0, 1) and r["code"] not in (-11, -6, -7, -4, -8):
            continue   # time or memory limit of the forked child (enormous but legal output): not a statement about the decoder
        if r["code"] not in (0, 1):
            bad.append(({"kind": "decoder_crash", "code": r["code"], "sha": hashlib.sha256(s).hexdigest()[:12]}, {"stream": s.hex(), "code": r["code"]},
                        "reference decoder died with status %s on a %d-byte corrupted stream" % (r["code"], len(s))))
            continue
        if mcor is None:
            continue
        m = mcor[idx]
        if r["code"] == 0:
            ncmp += 1
            if m != [1] + r["v"]:
                diffs.append(({"correspondence": "decode(corrupted)", "n": len(s)}, {"stream": s.hex(), "model": m[:100], "impl": r["v"][:100]}))
            if mcors[idx][0] == 2:
                cnt["corrupt_strict_assert_%d" % mcors[idx][1]] += 1
            nontrivial.add(("cor", len(s), len(r["v"])))
        elif m != [0]:
            diffs.append(({"correspondence": "decode(corrupted) underrun", "n": len(s)}, {"stream": s.hex(), "model": m[:100], "impl": "exit(1)"}))
    marks.append(("compare", time.time() - t0))
    # ---- compare: reorder
    valid_n = 0
    for b0 in range(0, len(rjobs), 250):
        v_, e_ = reorder_batch(rjobs[b0:b0 + 250], b0, rng, table, skmax, okx and not model_err, bad, diffs, cnt, nontrivial)
        valid_n += v_
        evals += e_
    marks.append(("reorder", time.time() - t0))
    # ---- out of range
    oor_bad, inr_bad = [], []
    for j, r in zip(oor_jobs, orr):
        evals += 1
        v = j["poke"][1]
        inrange = -255 <= v <= 255
        if r is None or "crash" in r:
            (inr_bad if inrange else oor_bad).append((v, j["api"], "worker died: %s" % (r,)))
        elif r["code"] != 0:
            (inr_bad if inrange else oor_bad).append((v, j["api"], "interpreter died with status %s" % r["code"]))
        elif inrange and not r["txt"].startswith("returned"):
            inr_bad.append((v, j["api"], r["txt"][:200]))
        elif not inrange and not r["txt"].startswith("raised"):
            oor_bad.append((v, j["api"], r["txt"][:200]))
        cnt["out_of_range_cases" if not inrange else "extreme_in_range_cases"] += 1
    for v, r in zip((256, -256, 511, 40000, -70000), enc_oor):
        evals += 1
        cnt["out_of_range_cases"] += 1
        if r is None or "crash" in r or r.get("ok"):
            bad.append(({"kind": "out_of_range_accepted", "entry": "encode", "value": v}, {"result": r}, "mlw_codec.encode accepted or died on the out-of-range weight %d" % v))
    entry = {"api": "api.npu_encode_weights", "wc": "weight_compressor.encode_weights"}
    vol = "int16 OHWI volume of shape (4,1,1,4), gen_values(['rand',7,'gauss'],16) with element 5 replaced by the value"
    if oor_bad:
        v, api, txt = oor_bad[0]
        bad.append(({"kind": "out_of_range_accepted", "entry": "npu_encode_weights"},
                    {"first": {"value": v, "through": entry[api], "observed": txt, "volume": vol},
                     "all": [{"value": a, "through": entry[b_], "observed": c_} for a, b_, c_ in oor_bad]},
                    "out-of-range weight %d given to %s is not rejected (%s); %d of %d out-of-range probes were accepted or "
                    "killed the interpreter" % (v, entry[api], txt[:80], len(oor_bad), sum(1 for j in oor_jobs if abs(j["poke"][1]) > 255))))
    if inr_bad:
        v, api, txt = inr_bad[0]
        bad.append(({"kind": "in_range_rejected", "entry": "npu_encode_weights"},
                    {"first": {"value": v, "through": entry[api], "observed": txt, "volume": vol}},
                    "in-range weight %d given to %s is rejected or not encoded (%s)" % (v, entry[api], txt[:80])))

    # ---- compiled networks: every weight stream of the output files against the source weights in hardware order
    marks.append(("function level", time.time() - t0))
    try:
        d2 = d2_level(tier, okx and not model_err, bad, diffs, nontrivial)
    except Exception as ex:
        import traceback
        d2 = {"error": repr(ex), "traceback": traceback.format_exc()[-1500:]}
        diffs.append(({"correspondence": "d2 level failed"}, d2))
    evals += d2.get("weight_streams", 0)
    marks.append(("d2", time.time() - t0))

    # ---- thorough: sanitizer build as supporting evidence
    san = {}
    if tier == "thorough":
        san = sanitizer_pass(seqs, streams, rjobs, table, skmax, corrupt, rng, bad, mcors, diffs)

    # ---- evidence
    modes_needed = ["palette_le_32", "direct_no_palette", "zero_runs", "uncompressed_palette", "uncompressed_direct",
                    "grc_parameter_switch_without_new_palette", "palette_restart", "slice_of_32767_values(section>32767)", "grc_truncated"]
    res.cov.update({
        "evaluations": evals, "distinct_nontrivial": len(nontrivial),
        "rule": "distinct (generator, length, alphabet size) weight sequences encoded by the real mlw_codec.encode and decoded by the real and the "
                "model decoder; distinct valid (ofm,kh,kw,ifm,ublocks,block depth,depthwise,part-kernel,bit depth,decomposition) configurations whose "
                "traversal was recovered from the real encode_weights with index-coded weights; corrupted streams on which the real decoder succeeded",
        "what_is_proof_and_what_is_not": "theorems: reorder padded permutation + order, bit I/O round trip, decoder-model totality. "
                                         "Everything counted here is correspondence/testing of the built C extension, not proof.",
        "sequences": len(seqs), "exhaustive_sequences": sum(1 for n_, _ in seqs if n_ == "exh"),
        "sequence_generators": sorted(set(n_ for n_, _ in seqs)),
        "coding_modes_hit(slices)": dict(cnt),
        "coding_modes_missing": [m for m in modes_needed if not cnt.get(m)],
        "corrupted_streams": len(corrupt), "corrupted_compared_with_model(real decoder succeeded)": ncmp,
        "reorder_configurations": len(rjobs), "reorder_valid_configurations_judged_by_oracle": valid_n,
        "accelerator_ublocks(ofm,ifm)": table, "model_vs_impl_differences": len(diffs),
        "samples": [{"generator": n_, "weights": w[:12], "stream_bytes": len(s) if s else None} for (n_, w), s in list(zip(seqs, streams))[5:8]] +
                   [{"reorder_cfg": cfg_vector(j, table, skmax), "api": j["api"], "layout": j["layout"]} for j in rjobs[:2]],
        "sanitizer": san,
        "compiled_networks(D2)": d2,
        "note_raw_binding": "informational: the internal binding mlw_codec.reorder_encode itself does not range-check (mlw_encode.c:859 is under "
                            "#ifndef NDEBUG and setup.py builds with -DNDEBUG); out-of-range values are therefore never passed to it by this check; the "
                            "property is observed at api.npu_encode_weights / weight_compressor.encode_weights (guard added by repository commit fa734f2) "
                            "and at mlw_codec.encode (own check in mlw_codecmodule.c)",
    })
    res.assumptions += ["mlw_decode.c is the reference decoder", "the sampled inputs stand for the encoder's behaviour (no theorem about the encoder)"]
    if model_err:
        res.notes.append("model run failed: " + model_err)

    def search():
        return bad[0] if bad else None

    seen = set()
    for key, detail, what in bad:
        kk = json.dumps({k: v for k, v in key.items() if k in ("kind", "entry", "error", "function")}, sort_keys=True)
        if kk in seen:
            continue   # one report per kind of failure
        seen.add(kk)
        res.violation(key, detail, what)
    if not bad:
        if not b["ok"]:
            vlib.report_broken_build(res, b, search)
        elif diffs or model_err:
            key, detail = diffs[0] if diffs else ({"correspondence": "model run"}, {"error": model_err})
            res.violation(key, dict(detail, differences=len(diffs)),
                          "correspondence of the C07 models with the real codec no longer holds: %s (%d differences)" % (key.get("correspondence"), len(diffs)),
                          no_input=True)
    elif not b["ok"]:
        vlib.report_broken_build(res, b, None)
    res.cov["wall_parts_s"] = [(k_, round(v_, 1)) for k_, v_ in marks]
    return res.finish()


def sanitizer_pass(seqs, streams, rjobs, table, skmax, corrupt, rng, bad, mcors=None, diffs=None):
    """ASan/UBSan build of the C sources of the repository under test: same inputs, streams must equal the
    extension's, no sanitizer report.  Supporting evidence only."""
    info = {}
    for ndebug in (True, False):
        name = "ndebug(as setup.py builds)" if ndebug else "asserts_enabled"
        exe, log = build_sanitized(ndebug)
        if exe is None:
            info[name] = {"built": False, "log": log[-400:]}
            continue
        lines, expect = [], []
        for (gname, w), s in zip(seqs, streams):
            if s is None or len(w) > 120000:
                continue
            lines.append("E %d %s" % (len(w), " ".join(map(str, w))))
            expect.append((("enc", gname, len(w)), list(s), w))
        for j in rjobs:
            c = cfg_vector(j, table, skmax)
            if c[7] and c[8]:
                continue
            n = c[0] * c[1] * c[2] * c[3]
            w = gen_values(["rand", 11, "sparse"], n)
            lines.append("R %d %d %d %d %d %d %d %d %d %d %d %d %d %s" % (c[5], c[4], c[0], c[1], c[2], c[3], c[6], c[7], c[8], c[9], c[10], c[11], n, " ".join(map(str, w))))
            expect.append((("renc", tuple(c)), None, None))
        chunks = [list(range(i, len(lines), vlib.NCPU)) for i in range(vlib.NCPU)]
        import concurrent.futures
        reports, mism, ran = [], 0, 0

        def one(idx):
            if not idx:
                return None
            return run_sanitized(exe, [lines[i] for i in idx])
        with concurrent.futures.ThreadPoolExecutor(max_workers=vlib.NCPU) as ex:
            outs = list(ex.map(one, chunks))
        for idx, o in zip(chunks, outs):
            if o is None:
                continue
            rc, out, err = o
            k = 0
            for l in out:
                if l.startswith("S "):
                    t = l.split()
                    i = idx[k]
                    k += 1
                    ran += 1
                    if expect[i][1] is not None and [int(x) for x in t[3:]] != expect[i][1]:
                        mism += 1
            if rc != 0 or "ERROR: AddressSanitizer" in err or "runtime error" in err:
                # the process stops at the first report: the input after the last completed one is the culprit;
                # confirm it alone, then go on with the rest of the chunk
                rest = idx[k:]
                while rest:
                    rc1, out1, err1 = run_sanitized(exe, [lines[rest[0]]])
                    if rc1 != 0 or "ERROR: AddressSanitizer" in err1 or "runtime error" in err1:
                        m = re.search(r"SUMMARY: \w+: (\S+) \S*?([\w.]+:\d+)(?::\d+)? in (\w*)", err1)
                        reports.append({"rc": rc1, "input": str(expect[rest[0]][0]), "input_line": lines[rest[0]][:3000],
                                        "error": m.group(1) if m else "?", "site": m.group(2) if m else "?", "function": m.group(3) if m else "?",
                                        "stderr": err1[:1800]})
                    else:
                        ran += 1
                    rest = rest[1:]
                    if rest:
                        rc2, out2, err2 = run_sanitized(exe, [lines[i] for i in rest])
                        done = sum(1 for l in out2 if l.startswith("S "))
                        ran += done
                        if rc2 == 0 and "ERROR: AddressSanitizer" not in err2 and "runtime error" not in err2:
                            break
                        rest = rest[done:]
        info[name] = {"built": True, "cmd": log, "inputs": len(lines), "ran": ran, "sanitizer_reports": len(reports),
                      "stream_differs_from_extension": mism, "first_report": reports[0] if reports else None}
        seen_sites = set()
        for r0 in reports:
            if (r0["error"], r0["function"]) in seen_sites:
                continue
            seen_sites.add((r0["error"], r0["function"]))
            bad.append(({"kind": "sanitizer", "error": r0["error"], "function": r0["function"]}, dict(r0, build=name, reports_in_this_build=len(reports)),
                        "ASan/UBSan build (%s) of the codec: %s at %s in %s on input %s" % (name, r0["error"], r0["site"], r0["function"], r0["input_line"][:60])))
        # corrupted streams through the sanitized decoder, one process each (it exits on underrun / aborts on an assert)
        sub_i = list(range(min(600, len(corrupt))))
        if not ndebug and mcors is not None:
            sub_i += [i for i in range(600, len(corrupt)) if mcors[i][0] == 2][:400]
        creports = 0
        first = None
        strict_cmp = strict_diff = 0
        asserts = ["z_grc_div<4 || z_grc_div==ZDIV_DISABLE", "new_palette", "use_zero_run == prev_use_zero_run", "w_grc_div<6", "w_value[i]<512"]

        def dec(i):
            s_ = corrupt[i]
            return run_sanitized(exe, ["D %d %s" % (len(s_), " ".join(map(str, s_)))], timeout=120)
        with concurrent.futures.ThreadPoolExecutor(max_workers=vlib.NCPU) as ex:
            for i, (rc, out, err) in zip(sub_i, ex.map(dec, sub_i)):
                if "ERROR: AddressSanitizer" in err or "runtime error" in err:
                    creports += 1
                    first = first or {"stream": corrupt[i].hex(), "stderr": err[-1200:]}
                    continue
                if not ndebug and mcors is not None:
                    # the model with strict=true against the C source with assertions enabled
                    m = mcors[i]
                    if rc == 0 and out and out[0].startswith("D "):
                        got = [1] + [int(x) for x in out[0].split()[2:]]
                    elif rc == 1:
                        got = [0]
                    elif rc == -6 and "Assertion" in err:
                        code = next((k + 1 for k, a in enumerate(asserts) if "`" + a + "'" in err), -1)
                        got = [2, code]
                    else:
                        continue
                    strict_cmp += 1
                    if got != m:
                        strict_diff += 1
                        if diffs is not None:
                            diffs.append(({"correspondence": "decode strict vs C with assertions", "n": len(corrupt[i])},
                                          {"stream": corrupt[i].hex(), "model": m[:60], "impl": got[:60], "stderr": err[-300:]}))
        info[name]["corrupted_streams_decoded"] = len(sub_i)
        info[name]["corrupted_sanitizer_reports"] = creports
        if not ndebug:
            info[name]["strict_model_vs_assert_build_compared"] = strict_cmp
            info[name]["strict_model_vs_assert_build_differences"] = strict_diff
        if first:
            info[name]["corrupted_first_report"] = first
            bad.append(({"kind": "sanitizer_decoder", "build": name}, first, "ASan/UBSan build of the reference decoder reports an error on a corrupted stream"))
    return info
