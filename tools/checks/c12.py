"""C12 -- the offline arena plan is self-consistent and reported memory is sufficient (translation
validation with a proved checker, theorem check_arena_sound in props/C12.v)."""
import collections
import csv
import glob
import os
import re

import artefacts
import compiles
import models
import tflsum
import vlib

FAMS = ["mixed_cpu", "ew_dag", "conv_chain", "diamond", "ew_dag", "single", "mixed_cpu", "lut_heavy", "conv_chain_big", "unsupported",
        "ew_dag", "multi_custom"]
ELEM = {"int8": 1, "uint8": 1, "int16": 2, "int32": 4, "float32": 4, "int64": 8, "bool": 1, "float16": 2}
AREA_COL = {"SRAM": "sram_memory_used", "DRAM": "dram_memory_used", "On-chip Flash": "on_chip_flash_memory_used",
            "Off-chip Flash": "off_chip_flash_memory_used"}


def nbytes(t):
    n = 1
    for d in t["shape"]:
        n *= d
    return n * ELEM.get(t["type"], 1)


def alignment_of(job):
    a = job.get("args", [])
    idx = [i for i, x in enumerate(a) if x == "--cpu-tensor-alignment"]
    return int(a[idx[-1] + 1]) if idx else 16   # argparse keeps the last occurrence


def build_case(r, art):
    s = art["summary"]
    sg = s["subgraphs"][0]
    alloc = tflsum.offline_allocation(s)
    if alloc is None:
        return None, "no OfflineMemoryAllocation metadata"
    offs = alloc["offsets"]
    ops = sg["operators"]
    nops = len(ops)
    # two time points per operator i: 2i and 2i+1.  A CPU kernel reads its inputs while it writes its
    # outputs (inputs live through 2i+1, outputs from 2i).  An Ethos-U custom operator consumes its inputs
    # and produces its outputs at a granularity the output graph does not expose: its inputs are counted
    # live through 2i and its outputs from 2i+1; whether an output may reuse the bytes of an input of the
    # SAME custom operator is decided per byte by C03 on the command stream, not here.
    first, last = {}, {}
    for ti in sg["inputs"]:
        first[ti] = 0
    for oi, op in enumerate(ops):
        is_npu = op["opcode"] == "CUSTOM" and op["custom_code"] == "ethos-u"
        t_in, t_out = (2 * oi, 2 * oi + 1) if is_npu else (2 * oi + 1, 2 * oi)
        for ti in op["outputs"]:
            first.setdefault(ti, t_out)
            last[ti] = max(last.get(ti, t_out), 2 * oi + 1)
        for ti in op["inputs"]:
            if ti >= 0:
                last[ti] = max(last.get(ti, t_in), t_in)
                first.setdefault(ti, 0)
    for ti in sg["outputs"]:
        last[ti] = 2 * nops
    special = set()
    npu = [(oi, op) for oi, op in enumerate(ops) if op["opcode"] == "CUSTOM" and op["custom_code"] == "ethos-u"]
    for oi, op in npu:
        special.add(op["inputs"][2])
        special.add(op["inputs"][3])
    tens = []
    for ti, t in enumerate(sg["tensors"]):
        if ti < len(offs) and offs[ti] >= 0 and ti not in special and ti in first:
            tens.append((offs[ti], nbytes(t), first[ti], last.get(ti, first[ti]), ti))
    # scratch tensor(s)
    has_scratch = 1 if npu else 0
    s_off = s_size = 0
    fp_ends, touched = [], []
    if npu:
        sc = npu[0][1]["inputs"][2]
        s_off = offs[sc] if sc < len(offs) else -1
        s_size = sg["tensors"][sc]["shape"][0] if sg["tensors"][sc]["shape"] else 0
        hw = artefacts.hw_args(r["job"])
        fouts = models.run("footprints", [hw + n["words"] for n in art["npu"] if n["words"] is not None])
        for o in fouts:
            if o[0] != 1:
                return None, "stream does not decode"
            i = 1
            while i < len(o):
                nr = o[i + 2]
                segs = o[i + 3:i + 3 + 3 * nr]
                j = i + 3 + 3 * nr
                nw = o[j]
                segs += o[j + 1:j + 1 + 3 * nw]
                i = j + 1 + 3 * nw
                for q in range(0, len(segs), 3):
                    if segs[q] == 1:
                        fp_ends.append(segs[q + 2])
        for oi, op in npu:
            for ti in op["inputs"][4:] + op["outputs"]:
                if ti < len(offs) and offs[ti] >= 0:
                    touched.append((offs[ti], nbytes(sg["tensors"][ti]), 2 * oi, 2 * oi + 1))
    # reported size
    reported = None
    for f in glob.glob(os.path.join(r["job"]["out_dir"], "*_summary_*.csv")):
        rows = list(csv.reader(open(f)))
        d = dict(zip(rows[0], rows[1]))
        col = AREA_COL.get(d.get("feature_map_storage_area"))
        if col:
            reported = int(round(float(d[col]) * 1024))
    m = re.search(r"Total (\S.*?) used\s+([0-9.]+) KiB", r.get("stdout", ""))
    if reported is None:
        return None, "no summary CSV"
    fp_ends = sorted(set(fp_ends))[-50:]
    flat = [alignment_of(r["job"]), has_scratch, s_off, s_size, reported, len(tens)]
    for t in tens:
        flat += list(t[:4])
    flat += [len(fp_ends)] + fp_ends + [len(touched)]
    for t in touched:
        flat += list(t)
    return (flat, tens, s_size, reported, len(npu)), None


def run(tier):
    res = vlib.Result("C12", tier, "translation_validation")
    b = vlib.build_property("C12")
    okx, xlog = vlib.build_extraction()
    n = 96 if tier == "quick" else 2400
    jobs = compiles.plan(FAMS, n, vlib.seed(), tag="c12", capture=False)
    # make sure alignments 16..256 all occur
    import random
    rng = random.Random("c12/%d" % vlib.seed())
    for i, al in enumerate([16, 32, 64, 128, 256] * (1 if tier == "quick" else 20)):
        jobs.append({"family": "mixed_cpu", "seed": "c12a-%d-%d" % (vlib.seed(), i),
                     "args": compiles.config_args(rng) + ["--cpu-tensor-alignment", str(al)], "capture": False})
    results = compiles.run_all(jobs, timeout=900)
    cases, meta, skipped = [], [], collections.Counter()
    for r in results:
        if r["status"] != "ok":
            skipped[r["status"]] += 1
            continue
        art = artefacts.load(r)
        if not art:
            continue
        c, why = build_case(r, art)
        if c is None:
            skipped[why] += 1
            continue
        cases.append(c[0])
        meta.append((r, c))
    outs = models.run_parallel("check_arena", cases) if okx and cases else []
    programs, rejected, samples = 0, [], []
    multi = 0
    for (r, c), o in zip(meta, outs):
        programs += 1
        if c[4] > 1:
            multi += 1
        if o != [1]:
            rejected.append((r, c))
        if len(samples) < 3 and c[4] >= 1 and len(c[1]) >= 3:
            samples.append({"net": r.get("net_name"), "ops": r.get("net_desc"), "args": r["job"]["args"][-6:],
                            "arena_tensors": [list(t[:4]) for t in c[1]][:8], "scratch_size": c[2], "reported": c[3]})
    res.cov.update({
        "programs": programs, "disagreements_checked": len(rejected), "samples": samples or [{"note": "none"}],
        "with_several_npu_subgraphs": multi, "skipped": dict(skipped),
        "evaluations": len(results), "distinct_nontrivial": programs,
        "rule": "one program = the output model of one compilation; arena tensors, offsets (OfflineMemoryAllocation), live ranges "
                "over the operator order of the output graph, scratch tensor, stream footprints and the summary CSV figure",
    })
    vlib.proof_coverage(res, b, ["tools/tflsum.py (metadata, tensor table) and the CSV parser", "coq/hw/Npu.v footprints for the scratch clause",
                                 "tensor byte size = product of shape x element size (what a TFLite runtime reserves)"])
    res.assumptions += ["sampled compilations", "live range of a tensor = [producer index (0 for subgraph inputs), last consumer (end for outputs)]"]
    for r, c in rejected:
        # explain with a direct recomputation (diagnostic only)
        tens = c[1]
        why = "arena plan rejected"
        for i in range(len(tens)):
            for j in range(i + 1, len(tens)):
                a, bb = tens[i], tens[j]
                if max(a[2], bb[2]) <= min(a[3], bb[3]) and not (a[0] + a[1] <= bb[0] or bb[0] + bb[1] <= a[0]):
                    why = "tensors %d and %d overlap while both live" % (a[4], bb[4])
        al = alignment_of(r["job"])
        if any(t[0] % al for t in tens):
            why = "offset not a multiple of the requested alignment %d" % al
        if any(t[0] + t[1] > c[3] for t in tens):
            why = "reported size %d below the extent of the plan" % c[3]
        res.violation({"net": r.get("net_name"), "seed": r["job"]["seed"], "why": why.split(" %")[0][:50]},
                      {"job": r["job"], "tensors": [list(t) for t in tens], "scratch_size": c[2], "reported": c[3], "reason": why,
                       "replay_cmd": "cd /verif && /venv/bin/python tools/vela_worker.py %s/job.json" % r["job"]["out_dir"]},
                      "C12: %s (net %s)" % (why, r.get("net_name")))
    if not rejected:
        if not b["ok"]:
            vlib.report_broken_build(res, b, None)
        elif not okx or programs == 0:
            res.violation({"machinery": "no program validated"}, {"extraction_ok": okx, "skipped": dict(skipped)},
                          "no output model could be validated", no_input=True)
    return res.finish()
