"""C12 -- the offline arena plan is self-consistent and reported memory is sufficient (translation
validation with a proved checker, theorem check_arena_sound in props/C12.v)."""
import collections
import csv
import glob
import os
import re

import artefacts
import compiles
import models
import tflsum
import vlib

FAMS = ["mixed_cpu", "ew_dag", "conv_chain", "diamond", "ew_dag", "single", "mixed_cpu", "lut_heavy", "conv_chain_big", "unsupported",
        "ew_dag", "multi_custom", "multi_subgraph", "lstm", "cpu_fan"]
ELEM = {"int8": 1, "uint8": 1, "int16": 2, "int32": 4, "float32": 4, "int64": 8, "bool": 1, "float16": 2}
AREA_COL = {"SRAM": "sram_memory_used", "DRAM": "dram_memory_used", "On-chip Flash": "on_chip_flash_memory_used",
            "Off-chip Flash": "off_chip_flash_memory_used"}


def nbytes(t):
    n = 1
    for d in t["shape"]:
        n *= d
    return n * ELEM.get(t["type"], 1)


def alignment_of(job):
    a = job.get("args", [])
    idx = [i for i, x in enumerate(a) if x == "--cpu-tensor-alignment"]
    return int(a[idx[-1] + 1]) if idx else 16   # argparse keeps the last occurrence


CALL_OPTS = ("CondSubgraphIndex", "BodySubgraphIndex", "ThenSubgraphIndex", "ElseSubgraphIndex", "InitSubgraphIndex", "Subgraph")


def callees(op, nsg):
    """subgraphs a control-flow operator (WHILE / IF / CALL_ONCE / CALL) invokes, in the order cond, body / then, else / init"""
    o = op.get("options") or {}
    if op["opcode"] not in ("WHILE", "IF", "CALL_ONCE", "CALL"):
        return []
    return [o[k] for k in CALL_OPTS if isinstance(o.get(k), int) and 0 < o[k] < nsg]


def build_case(r, art):
    s = art["summary"]
    sgs = s["subgraphs"]
    alloc = tflsum.offline_allocation(s)
    if alloc is None:
        return None, "no OfflineMemoryAllocation metadata"
    offs = alloc["offsets"]
    base, b0 = [], 0
    for g in sgs:
        base.append(b0)
        b0 += len(g["tensors"])
    is_npu = lambda op: op["opcode"] == "CUSTOM" and op["custom_code"] == "ethos-u"
    # Time points.  Per operator two points a < b: a CPU kernel reads its inputs while it writes its outputs (inputs
    # live through b, outputs from a).  An Ethos-U custom operator consumes its inputs and produces its outputs at a
    # granularity the output graph does not expose: its inputs are counted live through a and its outputs from b;
    # whether an output may reuse the bytes of an input of the SAME custom operator is decided per byte by C03 on the
    # command stream, not here.  A control-flow operator (WHILE / IF / CALL_ONCE) runs its callee subgraphs between
    # its two points: its inputs are live through a, its outputs from b, every tensor of a callee lives strictly
    # inside (a, b) - so exactly the caller tensors that are produced before and read after the operator are live
    # together with the callee's tensors.  (How the kernel copies operator inputs/outputs to and from the callee's
    # inputs/outputs is not modelled: no overlap between those is reported.)  Subgraph inputs live from the first
    # point of their subgraph's invocation, subgraph outputs to a point after its last operator.
    clock = [0]
    tens, touched, scratch = [], [], []
    walked = set()

    def off_of(k, ti):
        return offs[base[k] + ti] if base[k] + ti < len(offs) else -1

    def walk(k, depth):
        g = sgs[k]
        walked.add(k)
        ops = g["operators"]
        first, last = {}, {}
        start = clock[0]
        for ti in g["inputs"]:
            first[ti] = start
        special = set()
        for oi, op in enumerate(ops):
            sub = callees(op, len(sgs)) if depth < 8 else []
            a = clock[0]
            clock[0] += 1
            for c in sub:
                walk(c, depth + 1)
            b = clock[0]
            clock[0] += 1
            t_in, t_out = (a, b) if (is_npu(op) or sub) else (b, a)
            for ti in op["outputs"]:
                first.setdefault(ti, t_out)
                last[ti] = max(last.get(ti, t_out), b)
            for ti in op["inputs"]:
                if ti >= 0:
                    last[ti] = max(last.get(ti, t_in), t_in)
                    first.setdefault(ti, start)
            if is_npu(op):
                special.add(op["inputs"][2])
                special.add(op["inputs"][3])
                sc = op["inputs"][2]
                scratch.append((off_of(k, sc), g["tensors"][sc]["shape"][0] if g["tensors"][sc]["shape"] else 0))
                for ti in op["inputs"][4:] + op["outputs"]:
                    if off_of(k, ti) >= 0:
                        touched.append((off_of(k, ti), nbytes(g["tensors"][ti]), a, b))
        end = clock[0]
        clock[0] += 1
        for ti in g["outputs"]:
            last[ti] = end
        for ti, t in enumerate(g["tensors"]):
            if off_of(k, ti) >= 0 and ti not in special and ti in first:
                tens.append((off_of(k, ti), nbytes(t), first[ti], last.get(ti, first[ti]), ti, k))

    walk(0, 0)
    for k in range(1, len(sgs)):       # subgraphs no operator invokes: on their own, after everything else
        if k not in walked:
            walk(k, 0)
    # a variable tensor (state kept between invocations, e.g. of an LSTM) is live during the whole inference - and from
    # one inference to the next: nothing else may ever share its bytes
    tens = [(t[0], t[1], 0, clock[0]) + tuple(t[4:]) if sgs[t[5]]["tensors"][t[4]].get("variable") else t for t in tens]
    npu = [(k, op) for k, g in enumerate(sgs) for op in g["operators"] if is_npu(op)]
    has_scratch = 1 if npu else 0
    s_off = s_size = 0
    fp_ends = []
    if npu:
        s_off = max(abs(x[0]) for x in scratch)                 # every scratch tensor must sit at offset 0 ...
        s_size = min(x[1] for x in scratch)                     # ... and each must span what the streams touch
        hw = artefacts.hw_args(r["job"])
        fouts = models.run("footprints", [hw + n["words"] for n in art["npu"] if n["words"] is not None])
        for o in fouts:
            if o[0] != 1:
                return None, "stream does not decode"
            i = 1
            while i < len(o):
                nr = o[i + 2]
                segs = o[i + 3:i + 3 + 3 * nr]
                j = i + 3 + 3 * nr
                nw = o[j]
                segs += o[j + 1:j + 1 + 3 * nw]
                i = j + 1 + 3 * nw
                for q in range(0, len(segs), 3):
                    if segs[q] == 1:
                        fp_ends.append(segs[q + 2])
    # reported size
    reported = None
    for f in glob.glob(os.path.join(r["job"]["out_dir"], "*_summary_*.csv")):
        rows = list(csv.reader(open(f)))
        d = dict(zip(rows[0], rows[1]))
        col = AREA_COL.get(d.get("feature_map_storage_area"))
        if col:
            reported = int(round(float(d[col]) * 1024))
    m = re.search(r"Total (\S.*?) used\s+([0-9.]+) KiB", r.get("stdout", ""))
    if reported is None:
        return None, "no summary CSV"
    fp_ends = sorted(set(fp_ends))[-50:]
    flat = [alignment_of(r["job"]), has_scratch, s_off, s_size, reported, len(tens)]
    for t in tens:
        flat += list(t[:4])
    flat += [len(fp_ends)] + fp_ends + [len(touched)]
    for t in touched:
        flat += list(t)
    if_branches = set(c for g in sgs for op in g["operators"] if op["opcode"] == "IF" for c in callees(op, len(sgs)))
    return (flat, tens, s_size, reported, len(npu), if_branches), None


def run(tier):
    res = vlib.Result("C12", tier, "translation_validation")
    b = vlib.build_property("C12")
    okx, xlog = vlib.build_extraction()
    n = 96 if tier == "quick" else 2400
    jobs = compiles.corpus_jobs(capture=False) + compiles.plan(FAMS, n, vlib.seed(), tag="c12", capture=False)
    # make sure alignments 16..256 all occur
    import random
    rng = random.Random("c12/%d" % vlib.seed())
    for i, al in enumerate([16, 32, 64, 128, 256] * (1 if tier == "quick" else 20)):
        jobs.append({"family": "mixed_cpu", "seed": "c12a-%d-%d" % (vlib.seed(), i),
                     "args": compiles.config_args(rng) + ["--cpu-tensor-alignment", str(al)], "capture": False})
    # every kind of multi-subgraph model (WHILE / IF / CALL_ONCE: arena tensors in several subgraphs of the model)
    import netgen
    for rep in range(1 if tier == "quick" else 15):
        for kind in sorted(set(netgen.MULTI_KINDS)):
            jobs.append({"family": "multi_subgraph:" + kind, "seed": "c12m-%d-%d" % (vlib.seed(), rep), "args": compiles.config_args(rng), "capture": False})
    # every allocator with CPU tensor alignments above 16 on networks without buffered weights (pooling / elementwise / CPU
    # tails): the padding the allocator inserts below a range must show in the reported size and the scratch tensor
    al_fams = ["single:maxpool", "ew_dag", "mixed_cpu", "multi_input", "single:avgpool", "single:add", "single:maxpool"]
    for rep in range(36 if tier == "quick" else 400):
        jobs.append({"family": al_fams[rep % len(al_fams)], "seed": "c12a-%d-%d" % (vlib.seed(), rep),
                     "args": (["--accelerator-config", "ethos-u55-128", "--config", compiles.CONFIG_INI, "--system-config",
                               "Ethos_U55_High_End_Embedded", "--memory-mode", "Shared_Sram"] if rep % 2 == 0 else
                              ["--accelerator-config", "ethos-u65-256"]) +
                             ["--tensor-allocator", ["Greedy", "Greedy", "Greedy", "LinearAlloc", "HillClimb"][rep % 5],
                              "--cpu-tensor-alignment", ["64", "256", "128"][rep % 3]],
                     "capture": False})
    # 16-bit producers, a type-narrowing QUANTIZE and 8-bit consumers in one cascade (rolling buffers whose element size
    # differs between producer and consumer), at the SRAM budgets that make the scheduler cascade them
    for rep in range(6 if tier == "quick" else 120):
        jobs.append({"family": "narrowing_chain", "seed": "c12n-%d-%d" % (vlib.seed(), rep),
                     "args": ["--accelerator-config", ["ethos-u55-128", "ethos-u55-256", "ethos-u65-256"][rep % 3], "--arena-cache-size",
                              str([80000, 90000, 75000, 85000, 100000, 60000][rep % 6])], "capture": False})
    results = compiles.run_all(jobs, timeout=900)
    cases, meta, skipped = [], [], collections.Counter()
    for r in results:
        if r["status"] != "ok":
            skipped[r["status"]] += 1
            continue
        art = artefacts.load(r)
        if not art:
            continue
        c, why = build_case(r, art)
        if c is None:
            skipped[why] += 1
            continue
        cases.append(c[0])
        meta.append((r, c))
    outs = models.run_parallel("check_arena", cases) if okx and cases else []
    programs, rejected, samples = 0, [], []
    multi = multi_sg = 0
    for (r, c), o in zip(meta, outs):
        programs += 1
        if any(t[5] for t in c[1]):
            multi_sg += 1
        if c[4] > 1:
            multi += 1
        if o != [1]:
            rejected.append((r, c))
        if len(samples) < 3 and c[4] >= 1 and len(c[1]) >= 3:
            samples.append({"net": r.get("net_name"), "ops": r.get("net_desc"), "args": r["job"]["args"][-6:],
                            "arena_tensors": [list(t[:4]) for t in c[1]][:8], "scratch_size": c[2], "reported": c[3]})
    res.cov.update({
        "programs": programs, "disagreements_checked": len(rejected), "samples": samples or [{"note": "none"}],
        "with_several_npu_subgraphs": multi, "with_arena_tensors_in_several_model_subgraphs": multi_sg, "skipped": dict(skipped),
        "evaluations": len(results), "distinct_nontrivial": programs,
        "rule": "one program = the output model of one compilation; arena tensors, offsets (OfflineMemoryAllocation), live ranges "
                "over the operator order of the output graph, scratch tensor, stream footprints and the summary CSV figure",
    })
    vlib.proof_coverage(res, b, ["tools/tflsum.py (metadata, tensor table) and the CSV parser", "coq/hw/Npu.v footprints for the scratch clause",
                                 "tensor byte size = product of shape x element size (what a TFLite runtime reserves)"])
    res.assumptions += ["sampled compilations", "live range of a tensor = [producer index (0 for subgraph inputs), last consumer (end for outputs)]",
                        "WHILE / IF / CALL_ONCE: the callee subgraphs' tensors live strictly inside the operator's slot, so they are live together "
                        "with exactly the caller tensors produced before and read after the operator; the copies a control-flow kernel makes "
                        "between operator inputs/outputs and callee inputs/outputs are not modelled (no overlap among those is reported)"]
    for r, c in rejected:
        # explain with a direct recomputation (diagnostic only)
        tens = c[1]
        why = "arena plan rejected"
        for i in range(len(tens)):
            for j in range(i + 1, len(tens)):
                a, bb = tens[i], tens[j]
                if max(a[2], bb[2]) <= min(a[3], bb[3]) and not (a[0] + a[1] <= bb[0] or bb[0] + bb[1] <= a[0]):
                    why = "tensors %d and %d overlap while both live" % (a[4], bb[4]) if a[5] == bb[5] == 0 else \
                        "tensors %d (subgraph %d) and %d (subgraph %d) overlap while both live" % (a[4], a[5], bb[4], bb[5])
        al = alignment_of(r["job"])
        if any(t[0] % al for t in tens):
            why = "offset not a multiple of the requested alignment %d" % al
        if any(t[0] + t[1] > c[3] for t in tens):
            why = "reported size %d below the extent of the plan" % c[3]
        key = {"net": r.get("net_name"), "seed": r["job"]["seed"], "why": why.split(" %")[0][:50]}
        # diagnosis of one known defect: the tensors of IF branch subgraphs are never allocated (all published at offset 0)
        pairs = [(a, bb) for i, a in enumerate(tens) for bb in tens[i + 1:]
                 if max(a[2], bb[2]) <= min(a[3], bb[3]) and not (a[0] + a[1] <= bb[0] or bb[0] + bb[1] <= a[0])]
        ifb = c[5]
        if why.startswith("tensors") and pairs and ifb and all(a[5] in ifb or bb[5] in ifb for a, bb in pairs) and \
                all(t[0] == 0 for t in tens if t[5] in ifb):
            key = {"defect": "if_branch_tensors_unallocated", "net": r.get("net_name"), "seed": r["job"]["seed"]}
            why = "every arena tensor of an IF branch subgraph is published at offset 0 (%s)" % why
        res.violation(key,
                      {"job": r["job"], "tensors": [list(t) for t in tens], "scratch_size": c[2], "reported": c[3], "reason": why,
                       "replay_cmd": "cd /verif && /venv/bin/python tools/vela_worker.py %s/job.json" % r["job"]["out_dir"]},
                      "C12: %s (net %s)" % (why, r.get("net_name")))
    if not rejected:
        if not b["ok"]:
            vlib.report_broken_build(res, b, None)
        elif not okx or programs == 0:
            res.violation({"machinery": "no program validated"}, {"extraction_ok": okx, "skipped": dict(skipped)},
                          "no output model could be validated", no_input=True)
    return res.finish()
