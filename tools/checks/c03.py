"""C03 -- no NPU operation consumes memory that was not defined for it (translation validation with
a proved checker). Theorem check_defuse_sound (props/C03.v). The harness supplies, per operation of a
decoded stream, the identities the compiler's own high-level command intends (tensor, box origin,
weight slice offsets) and the initial definitions (constants, CPU-written inputs from the output file);
the extracted checker decides the per-byte last-writer discipline on the *decoded registers*."""
import collections
import json

import artefacts
import compiles
import models
import tflsum
import vlib

FAMS = ["conv_chain", "conv_chain_big", "single", "diamond", "mixed_cpu", "lut_heavy", "conv_chain_big", "single", "lut_mixed"]
LUT_FAMS = ["single:softmax", "lut_mixed", "lut_heavy", "single:softmax", "single:logistic", "lut_mixed", "single:hswish", "single:lrelu"]
ELEM = {"int8": 1, "uint8": 1, "int16": 2, "int32": 4, "float32": 4, "int64": 8, "bool": 1, "float16": 2}


class Unsupported(Exception):
    pass


def pad4(c):
    c = list(c or [])
    return [0] * (4 - len(c)) + c[-4:]


def build_case(r, art, k, stream):
    """flat integer case for stream k of compilation r, or raises Unsupported"""
    npu = art["npu"][k]
    ids = {}

    def tid(eq):
        if eq not in ids:
            ids[eq] = len(ids) + 1
        return ids[eq]

    init = {}      # (region, lo, hi, id, delta)
    name_to_eq = {}

    addr_to_eq = {}

    def note(t):
        if t:
            if t.get("address") is not None and t["mem_type"] in ("Scratch", "Scratch_fast"):
                n = 1
                for d in t["shape"]:
                    n *= d
                addr_to_eq.setdefault((t["address"], n * t["element_size"]), t["eq_id"])
            name_to_eq.setdefault(t["name"], t["eq_id"])
            if t.get("src_tensor"):
                name_to_eq.setdefault(t["src_tensor"], t["eq_id"])

    def add_const(t):
        if t is None:
            return
        a = t["address"]
        if a is None or a < 0:
            raise Unsupported("constant tensor without address")
        init[(0, a, a + t["storage_size"], tid(t["eq_id"]), a)] = None

    def rng_of(ranges, core, depth):
        for key, off, sb, woff, wb, idx in ranges:
            if key == [core, depth]:
                return off, sb, woff, wb
        return None

    opids = []
    for op in stream["ops"]:
        cmd = op.get("cmd")
        api = op["api"]
        row = [0] * 26
        if cmd is None:
            raise Unsupported("operation without high-level command")
        if cmd["kind"] == "dma":
            tin = cmd["in"]
            if tin["purpose"] == "Weights":
                depth = pad4(cmd["box"]["start"])[-1]
                rg = rng_of(cmd.get("encoded_ranges") or [], 0, depth)
                if rg is None:
                    raise Unsupported("DMA of a weight slice without range")
                row[22], row[23] = tid(tin["eq_id"]), rg[0]
            elif tin["purpose"] == "LUT":
                row[22], row[23] = tid(tin["eq_id"]), 0
            else:
                raise Unsupported("DMA of a %s tensor" % tin["purpose"])
            if api["src"]["region"] == 0:
                add_const(tin)
            opids.append(row)
            continue
        if "TILE" in str(cmd.get("padding_type") or ""):
            # tile padding (half-pixel bilinear resize): the IFM tiles are arranged so that the rows / columns beyond an edge
            # read the edge itself - one byte at two logical positions, which the (object, offset) identities cannot express
            raise Unsupported("tile padding (edge replication through the IFM tiles)")
        for t in (cmd["ifm"], cmd["ifm2"], cmd["ofm"]):
            note(t)
        # ifm
        ifm = cmd["ifm"]
        if api["ifm"]["region"] == 0 and ifm["mem_type"].startswith("Permanent"):
            add_const(ifm)
            row[0:4] = [tid(ifm["eq_id"]), ifm["address"], 0, 0]
            row[24] = 1
        else:
            b = pad4(cmd["ifm_box"]["start"])
            row[0:4] = [tid(ifm["eq_id"]), b[1], b[2], b[3]]
        if api.get("ifm2") is not None and api.get("ifm2_scalar") is None and cmd["ifm2"] is not None:
            t2 = cmd["ifm2"]
            if api["ifm2"]["region"] == 0 and t2["mem_type"].startswith("Permanent"):
                add_const(t2)
                row[4:8] = [tid(t2["eq_id"]), t2["address"], 0, 0]
                row[25] = 1
            else:
                b = pad4(cmd["ifm2_box"]["start"])
                row[4:8] = [tid(t2["eq_id"]), b[1], b[2], b[3]]
        b = pad4(cmd["ofm_box"]["start"])
        row[8:12] = [tid(cmd["ofm"]["eq_id"]), b[1], b[2], b[3]]
        if cmd.get("weight") is not None:
            wsrc = cmd["weight_src"]
            depth = pad4(cmd["weight_box"]["start"])[-1]
            for core in range(stream["ncores"]):
                rg = rng_of(cmd["encoded_ranges"], core, depth)
                if rg is None:
                    continue
                off, sb, woff, wb = rg
                row[12 + 4 * core: 14 + 4 * core] = [tid(wsrc["eq_id"]), off + woff]
                if cmd.get("scale") is not None:
                    srg = rng_of(cmd.get("scale_ranges") or [], core, depth)
                    if srg is None:
                        raise Unsupported("standalone scale tensor without range")
                    row[14 + 4 * core: 16 + 4 * core] = [tid(cmd["scale"]["eq_id"]), srg[0]]
                else:
                    row[14 + 4 * core: 16 + 4 * core] = [tid(wsrc["eq_id"]), off]
            if api["weights"] and api["weights"][0]["region"] == 0:
                add_const(wsrc)
            if cmd.get("scale") is not None:
                add_const(cmd["scale"])
        if cmd.get("lut") is not None:
            row[20], row[21] = tid(cmd["lut"]["eq_id"]), 0
        opids.append(row)
    # tensors the CPU side defines before the custom operator runs: its non-special inputs
    s = art["summary"]
    sg = s["subgraphs"][npu["sg"]]
    alloc = tflsum.offline_allocation(s)
    for ti in npu["op"]["inputs"][4:]:
        t = sg["tensors"][ti]
        if t["data_len"]:
            continue   # constant operands live in their own buffers, not in the arena
        off = alloc["offsets"][ti] if alloc and ti < len(alloc["offsets"]) else -1
        if off < 0:
            raise Unsupported("custom-operator input %s without arena offset" % t["name"])
        n = 1
        for d in t["shape"]:
            n *= d
        size = n * ELEM.get(t["type"], 1)
        eq = name_to_eq.get(t["name"]) or name_to_eq.get(t["name"] + "_npu")
        if eq is None:
            # a reshape / squeeze of a subgraph input is bypassed: the consumer reads another tensor object placed
            # at the very same arena address with the same byte size (aliasing by construction)
            eq = addr_to_eq.get((off, size))
        if eq is None:
            continue   # not consumed by this stream
        init[(1, off, off + size, tid(eq), off)] = None
    hw = artefacts.hw_args(r["job"])
    flat = hw + [len(init)] + [x for e in init for x in e] + [len(opids)] + [x for row in opids for x in row] + npu["words"]
    return flat, len(opids), len(init)


CONTROL = ("WHILE", "IF", "CALL_ONCE", "CALL")
W_FAMS = ["mixed_cpu", "multi_custom", "ew_dag", "diamond", "multi_input", "mixed_cpu", "conv_chain", "single", "lstm", "cpu_fan", "unsupported:reshape_requant", "unsupported:squeeze_requant", "unsupported:reshape_5d"]


def build_inference_case(r, art):
    """the operator sequence of the output model over its tensor arena (hw/Inference.v): flat case, number of operators"""
    s = art["summary"]
    if len(s["subgraphs"]) != 1 or any(op["opcode"] in CONTROL for g in s["subgraphs"] for op in g["operators"]):
        raise Unsupported("whole inference: control flow / several subgraphs")
    g = s["subgraphs"][0]
    alloc = tflsum.offline_allocation(s)
    if not alloc:
        raise Unsupported("whole inference: no offline allocation in the file")

    def rng(ti):
        if ti < 0:
            return None
        t = g["tensors"][ti]
        if t["data_len"]:
            return None                       # constants live in their own buffers
        off = alloc["offsets"][ti] if ti < len(alloc["offsets"]) else -1
        n = 1
        for d in t["shape"]:
            n *= d
        size = n * ELEM.get(t["type"], 1)
        if off < 0 or size <= 0:
            return None
        return [off, off + size, ti + 1]

    def segs(tis):
        out = []
        for ti in tis:
            x = rng(ti)
            if x is not None and x not in out:
                out.append(x)
        return out

    def enc(l):
        return [len(l)] + [v for x in l for v in x]

    # variable tensors (state kept between invocations, e.g. of an LSTM) hold a value before the first operator runs
    init = segs(list(g["inputs"]) + [t["idx"] for t in g["tensors"] if t.get("variable")])
    npu_iter = iter([n for n in art["npu"] if n["sg"] == 0])
    ops = []
    for op in g["operators"]:
        if op["opcode"] == "CUSTOM" and op.get("custom_code") == "ethos-u":
            n = next(npu_iter, None)
            if n is None or n["op"] != op or n["words"] is None:
                raise Unsupported("whole inference: custom operator without decoded stream")
            b1 = alloc["offsets"][op["inputs"][2]]
            if b1 < 0:
                raise Unsupported("whole inference: scratch tensor without arena offset")
            ops.append([1, b1, -1] + enc(segs(op["inputs"][4:])) + enc(segs(op["outputs"])) + [len(n["words"])] + list(n["words"]))
        else:
            ops.append([0] + enc(segs(op["inputs"])) + enc(segs(op["outputs"])))
    ops.append([0] + enc(segs(g["outputs"])) + [0])
    hw = artefacts.hw_args(r["job"])
    return hw + enc(init) + [len(ops)] + [v for o in ops for v in o], len(ops)


def run(tier):
    res = vlib.Result("C03", tier, "translation_validation")
    b = vlib.build_property("C03")
    okx, xlog = vlib.build_extraction()
    n = 64 if tier == "quick" else 1600
    jobs = compiles.corpus_jobs(skip_for=("C03", tier)) + compiles.plan(FAMS, n, vlib.seed(), tag="d2", capture=True)
    # look-up tables of every shape Vela creates (8-bit, 16-bit interpolating, the 32-bit softmax exponent table) and
    # their slot bookkeeping: always present, whatever the shared plan drew
    jobs += compiles.plan(LUT_FAMS, 24 if tier == "quick" else 400, vlib.seed(), tag="c03lut", capture=True)
    # 16-bit producers, a type-narrowing QUANTIZE and 8-bit consumers in one cascade (rolling buffers whose element size
    # differs between producer and consumer), at the SRAM budgets that make the scheduler cascade them
    for rep in range(6 if tier == "quick" else 120):
        jobs.append({"family": "narrowing_chain", "seed": "c03n-%d-%d" % (vlib.seed(), rep),
                     "args": ["--accelerator-config", ["ethos-u55-128", "ethos-u55-256", "ethos-u65-256"][rep % 3], "--arena-cache-size",
                              str([80000, 90000, 75000, 85000, 100000, 60000][rep % 6])], "capture": True})
    # a RESHAPE that has to be a copy, followed by an in-place elementwise operator, next to another reader of the copied tensor
    for rep in range(12 if tier == "quick" else 240):
        jobs.append({"family": "memcpy_reshape", "seed": "c03r-%d-%d" % (vlib.seed(), rep),
                     "args": ["--accelerator-config", ["ethos-u55-128", "ethos-u65-256", "ethos-u55-64"][rep % 3]] +
                             ([] if rep % 2 else ["--optimise", "Size"]), "capture": True})
    # whole inference: networks in which CPU and Ethos-U operators alternate, several graph inputs, shared operands
    wjobs = compiles.plan(W_FAMS, 48 if tier == "quick" else 1200, vlib.seed(), tag="c03w", capture=False)
    results = compiles.run_all(jobs + wjobs, timeout=900)
    wresults = results
    cases, meta = [], []
    unsupported = collections.Counter()
    for r in results:
        if r["status"] != "ok":
            continue
        art = artefacts.load(r)
        if not art or not art["capture"]:
            continue
        if len(art["capture"]["streams"]) != len(art["npu"]):
            unsupported["stream count mismatch"] += 1
            continue
        for k, st in enumerate(art["capture"]["streams"]):
            if art["npu"][k]["words"] is None or art["npu"][k]["words"] != st["words"]:
                # order of custom operators in the file vs order of generation: match by content
                match = [j for j, n2 in enumerate(art["npu"]) if n2["words"] == st["words"]]
                if not match:
                    unsupported["captured stream not found in output file"] += 1
                    continue
                kk = match[0]
            else:
                kk = k
            try:
                flat, nops, ninit = build_case(r, art, kk, st)
            except Unsupported as ex:
                unsupported[str(ex)] += 1
                continue
            cases.append(flat)
            meta.append((r, kk, nops, ninit))
    outs = []
    if okx and cases:
        # one validator process per stream, largest first, from a pool
        import concurrent.futures
        order = sorted(range(len(cases)), key=lambda i: -len(cases[i]))
        with concurrent.futures.ThreadPoolExecutor(max_workers=vlib.NCPU) as ex:
            done = list(ex.map(lambda i: models.run("check_defuse", [cases[i]])[0], order))
        outs = [None] * len(cases)
        for i, o in zip(order, done):
            outs[i] = o
    programs = 0
    ops_total = 0
    rejected = []
    samples = []
    for (r, k, nops, ninit), o in zip(meta, outs):
        if o[0] != 1:
            unsupported["stream does not decode / malformed case"] += 1
            continue
        programs += 1
        ops_total += nops
        if o[1] != 1:
            if o[2] == -2:
                unsupported["operand identity outside the model (NHCWB16 view not on a brick boundary, or op count mismatch)"] += 1
                programs -= 1
                continue
            rejected.append((r, k, o))
        if len(samples) < 3:
            samples.append({"net": r.get("net_name"), "ops": r.get("net_desc"), "args": r["job"]["args"][:8],
                            "npu_ops": nops, "initial_definitions": ninit, "accepted": o[1] == 1})
    # ---- whole inference: the operator sequence of every output model over its tensor arena (hw/Inference.v)
    wcases, wmeta = [], []
    for r in wresults:
        if r["status"] != "ok":
            continue
        art = artefacts.load(r)
        if not art or not art["npu"]:
            continue
        try:
            flat, nops_w = build_inference_case(r, art)
        except Unsupported as ex:
            unsupported[str(ex)] += 1
            continue
        wcases.append(flat)
        wmeta.append((r, nops_w, art))
    wouts = []
    if okx and wcases:
        import concurrent.futures
        order = sorted(range(len(wcases)), key=lambda i: -len(wcases[i]))
        with concurrent.futures.ThreadPoolExecutor(max_workers=vlib.NCPU) as ex:
            done = list(ex.map(lambda i: models.run("check_inference", [wcases[i]])[0], order))
        wouts = [None] * len(wcases)
        for i, o in zip(order, done):
            wouts[i] = o
    inferences, top_ops_total, wrejected = 0, 0, []
    cpu_npu_mixed = 0
    for (r, nops_w, art), o in zip(wmeta, wouts):
        if o[0] != 1:
            unsupported["whole inference: stream does not decode / malformed case"] += 1
            continue
        inferences += 1
        top_ops_total += nops_w
        g0 = art["summary"]["subgraphs"][0]
        if any(op["opcode"] != "CUSTOM" for op in g0["operators"]) and len(g0["operators"]) > 1:
            cpu_npu_mixed += 1
        if o[1] != 1:
            wrejected.append((r, o, art))
    stat = collections.Counter(r["status"] for r in results)
    res.cov.update({
        "whole_inference": {"output_models_checked": inferences, "operators_incl_final_demand": top_ops_total,
                            "models_with_cpu_and_npu_operators": cpu_npu_mixed, "rejected": len(wrejected),
                            "rule": "one program = one output model: its operators in file order over the arena offsets of the "
                                    "OfflineMemoryAllocation metadata; Ethos-U operators contribute the write footprints of their streams"},
        "programs": programs, "disagreements_checked": len(rejected), "samples": samples or [{"note": "none"}],
        "npu_operations_checked": ops_total, "compile_status": dict(stat), "outside_model": dict(unsupported),
        "evaluations": len(results), "distinct_nontrivial": programs,
        "rule": "one program = one emitted command stream of a compiled generated network; every read of every operation is "
                "tracked per byte against the identity (tensor, logical offset) of its last writer",
    })
    vlib.proof_coverage(res, b, ["coq/hw/Npu.v footprint model; coq/hw/Defuse.v tagging (an identity is (object, address minus "
                                 "logical offset in the operand's own stride system): two views of one buffer with inconsistent "
                                 "strides are not distinguished - stride correctness is C06/C10)",
                                 "tools/wrap.py + tools/checks/c03.py: intended identities are read from the compiler's own "
                                 "high-level command (tensor equivalence id, box origin, weight slice offsets)",
                                 "tools/tflsum.py (custom-operator inputs and arena offsets from the output file)"])
    res.assumptions += ["sampled compilations", "constants region is taken as defined by the output file at the addresses the compiler allocated"]
    for r, k, o in rejected:
        d = {"op_index": o[2]}
        if len(o) >= 8:
            d.update({"demanded": {"region": o[3], "lo": o[4], "hi": o[5], "object": o[6], "delta": o[7]}})
        if len(o) >= 12:
            d.update({"first_bad_address": o[8], "defined": bool(o[9]), "found_object": o[10], "found_delta": o[11]})
        st = None
        try:
            cap = artefacts.load(r)["capture"]["streams"]
            st = [s for s in cap if True][0]
            opc = cap[min(k, len(cap) - 1)]["ops"][o[2]]
            d["operation"] = {"cls": opc["cls"], "pass": (opc.get("cmd") or {}).get("pass"),
                              "ifm_box": (opc.get("cmd") or {}).get("ifm_box"), "ofm_box": (opc.get("cmd") or {}).get("ofm_box")}
        except Exception:
            pass
        why = ("operation %d reads bytes %s" % (o[2], "that were never defined" if len(o) >= 10 and not o[9]
                                                 else "last written with a different identity (stale or foreign data)"))
        stride_y, rolling = None, None
        try:
            apiop = cap[min(k, len(cap) - 1)]["ops"][o[2]]["api"]
            stride_y = (apiop.get("kernel") or {}).get("stride_y")
            tl = apiop["ifm"]["tiles"]
            rolling = bool(tl["addresses"][2] != 0 or tl["height_0"] < apiop["ifm"]["shape"]["height"] or
                           (o[3] == apiop["ifm"]["region"] and "ifm" in str(d.get("operation"))))
            cm = cap[min(k, len(cap) - 1)]["ops"][o[2]].get("cmd") or {}
            rolling = bool(cm.get("ifm", {}).get("storage_shape", [0, 0])[1] < cm.get("ifm", {}).get("shape", [0, 0])[1])
        except Exception:
            pass
        res.violation({"kind": "undefined" if len(o) >= 10 and not o[9] else "stale", "consumer_stride_y": stride_y,
                       "ifm_is_rolling_buffer": rolling, "net": r.get("net_name"), "seed": r["job"]["seed"]},
                      dict(d, job=r["job"], stream=k,
                           replay_cmd="cd /verif && /venv/bin/python tools/vela_worker.py %s/job.json" % r["job"]["out_dir"]),
                      "C03: %s (net %s ops %s, %s)" % (why, r.get("net_name"), r.get("net_desc"), " ".join(r["job"]["args"][:2])))
    for r, o, art in wrejected:
        g0 = art["summary"]["subgraphs"][0]
        names = [t["name"] for t in g0["tensors"]]
        d = {"operator_index": o[2]}
        if o[2] == -2:
            k = o[3] if len(o) > 3 else -1
            why = "operator %d (Ethos-U): its command stream does not write every byte of its output tensors" % k
            kind, opi = "output_not_written", k
        else:
            opi = o[2]
            if len(o) >= 8:
                d["demanded"] = {"lo": o[4], "hi": o[5], "tensor": names[o[6] - 1] if 0 < o[6] <= len(names) else o[6]}
            if len(o) >= 12:
                fo = o[10]
                d.update({"first_bad_address": o[8], "defined": bool(o[9]),
                          "found": (names[fo - 1] if 0 < fo <= len(names) else "scratch of Ethos-U operator %d" % (-fo - 1))})
            kind = "inference_undefined" if len(o) >= 10 and not o[9] else "inference_stale"
            opn = g0["operators"][opi]["opcode"] if opi < len(g0["operators"]) else "(network outputs)"
            why = "operator %d (%s) of the output model reads tensor %s whose bytes %s" % (
                opi, opn, (d.get("demanded") or {}).get("tensor"),
                "were never defined" if kind == "inference_undefined" else "were overwritten by %s since their definition" % d.get("found"))
        res.violation({"kind": kind, "net": r.get("net_name"), "seed": r["job"]["seed"]},
                      dict(d, job=r["job"], operators=[(op["opcode"], op["inputs"], op["outputs"]) for op in g0["operators"]],
                           replay_cmd="cd /verif && /venv/bin/python tools/vela_worker.py %s/job.json" % r["job"]["out_dir"]),
                      "C03: %s (net %s ops %s, %s)" % (why, r.get("net_name"), r.get("net_desc"), " ".join(r["job"]["args"][:2])))
    if not rejected and not wrejected:
        if not b["ok"]:
            vlib.report_broken_build(res, b, None)
        elif not okx or programs == 0:
            res.violation({"machinery": "no program validated"}, {"extraction_ok": okx, "log": xlog[-800:], "outside": dict(unsupported)},
                          "no compilation could be validated", no_input=True)
    return res.finish()
