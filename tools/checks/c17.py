"""C17 -- driver payload framing.  Proof (coq/props/C17.v) + tie: translated make_da_tag /
emit_cmd_stream_header (gen lemmas) and correspondence of create_driver_payload with the
extracted model + property oracle on the implementation's bytes."""
import random
import struct

import vlib
import models

SPEC = {  # hardware facts: product, log2 macs/cc, shram KiB  (same table as Driver.spec_table)
    "ethos-u55-32": (0, 5, 16), "ethos-u55-64": (0, 6, 16), "ethos-u55-128": (0, 7, 24),
    "ethos-u55-256": (0, 8, 48), "ethos-u65-256": (1, 8, 48), "ethos-u65-512": (1, 9, 96)}
ARCH_VER = (1, 0, 6)


def oracle(acc_name, words, data):
    """the property, evaluated on the implementation's output; returns None or a reason"""
    if len(data) % 4:
        return "payload length not a multiple of 4"
    ws = list(struct.unpack("<%dI" % (len(data) // 4), data))
    if not ws or ws[0] != struct.unpack("<I", b"COP1")[0]:
        return "payload does not start with COP1"
    i, cfg, nops = 1, None, 0
    while i < len(ws):
        t = ws[i]
        tid, res, par = t & 0xFF, (t >> 8) & 0xFF, t >> 16
        if tid == 1:
            if cfg is not None or i + 2 >= len(ws):
                return "second or truncated config action"
            cfg = (ws[i + 1], ws[i + 2])
            i += 3
        elif tid == 5:
            nops += 1
            i += 1
        elif tid == 2:
            if cfg is None:
                return "command stream before config action"
            n = (res << 16) | par
            first = i + 1
            if (4 * first) % 16:
                return "command words start at byte %d, not 16-byte aligned" % (4 * first)
            if n != len(words):
                return "declared length %d != %d" % (n, len(words))
            if ws[first:] != [w for w in words]:
                return "command words modified or not exactly the rest of the payload"
            c, idw = cfg
            got = ((c >> 28) & 15, c & 15, (c >> 8) & 255)
            if got != SPEC[acc_name]:
                return "config word %#x says (product, log2macs, shram)=%r, accelerator is %r" % (c, got, SPEC[acc_name])
            ver = ((idw >> 28) & 15, (idw >> 20) & 255, (idw >> 16) & 15)
            if ver != ARCH_VER:
                return "arch version %r" % (ver,)
            return None
        else:
            return "unknown driver action %d" % tid
    return "no command stream action"


def run(tier):
    from ethosu.vela import api, driver_actions, architecture_features
    from ethosu.vela.errors import VelaError
    res = vlib.Result("C17", tier, "proof")
    b = vlib.build_property("C17")
    vlib.proof_coverage(res, b, ["extraction (ExtrOcamlBasic only) + ocaml/driver.ml for the correspondence run",
                                 "coq/model/Driver.v spec_table: product/MACs/SHRAM of the six accelerators (hardware facts)",
                                 "modelled, not verified: struct.pack, ctypes bitfield layout of config_r/id_r "
                                 "(their results are introspected into gen/GenTables.v every run)"])
    okx, xlog = vlib.build_extraction()
    rng = random.Random(vlib.seed())
    accs = list(api.NpuAccelerator)
    lens = [0, 1, 2, 3, 4, 5, 7, 8, 9, 15, 16, 17, 255, 256, 257, 65535, 65536, 65537]
    lens += [rng.randrange(0, 3000) for _ in range(20 if tier == "quick" else 400)]
    if tier == "thorough":
        lens += [(1 << 20) + 1, (1 << 16) * 3 + 2]
    big = [(1 << 24) - 1]
    cases = []
    for n in lens:
        for a in (accs if (n < 60000 or tier == "thorough") else [accs[n % len(accs)]]):
            kind = rng.choice(["rand", "edge"])
            if kind == "rand":
                ws = [rng.getrandbits(32) for _ in range(n)]
            else:
                ws = [rng.choice([0, 1, 0xFFFFFFFF, 0x80000000, 0x00FF0000, 0x4000, 0xFFFF]) for _ in range(n)]
            cases.append((a, ws))
    evals = 0
    diffs = 0
    nontrivial = set()
    samples = []
    impl = []
    for a, ws in cases:
        try:
            data = api.npu_create_driver_payload(ws, a)
            impl.append(data)
        except VelaError as ex:
            impl.append(None)
    # property oracle on the implementation
    rows = {r.value: r for r in architecture_features.Accelerator}
    name_of = {}
    for a in accs:
        # the public enumeration and the internal one name the same six parts: the pairing is by NAME here, so that the
        # translation table of the implementation (Accelerator.from_npu_accelerator) is inside what is compared
        name_of[a] = architecture_features.Accelerator[a.name].value
    first_bad = None
    for (a, ws), data in zip(cases, impl):
        evals += 1
        why = "rejected a stream below the limit" if data is None else oracle(name_of[a], ws, data)
        if why and first_bad is None:
            first_bad = (a, ws, why)
        if len(ws) > 0:
            nontrivial.add((name_of[a], len(ws), len(ws) % 4))
    # boundary lengths on the implementation only
    for n in big + [1 << 24, (1 << 24) + 1]:
        for a in (accs if tier == "thorough" else accs[4:5]):
            ws = [0x4000] * n
            evals += 1
            try:
                data = api.npu_create_driver_payload(ws, a)
                why = oracle(name_of[a], ws, data) if n < (1 << 24) else "stream of %d words was not rejected" % n
            except VelaError:
                why = None if n >= (1 << 24) else "rejected a stream below the limit"
            nontrivial.add((name_of[a], n, n % 4))
            if why and first_bad is None:
                first_bad = (a, [0x4000, "... x%d" % n], why)
            del ws
    # correspondence with the extracted model
    model_diff = None
    if okx:
        t = {}
        import json
        import subprocess
        rep = vlib.regenerate  # tables are read through the model: cfg/id words of each accelerator
        from ethosu.vela.architecture_features import create_default_arch
        mcases = []
        for (a, ws), data in zip(cases, impl):
            arch = create_default_arch(architecture_features.Accelerator[a.name])
            mcases.append([driver_actions.build_config_word(arch), driver_actions.build_id_word()] + ws)
        outs = models.run("driver_payload", mcases)
        for (a, ws), data, out in zip(cases, impl, outs):
            want = [0] if data is None else [1] + list(data)
            if out != want:
                diffs += 1
                if model_diff is None:
                    model_diff = (a, ws, out[:40], want[:40])
        # the proved reader on the implementation's bytes
        pouts = models.run("driver_parse", [list(d) for d in impl if d is not None][:200])
        for o in pouts:
            if o[0] != 1:
                diffs += 1
    else:
        res.notes.append("extraction build failed: " + xlog[-500:])
    # D2: every command-stream tensor of the tier's compiled models, judged by the proved reader
    # (Driver.parse_bytes, extracted) and by the oracle
    import compiles
    import artefacts
    d2 = compiles.run_all(compiles.plan(["conv_chain", "conv_chain_big", "single", "diamond", "mixed_cpu", "lut_heavy",
                                         "conv_chain_big", "single"], 64 if tier == "quick" else 1600, vlib.seed(), tag="d2", capture=True))
    d2_streams = 0
    for r in d2:
        if r["status"] != "ok":
            continue
        art = artefacts.load(r)
        acc = artefacts.job_accel(r["job"])
        for npu in (art["npu"] if art else []):
            d2_streams += 1
            evals += 1
            words = npu["words"]
            why = "command-stream tensor is not a driver payload" if words is None else oracle(acc, words, bytes(npu["payload"]))
            if why is None and okx:
                o = models.run("driver_parse", [list(npu["payload"])])[0]
                spec = SPEC[acc]
                if o[0] != 1 or o[6:] != words or o[5] != len(words) or (4 * o[4]) % 16:
                    why = "proved reader rejects or disagrees on the payload"
                elif ((o[1] >> 28) & 15, o[1] & 15, (o[1] >> 8) & 255) != spec:
                    why = "configuration word %#x does not match accelerator %s" % (o[1], acc)
            nontrivial.add((acc, len(words or []), "compiled"))
            if why and first_bad is None:
                first_bad = (acc, words or [], why + " (compiled model %s seed %s)" % (r.get("net_name"), r["job"]["seed"]))
    name_of.update({k: k for k in SPEC})
    res.cov.update({
        "compiled_streams_checked": d2_streams,
        "evaluations": evals, "distinct_nontrivial": len(nontrivial),
        "rule": "payloads built by the real api.npu_create_driver_payload for boundary and random lengths x 6 accelerators; "
                "distinct (accelerator, length, length mod 4) with length>0; each compared byte for byte with the extracted "
                "Coq model and judged by an independent Python reader (the property oracle)",
        "samples": [{"accelerator": name_of[a], "n_words": len(ws), "first_bytes": list(d[:36]) if d else None}
                    for (a, ws), d in list(zip(cases, impl))[18:21]],
        "model_vs_impl_differences": diffs,
        "length_distribution": {"<=17": sum(1 for _, w in cases if len(w) <= 17), "18..3000": sum(1 for _, w in cases if 17 < len(w) <= 3000),
                                ">3000": sum(1 for _, w in cases if len(w) > 3000), "2^24 boundary (impl only)": 3},
    })
    res.assumptions += ["struct.pack and ctypes behave as documented", "accelerator facts in Driver.spec_table"]

    def hw_limit_probe():
        """a register command stream of a little over 2^22 words (16 MiB) through the public generator: it must be rejected
        with a VelaError naming the hardware limit; one just below must be accepted. Written independently of the guard."""
        import subprocess
        code = (
            "import sys\n"
            "from ethosu.vela.api import npu_generate_register_command_stream, NpuAccelerator, NpuAddressRange, NpuDmaOperation\n"
            "from ethosu.vela.errors import VelaError\n"
            "def ops(n):\n"
            "    return [NpuDmaOperation(NpuAddressRange(0, 16 * i, 16 + 16 * (i % 7)), NpuAddressRange(1, (1 << 28) + 16 * i, 16 + 16 * (i % 7))) for i in range(n)]\n"
            "small = npu_generate_register_command_stream(ops(1000), NpuAccelerator.Ethos_U55_128)\n"
            "per = len(small) / 1000.0\n"
            "n_over = int((1 << 22) / per) + 2000\n"
            "try:\n"
            "    w = npu_generate_register_command_stream(ops(n_over), NpuAccelerator.Ethos_U55_128)\n"
            "    print('ACCEPTED', len(w), n_over)\n"
            "except VelaError as e:\n"
            "    print('REJECTED', n_over, str(e)[:120].replace(chr(10), ' '))\n")
        p = subprocess.run([vlib.PY, "-c", code], env=vlib.py_env(), capture_output=True, text=True, timeout=1200)
        return (p.stdout.strip().split("\n") or [""])[-1], p.stderr[-400:]

    guard_broken = bool(b.get("gen_fail", {}).get("GenGuards.hw_limit_guard"))
    probe = None
    if tier == "thorough" or guard_broken:
        probe = hw_limit_probe()
        res.cov["hardware_limit_probe"] = probe[0]

    def search():
        if probe and probe[0].startswith("ACCEPTED"):
            n = probe[0].split()
            return ({"path": "generate_command_stream", "why": "stream beyond 16 MiB accepted"},
                    {"recipe": "npu_generate_register_command_stream of %s 1-D DMA operations (src region 0 at 16*i, dst region 1 at 2^28+16*i, "
                               "length 16+16*(i mod 7)) for Ethos_U55_128" % n[2], "words_returned": int(n[1])},
                    "a register command stream of %s words (more than 16 MiB) is generated without the hardware-limit error" % n[1])
        if first_bad:
            a, ws, why = first_bad
            return ({"accelerator": name_of[a], "n_words": len(ws), "why": why},
                    {"accelerator": name_of[a], "words": ws[:64], "reason": why}, "driver payload: " + why)
        return None

    if first_bad or (probe and probe[0].startswith("ACCEPTED")):
        k, d, w = search()
        res.violation(k, d, w)
    elif probe and not probe[0].startswith("REJECTED"):
        res.violation({"machinery": "hardware limit probe"}, {"stdout": probe[0], "stderr": probe[1]},
                      "the hardware-limit probe did not run to completion", no_input=True)
    elif not b["ok"]:
        vlib.report_broken_build(res, b, search)
    elif model_diff or not okx:
        a, ws, out, want = model_diff if model_diff else (accs[0], [], [], [])
        res.violation({"correspondence": "driver_payload", "accelerator": name_of[a], "n_words": len(ws)},
                      {"model": out, "impl": want, "words": ws[:64], "extraction_ok": okx},
                      "correspondence Driver.payload_bytes vs create_driver_payload no longer holds", no_input=True)
    return res.finish()
