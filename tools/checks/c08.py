"""C08 -- encoded weight and scale tensors cover each output channel exactly once.

Proof (coq/props/C08.v, model coq/model/WLayout.v) + ties:
  T  weight_compressor.encode_bias is re-translated from the source on every run (gen/GenWLayout.v, lemma gen_encode_bias_eq)
  H  correspondence of the extracted model (build/wLayout) with the real encode_weight_and_scale_tensor (ranges, sizes,
     buffer bytes; the codec oracle of the model is instantiated with the real weight sections), create_weights,
     create_dma_op, encode_bias and request histories through CompressedWeightCache
  oracle (independent Python statement of the property on the implementation's outputs): layout (16-byte alignment,
     disjoint, stream order, cover, double-buffer bound), one 10-byte record per channel with that channel's bias /
     multiplier / shift, every weight section decoded with the reference decoder mlw_codec.decode equals the
     zero-point-corrected, core-deinterleaved weights in hardware order (brick traversal written here), a cache hit
     equals a fresh encoding
  D2 on the shared compilation plan: every weight / scale register range and every weight DMA of every conv-like
     operation equals the (core, slice) range of the captured tensor (recomputed by the extracted create_weights /
     create_dma), is 16-byte aligned, lies in the flash tensor, and its scale section parses into 10-byte records.
"""
import json
import math
import os
import random
import subprocess
import sys
import time
from fractions import Fraction

sys.path.insert(0, os.path.dirname(os.path.dirname(os.path.abspath(__file__))))  # tools/ (when run as the replay script)
import vlib  # noqa: E402
import models  # noqa: E402

EXE = "wLayout"
FAMS = ["conv_chain", "conv_chain_big", "single", "diamond", "mixed_cpu", "lut_heavy", "conv_chain_big", "single"]

# hardware facts written down independently of the tree: (cores, ofm micro-block depth, ifm micro-block depth)
HW = {"ethos-u55-32": (1, 4, 8), "ethos-u55-64": (1, 8, 8), "ethos-u55-128": (1, 8, 8), "ethos-u55-256": (1, 8, 8),
      "ethos-u65-256": (1, 8, 8), "ethos-u65-512": (2, 8, 8)}
SUBKERNEL_MAX = 8
KINDS = ["conv", "depthwise", "fc", "tconv"]


def rup(a, b):
    return -(-a // b) * b


# ---------------------------------------------------------------------------------------------------------------------
# independent side: hardware weight order, scale quantisation, record reader
def hw_order(vol, ifm_ub, ofm_ub, ofm_block_depth, depthwise, partkernel, bits, decomp_h, decomp_w):
    """vol: OHWI integer array -> weights in stream order (zeros where the traversal pads); the brick traversal of the
    weight stream: OFM block / IFM block / sub-kernel / (part-kernel: IFM ublock) / OFM ublock / kernel element /
    (depth-first: IFM ublock) / OFM ublock element / IFM ublock element"""
    od, kh, kw, idp = vol.shape
    out = []
    ifm_bd = 16 if (partkernel or bits == 16) else 32
    for obz in range(0, od, ofm_block_depth):
        cob = min(ofm_block_depth, od - obz)
        for ibz in range(0, 1 if depthwise else idp, ifm_bd):
            if depthwise:
                cib = ifm_ub
            else:
                cib = min(ifm_bd, idp - ibz) if partkernel else ifm_bd
            for sy in range(0, kh, decomp_h):
                sh = min(kh - sy, decomp_h)
                for sx in range(0, kw, decomp_w):
                    sw = min(kw - sx, decomp_w)
                    ne = sw * sh
                    if partkernel:
                        ne = rup(ne, 2 if bits == 16 else 4)
                    elif depthwise:
                        ne = rup(ne, 4)
                    outer = cib if partkernel else 1
                    inner = 1 if partkernel else cib
                    for uo in range(0, outer, ifm_ub):
                        for ou in range(0, cob, ofm_ub):
                            for el in range(ne):
                                kx, ky = el % sw, el // sw
                                for ui in range(0, inner, ifm_ub):
                                    for oz in range(ofm_ub):
                                        ofz = obz + ou + oz
                                        for iz in range(1 if depthwise else ifm_ub):
                                            ifz = ibz + ui + uo + iz
                                            if ifz < idp and ofz < od and ky < sh:
                                                out.append(int(vol[ofz, sy + ky, sx + kx, ifz]))
                                            else:
                                                out.append(0)
    return out


def q_scale(x):
    """documented quantisation of a positive double: significand rounded half away to 31 bits, shift = 31 - exponent;
    (0, 16) when the shift does not fit 6 bits"""
    x = float(x)
    m, e = math.frexp(x)
    f = Fraction(m) * (1 << 31)
    q = int(math.floor(f + Fraction(1, 2))) if f >= 0 else -int(math.floor(-f + Fraction(1, 2)))
    shift = 31 - e
    if not 0 <= shift < 64:
        return 0, 16
    return q, shift


def q_scale_reduced(x):
    q, s = q_scale(x)
    if not 0 <= s < 64:
        return 0, 16
    rq = ((q + (1 << 15)) >> 16) if q < (32767 << 16) else 32767
    return rq, s - 16


def parse_record(b):
    """10 bytes -> (bias, scale, shift, top two bits)"""
    u = int.from_bytes(bytes(b[0:5]), "little")
    bias = u - (1 << 40) if u >= (1 << 39) else u
    return bias, int.from_bytes(bytes(b[5:9]), "little"), b[9] & 63, b[9] >> 6


# ---------------------------------------------------------------------------------------------------------------------
# cases: plain JSON-able dicts -> real objects
def weight_values(c):
    import numpy as np
    rs = np.random.RandomState(c["wseed"])
    shape = tuple(c["wshape"])
    lo, hi = (0, 256) if c["wdtype"] == "uint8" else (-128, 128)
    mode = c.get("wmode", "rand")
    if mode == "rand":
        v = rs.randint(lo, hi, size=shape)
    elif mode == "sparse":
        v = rs.randint(lo, hi, size=shape) * (rs.rand(*shape) < 0.2)
        if c["wdtype"] == "uint8":
            v = v + (v == 0) * int(c["wzp"] if not isinstance(c["wzp"], list) else 0)
    elif mode == "small":
        v = rs.randint(-3, 4, size=shape) + (int(c["wzp"]) if c["wdtype"] == "uint8" and not isinstance(c["wzp"], list) else 0)
        v = np.clip(v, lo, hi - 1)
    else:  # extremes
        v = rs.choice([lo, hi - 1, 0 if lo < 0 else 128], size=shape)
    return v.astype(np.uint8 if c["wdtype"] == "uint8" else np.int8)


def bias_values(c):
    import numpy as np
    n = c["nbias"]
    rs = random.Random(c["bseed"])
    mode = c.get("bmode", "rand")
    out = []
    for i in range(n):
        if mode == "rand":
            out.append(rs.randrange(-(1 << 20), 1 << 20))
        elif mode == "wide":
            out.append(rs.choice([-(1 << 39), (1 << 39) - 1, rs.randrange(-(1 << 39), 1 << 39), 0, -1, 1]))
        elif mode == "i32":
            out.append(rs.choice([-(1 << 31), (1 << 31) - 1, rs.randrange(-(1 << 31), 1 << 31)]))
        else:  # "bad": some value outside the signed 40-bit range
            out.append(rs.choice([(1 << 39), -(1 << 39) - 1, 1 << 45]) if i == c.get("bad_at", 0) else rs.randrange(-1000, 1000))
    return np.array(out, dtype=np.int64)


def weight_scales(c):
    import numpy as np
    rs = random.Random(c["sseed"])
    n = c["wshape"][-1]
    if c["per_channel"]:
        return np.array([rs.uniform(0.0005, 0.08) for _ in range(n)], dtype=np.float32)
    return np.float32(rs.uniform(0.0005, 0.08))


def build(c, shared=None):
    """real objects for one request; shared: dict with optional 'weight' / 'bias' tensors to reuse (cache histories)"""
    import numpy as np
    from ethosu.vela import architecture_features as af
    from ethosu.vela.operation import Op, Operation, Kernel, ExplicitScaling, RoundingMode
    from ethosu.vela.tensor import Tensor, create_const_tensor, QuantizationParameters, TensorPurpose, TensorFormat, MemType
    from ethosu.vela.data_type import DataType
    from ethosu.vela.architecture_allocator import ArchitectureBlockConfig
    from ethosu.vela.architecture_features import Block
    DT = {"int8": DataType.int8, "uint8": DataType.uint8, "int16": DataType.int16, "int32": DataType.int32, "int64": DataType.int64}

    def qp(scale, zp):
        q = QuantizationParameters()
        q.scale_f32 = scale
        q.zero_point = zp
        return q

    arch = _arch(c["accel"])
    optype = {"conv": Op.Conv2DBias, "depthwise": Op.DepthwiseConv2DBias, "fc": Op.FullyConnected,
              "tconv": Op.Conv2DBackpropInputSwitchedBias}[c["kind"]]
    wshape = list(c["wshape"])
    n = wshape[-1]
    ifm = Tensor([1, 8, 8, wshape[-2]], DT[c["ifm_dtype"]], "ifm")
    ifm.quantization = qp(np.float32(c["ifm_scale"]), 0)
    ofm = Tensor([1, 8, 8, n], DT[c["ifm_dtype"]], "ofm")
    ofm.quantization = qp(np.float32(c["ofm_scale"]), 0)
    if c.get("away"):  # rounding away from zero exists only on convolutions that replace an average pool
        op = Operation(Op.AvgPool, "op")
        op.type = optype
    else:
        op = Operation(optype, "op")
    op.add_input_tensor(ifm)
    if shared and shared.get("weight") is not None:
        w = shared["weight"].clone("_reshape")  # what the reader does: value_id preserved
        w.purpose = TensorPurpose.Weights
    else:
        wzp = c["wzp"]
        if isinstance(wzp, list):
            wzp = np.array(wzp, dtype=np.int64)
        elif c.get("wzp_np"):
            wzp = np.int64(wzp)
        w = create_const_tensor("w", wshape, DT[c["wdtype"]], weight_values(c), quantization=qp(weight_scales(c), wzp))
        w.values = weight_values(c)
        w.purpose = TensorPurpose.Weights
        w.mem_type = MemType.Permanent_NPU
    op.add_input_tensor(w)
    if c["kind"] == "tconv":
        shp = create_const_tensor("oshape", [4], DataType.int32, [1, 8, 8, n])
        op.add_input_tensor(shp)
    if shared and shared.get("bias") is not None:
        b = shared["bias"].clone("_clone", set_unique=True)  # what the reader does per operator: own tensor, value_id preserved
        op.add_input_tensor(b)
    else:
        bv = bias_values(c)
        b = create_const_tensor("b", [len(bv)], DT[c["bias_dtype"]], bv, quantization=qp(np.float32(1), 0))
        b.values = bv
        b.purpose = TensorPurpose.FeatureMap
        b.format = TensorFormat.NHWC
        b.mem_type = MemType.Permanent_NPU
        op.add_input_tensor(b)
    op.set_output_tensor(ofm)
    if c.get("explicit"):
        op.explicit_scaling = ExplicitScaling(len(c["explicit"]) > 1, [s for _, s in c["explicit"]], [m for m, _ in c["explicit"]])
    if c.get("away"):
        op.rounding_mode = RoundingMode.AwayZero
    if c["kind"] == "fc":
        kernel = Kernel(1, 1)
    else:
        kernel = Kernel(wshape[1], wshape[0], 1, 1, c["dil"][0], c["dil"][1])
    bc = ArchitectureBlockConfig()
    bc.ofm_block = Block(8, 8, c["bd"])
    return dict(arch=arch, op=op, w=w, b=b, kernel=kernel, bc=bc)


_arch_cache = {}


def _arch(name):
    from ethosu.vela import architecture_features as af
    if name not in _arch_cache:
        _arch_cache[name] = af.create_default_arch(af.Accelerator(name))
    return _arch_cache[name]


def call_real(o, offs):
    from ethosu.vela import weight_compressor as wc
    try:
        r = wc.encode_weight_and_scale_tensor(o["arch"], o["op"], o["w"], o["b"], o["kernel"], o["bc"], list(offs))
        return "ok", r
    except (AssertionError, IndexError) as ex:
        return "err", type(ex).__name__
    except Exception as ex:  # anything else is not a modelled outcome
        return "other", "%s: %s" % (type(ex).__name__, ex)


def clear_cache():
    from ethosu.vela.weight_compressor import CompressedWeightCache
    CompressedWeightCache.cache.clear()


def fresh_real(o, offs):
    """what the function returns with an empty cache; the process-wide cache is restored afterwards"""
    from ethosu.vela.weight_compressor import CompressedWeightCache
    saved = dict(CompressedWeightCache.cache)
    CompressedWeightCache.cache.clear()
    try:
        return call_real(o, offs)
    finally:
        CompressedWeightCache.cache.clear()
        CompressedWeightCache.cache.update(saved)


def ranges_of(t):
    return [[int(k[0]), int(k[1]), int(v.offset), int(v.scale_bytes), int(v.weight_offset), int(v.weight_bytes), int(v.index)]
            for k, v in t.encoded_ranges.items()]


# ---------------------------------------------------------------------------------------------------------------------
# expected per-channel (bias, multiplier, shift): exact recomputation, independent of weight_compressor / scaling
def expected_raw_qscales(c, wscales):
    """the list before the AwayZero increment and before a single value is repeated"""
    import numpy as np
    if c.get("explicit"):
        return [(int(m), int(s)) for m, s in c["explicit"]]
    ifs, ofs = np.float32(c["ifm_scale"]), np.float32(c["ofm_scale"])
    ws = list(wscales) if hasattr(wscales, "__iter__") else [wscales]
    if c["ifm_dtype"] == "uint8" or c["kind"] == "fc":
        sc = [np.double(ifs * np.float32(w)) / np.double(ofs) for w in ws]
    else:
        sc = [(np.double(ifs) * np.double(np.float32(w))) / np.double(ofs) for w in ws]
    if c["ifm_dtype"] == "int16" and c["bias_dtype"] == "int64":
        return [q_scale_reduced(s) for s in sc]
    return [q_scale(s) for s in sc]


def expected_channel_records(c, wscales, biases):
    raw = expected_raw_qscales(c, wscales)
    if c.get("away"):
        raw = [(m + 1, s) for m, s in raw]
    if len(raw) == 1:
        raw = raw * len(biases)
    return [(int(b), m, s) for b, (m, s) in zip(biases, raw)], raw


def true_ratio(c, wscales, ch):
    import numpy as np
    ws = list(wscales) if hasattr(wscales, "__iter__") else [wscales]
    w = ws[ch] if len(ws) > 1 else ws[0]
    return Fraction(float(np.float32(c["ifm_scale"]))) * Fraction(float(np.float32(w))) / Fraction(float(np.float32(c["ofm_scale"])))


def add_bad(st, finding):
    """finding = (key, detail, what): a failing input of the property; distinct keys only, at most six"""
    bad = st.setdefault("bad", [])
    if len(bad) < 6 and all(b[0] != finding[0] for b in bad):
        bad.append(finding)


def is_valid_request(c, offs):
    """inputs on which the property's oracles apply: what every caller builds (strictly increasing closed slices
    from 0 to the OFM depth, interior boundaries multiples of the core count, block depth at least the core count)"""
    n = c["wshape"][-1]
    nc = HW[c["accel"]][0]
    if len(offs) < 2 or offs[0] != 0 or offs[-1] != n or c["nbias"] != n:
        return False
    if any(a >= b for a, b in zip(offs, offs[1:])):
        return False
    if any(x % nc for x in offs[1:-1]):
        return False
    return c["bd"] >= nc


# ---------------------------------------------------------------------------------------------------------------------
# property oracles on one returned tensor pair
def layout_oracle(c, offs, tw):
    """ranges of the weights tensor: 16-byte aligned, consecutive, disjoint, in stream order, cover the buffer; the
    double-buffer sizes bound every slice of their parity"""
    nc = HW[c["accel"]][0]
    n = c["wshape"][-1]
    rs = ranges_of(tw)
    want_keys = [(core, d) for d in offs[:-1] for core in range(min(nc, n))]
    if [(r[0], r[1]) for r in rs] != want_keys:
        return "keys %r are not the (core, slice) pairs in stream order %r" % ([(r[0], r[1]) for r in rs][:8], want_keys[:8])
    pos = 0
    for i, r in enumerate(rs):
        core, d, off, sb, wo, wb, idx = r
        if off % 16:
            return "range %r starts at %d, not 16-byte aligned" % ((core, d), off)
        if off != pos:
            return "range %r starts at %d, previous range ends at %d (gap or overlap)" % ((core, d), off, pos)
        if idx != i:
            return "range %r has index %d at position %d" % ((core, d), idx, i)
        if wo < sb or wo % 16 or wo - sb >= 16:
            return "weight section of %r at +%d does not follow the %d scale bytes at the next 16-byte boundary" % ((core, d), wo, sb)
        if wb % 16:
            return "weight section of %r has %d bytes, not a multiple of 16" % ((core, d), wb)
        pos = off + wo + wb
    if pos != len(tw.buffer):
        return "ranges end at %d, buffer has %d bytes" % (pos, len(tw.buffer))
    for i, d in enumerate(offs[:-1]):
        size = sum(r[4] + r[5] for r in rs if r[1] == d)
        if tw.double_buffer_sizes[i % 2] < size:
            return "slice %d needs %d bytes, double_buffer_sizes[%d] = %d" % (i, size, i % 2, tw.double_buffer_sizes[i % 2])
    return None


def scale_oracle(c, offs, ts, wscales, biases):
    """ts: the tensor holding the scale sections.  One 10-byte record per channel d+core, d+core+ncores, .. < d_next with
    that channel's bias and (multiplier, shift); every channel in exactly one section"""
    nc = HW[c["accel"]][0]
    n = c["wshape"][-1]
    recs, _ = expected_channel_records(c, wscales, biases)
    seen = [0] * n
    nxt = dict(zip(offs[:-1], offs[1:]))
    for r in ranges_of(ts):
        core, d, off, sb = r[0], r[1], r[2], r[3]
        chans = list(range(d + core, nxt[d], nc))
        if sb != 10 * len(chans):
            return "scale section of (core %d, slice %d) has %d bytes for %d channels %r" % (core, d, sb, len(chans), chans[:6])
        for j, ch in enumerate(chans):
            got = parse_record(ts.buffer[off + 10 * j: off + 10 * j + 10])
            seen[ch] += 1
            if got[3]:
                return "record of channel %d has non-zero top bits" % ch
            if got[:3] != recs[ch]:
                # exact recomputation differs: reject only what contradicts the property (this channel's bias, and a
                # multiplier/shift that represents this channel's scale)
                if got[0] != recs[ch][0]:
                    return "record %d of (core %d, slice %d) holds bias %d, channel %d has bias %d" % (j, core, d, got[0], ch, recs[ch][0])
                if c.get("explicit") or c.get("away"):
                    return "record of channel %d holds (multiplier, shift) %r, expected %r" % (ch, got[1:3], recs[ch][1:])
                ratio = true_ratio(c, wscales, ch)
                tol = Fraction(1, 1 << 12) if (c["ifm_dtype"] == "int16" and c["bias_dtype"] == "int64") else Fraction(1, 1 << 20)
                val = Fraction(got[1], 1 << got[2])
                if recs[ch][1:] != (0, 16) and abs(val - ratio) > tol * ratio:
                    return "record of channel %d holds multiplier %d >> %d = %.9g, the channel's scale is %.9g" % (
                        ch, got[1], got[2], float(val), float(ratio))
        pad = ts.buffer[off + sb: off + rup(sb, 16)]
        if any(pad):
            return "padding after the scale section of (core %d, slice %d) is not zero" % (core, d)
    if seen != [1] * n:
        bad = [i for i, s in enumerate(seen) if s != 1][:6]
        return "channels %r appear %r times in the scale sections" % (bad, [seen[i] for i in bad])
    return None


def weight_oracle(c, offs, tw, wvals):
    """every weight section decodes (reference decoder) to the zero-point-corrected weights of its channels in hardware order"""
    import numpy as np
    from ethosu import mlw_codec
    from ethosu.vela.api import NpuBlockTraversal
    nc, oub, iub = HW[c["accel"]]
    wzp = c["wzp"]
    v = wvals.astype(np.int64) - (np.array(wzp, dtype=np.int64) if isinstance(wzp, list) else int(wzp))
    if v.ndim == 2:
        v = v.reshape((1, 1) + v.shape)
    if c["kind"] == "tconv":
        v = v[::-1, ::-1, :, :]
    ohwi = np.transpose(v, (3, 0, 1, 2))
    bits = 16 if c["ifm_dtype"] == "int16" else 8
    pk = tw.hw_traversal == NpuBlockTraversal.PART_KERNEL_FIRST
    dw = c["kind"] == "depthwise"
    nxt = dict(zip(offs[:-1], offs[1:]))
    for r in ranges_of(tw):
        core, d, off, sb, wo, wb = r[:6]
        chans = list(range(d + core, nxt[d], nc))
        cbd = (c["bd"] + nc - 1 - core) // nc
        exp = hw_order(ohwi[chans], iub, oub, cbd, dw, pk, bits, SUBKERNEL_MAX // c["dil"][1], SUBKERNEL_MAX // c["dil"][0]) if chans else []
        # (the reference decoder terminates the process on an empty stream: an empty section decodes to nothing)
        dec = mlw_codec.decode(bytearray(tw.buffer[off + wo: off + wo + wb])) if wb else []
        if list(dec[:len(exp)]) != exp or any(dec[len(exp):]):
            k = next((i for i, (a, b) in enumerate(zip(dec, exp)) if a != b), min(len(dec), len(exp)))
            return "weight section of (core %d, slice %d) decodes to %d values, expected %d for channels %r; first difference at %d" % (
                core, d, len(dec), len(exp), chans[:6], k)
    return None


# ---------------------------------------------------------------------------------------------------------------------
# generators
ACCELS = list(HW)


def gen_slices(rng, n, nc, bd, style):
    if style == "full":
        return [0, n]
    if style == "sched":  # what propose_weight_buffering builds: 0, prebuffer, prebuffer + k * buffering, .., n
        pre = rng.choice([16, 32, 48])
        step = rng.choice([16, 32, bd if bd % 2 == 0 else 16])
        s = [0]
        if pre < n:
            s += list(range(pre, n, max(step, 1)))
        return s + [n]
    if style == "even":  # any boundaries that are multiples of the core count
        k = rng.randint(1, 5)
        cand = [x for x in range(nc, n, nc)]
        rng.shuffle(cand)
        return [0] + sorted(cand[:k]) + [n]
    if style == "odd":  # arbitrary strictly increasing boundaries
        k = rng.randint(1, 4)
        cand = list(range(1, n))
        rng.shuffle(cand)
        return [0] + sorted(cand[:k]) + [n]
    # malformed: not closed at n / not starting at 0 / not increasing / single element / beyond n
    return rng.choice([[0], [], [0, n + rng.randint(1, 5)], [0, max(1, n - 1)], [rng.randint(1, max(1, n - 1)), n], [0, n, n],
                       [0, n // 2 + 1, n // 2, n], [n, n + 1], [-1, n], [0, n // 2, n // 2, n]])


def gen_case(rng, kind=None, big=False):
    kind = kind or rng.choice(["conv", "conv", "depthwise", "fc", "tconv"])
    accel = rng.choice(ACCELS + ["ethos-u65-512"] * 4)
    nc = HW[accel][0]
    n = rng.choice([1, 2, 3, 5, 8, 9, 15, 16, 17, 24, 31, 32, 33, 40, 48, 64] + ([96, 128, 130] if big else []))
    if kind == "fc":
        wshape = [rng.choice([1, 3, 8, 16, 33, 64]), n]
    elif kind == "depthwise":
        wshape = [rng.choice([1, 2, 3, 5]), rng.choice([1, 2, 3, 5]), 1, n]
    else:
        wshape = [rng.choice([1, 1, 2, 3, 3, 5]), rng.choice([1, 1, 2, 3, 3, 5]), rng.choice([1, 3, 4, 8, 9, 16, 17, 32, 40]), n]
    ifm_dtype = rng.choice(["int8", "int8", "uint8", "int16"])
    wdtype = "uint8" if ifm_dtype == "uint8" else "int8"
    per_channel = wdtype == "int8" and rng.random() < 0.5
    if wdtype == "uint8":
        wzp = rng.choice([0, 1, 127, 128, 255, rng.randrange(256)])
    else:
        wzp = [rng.choice([0, 0, -1, 1, -128, 127]) for _ in range(n)] if (per_channel and rng.random() < 0.3) else rng.choice([0, 0, 0, -3, 5, -128, 127])
    bias_dtype = "int64" if (ifm_dtype == "int16" and rng.random() < 0.6) else "int32"
    bd = rng.choice([8, 16, 16, 24, 32, 48, 64]) if rng.random() < 0.8 else rng.choice([1, 2, 3, 4, 5, 12])
    style = rng.choices(["full", "sched", "even", "odd", "malformed"], [3, 3, 3, 2, 1])[0]
    c = dict(kind=kind, accel=accel, wshape=wshape, ifm_dtype=ifm_dtype, wdtype=wdtype, per_channel=per_channel, wzp=wzp,
             wzp_np=rng.random() < 0.3, bias_dtype=bias_dtype, bd=bd, nbias=n, wseed=rng.getrandbits(30), bseed=rng.getrandbits(30),
             sseed=rng.getrandbits(30), wmode=rng.choice(["rand", "rand", "sparse", "small", "extremes"]),
             bmode=rng.choices(["rand", "wide", "i32", "bad"], [5, 3, 2, 1])[0] if bias_dtype == "int64" else rng.choices(["rand", "i32", "bad"], [6, 3, 1])[0],
             ifm_scale=rng.choice([0.05, 0.0039, 1.0, rng.uniform(0.001, 0.5)]), ofm_scale=rng.choice([0.1, 0.0235, 1.0, rng.uniform(0.005, 0.9)]),
             dil=rng.choice([[1, 1], [1, 1], [1, 1], [2, 1], [1, 2], [2, 2]]) if kind in ("conv", "depthwise") else [1, 1],
             away=kind in ("conv", "depthwise") and rng.random() < 0.15, style=style)
    if c["bmode"] == "bad":
        c["bad_at"] = rng.randrange(n)
    if rng.random() < 0.12:
        k = rng.choice([1, n])
        c["explicit"] = [[rng.choice([1, (1 << 31) - 1, (1 << 32) - 1, rng.getrandbits(31)]), rng.choice([0, 1, 31, 63, rng.randrange(64)])] for _ in range(k)]
        if rng.random() < 0.1:
            c["explicit"][0][1] = 64  # outside the 6-bit range: guarded
    if rng.random() < 0.05:
        c["nbias"] = max(1, n + rng.choice([-1, 1]))  # bias tensor not matching the OFM depth (malformed)
    c["offs"] = gen_slices(rng, n, nc, bd, style)
    return c


CORPUS = [
    # the two-core odd interior boundary of DESIGN.md (hypothesis of scales_one_record_per_channel)
    dict(kind="conv", accel="ethos-u65-512", wshape=[3, 3, 4, 8], ifm_dtype="int8", wdtype="int8", per_channel=True, wzp=0, wzp_np=False,
         bias_dtype="int32", bd=16, nbias=8, wseed=1, bseed=2, sseed=3, wmode="rand", bmode="rand", ifm_scale=0.05, ofm_scale=0.1,
         dil=[1, 1], away=False, style="odd", offs=[0, 3, 8]),
    dict(kind="conv", accel="ethos-u65-512", wshape=[3, 3, 16, 48], ifm_dtype="int8", wdtype="int8", per_channel=True, wzp=0, wzp_np=False,
         bias_dtype="int32", bd=16, nbias=48, wseed=4, bseed=5, sseed=6, wmode="rand", bmode="rand", ifm_scale=0.05, ofm_scale=0.1,
         dil=[1, 1], away=False, style="sched", offs=[0, 16, 32, 48]),
    dict(kind="depthwise", accel="ethos-u55-32", wshape=[3, 3, 1, 17], ifm_dtype="uint8", wdtype="uint8", per_channel=False, wzp=128, wzp_np=True,
         bias_dtype="int32", bd=8, nbias=17, wseed=7, bseed=8, sseed=9, wmode="sparse", bmode="i32", ifm_scale=0.0039, ofm_scale=0.0235,
         dil=[2, 2], away=False, style="even", offs=[0, 16, 17]),
    dict(kind="fc", accel="ethos-u65-512", wshape=[33, 9], ifm_dtype="int16", wdtype="int8", per_channel=False, wzp=0, wzp_np=False,
         bias_dtype="int64", bd=8, nbias=9, wseed=10, bseed=11, sseed=12, wmode="rand", bmode="wide", ifm_scale=0.001, ofm_scale=0.002,
         dil=[1, 1], away=False, style="full", offs=[0, 9]),
    dict(kind="tconv", accel="ethos-u55-128", wshape=[3, 2, 8, 16], ifm_dtype="int8", wdtype="int8", per_channel=True, wzp=[0] * 16, wzp_np=False,
         bias_dtype="int32", bd=16, nbias=16, wseed=13, bseed=14, sseed=15, wmode="rand", bmode="rand", ifm_scale=0.05, ofm_scale=0.1,
         dil=[1, 1], away=False, style="full", offs=[0, 16]),
    # one-channel operator on two cores; block depth below the core count (core 1 is skipped by the code)
    dict(kind="conv", accel="ethos-u65-512", wshape=[1, 1, 8, 1], ifm_dtype="int8", wdtype="int8", per_channel=False, wzp=0, wzp_np=False,
         bias_dtype="int32", bd=8, nbias=1, wseed=16, bseed=17, sseed=18, wmode="rand", bmode="rand", ifm_scale=0.05, ofm_scale=0.1,
         dil=[1, 1], away=False, style="full", offs=[0, 1]),
    dict(kind="conv", accel="ethos-u65-512", wshape=[1, 1, 8, 8], ifm_dtype="int8", wdtype="int8", per_channel=False, wzp=0, wzp_np=False,
         bias_dtype="int32", bd=1, nbias=8, wseed=19, bseed=20, sseed=21, wmode="rand", bmode="rand", ifm_scale=0.05, ofm_scale=0.1,
         dil=[1, 1], away=False, style="full", offs=[0, 8]),
]


def model_layout_args(c, raw_q, biases, do_w, sections):
    """flat arguments of CMD layout; sections: [(core, d, len, bytes)] = the codec oracle (the real weight sections)"""
    nc = HW[c["accel"]][0]
    a = [nc, c["wshape"][-1], c["bd"], 1 if do_w else 0, 1 if c.get("away") else 0, len(biases)]
    a += [len(biases)] + [int(b) for b in biases]
    a += [len(raw_q)] + [int(x) for p in raw_q for x in p]
    a += [len(c["offs"])] + [int(x) for x in c["offs"]]
    a += [len(sections)]
    for core, d, ln, bs in sections:
        a += [core, d, ln, len(bs)] + list(bs)
    return a


def real_sections(c, o, tw):
    """the codec oracle of the model for this request: the weight bytes of every (core, d, len) the loop encodes.  A
    key written twice (repeated offset) keeps only its last range, the overwritten bytes come from a separate call"""
    offs = c["offs"]
    nxt = {}
    secs = []
    pairs = list(zip(offs[:-1], offs[1:]))
    for d, dn in pairs:
        nxt[d] = dn
    for x in ranges_of(tw):
        secs.append((x[0], x[1], nxt[x[1]] - x[1], bytes(tw.buffer[x[2] + x[4]: x[2] + x[4] + x[5]])))
    for d, dn in pairs:
        if nxt[d] != dn:  # overwritten
            status, r = fresh_real(o, [d, dn])
            if status == "ok":
                for x in ranges_of(r[0]):
                    secs.append((x[0], x[1], dn - d, bytes(r[0].buffer[x[2] + x[4]: x[2] + x[4] + x[5]])))
    return secs


def tensor_flat(t):
    rs = ranges_of(t)
    return [1, len(t.buffer), int(t.double_buffer_sizes[0]), int(t.double_buffer_sizes[1]), len(rs)] + [x for r in rs for x in r] + list(t.buffer)


def function_level(rng, tier, st):
    """real encode_weight_and_scale_tensor vs extracted model + property oracles.  st: accumulators"""
    n_cases = 260 if tier == "quick" else 6000
    cases = [dict(c) for c in CORPUS] + [gen_case(rng, big=(i % 7 == 0)) for i in range(n_cases)]
    margs, meta = [], []
    for c in cases:
        clear_cache()
        o = build(c)
        wv, bv, wsc = o["w"].values, o["b"].values, o["w"].quantization.scale_f32
        status, r = call_real(o, c["offs"])
        st["evals"] += 1
        valid = is_valid_request(c, c["offs"])
        st["dist"]["%s/%s/%s/%s" % (c["kind"], c["ifm_dtype"], HW[c["accel"]][0], c["style"])] += 1
        if status == "other":
            st["model_diff"].append(dict(case=c, why="unmodelled exception " + r))
            continue
        raw_q = expected_raw_qscales(c, wsc)
        if status == "ok":
            tw = r[0]
            secs = real_sections(c, o, tw)
            want = tensor_flat(tw)
            if r[1] is not None:
                st["model_diff"].append(dict(case=c, why="scale tensor returned on an empty cache"))
        else:
            secs, want = None, [0]
        if secs is None:
            # the model needs a codec: take the sections of a run without the failing scale part is impossible; use empty
            # sections of length 0 (multiple of 16) -- the error outcome does not depend on them
            secs = []
        margs.append(model_layout_args(c, raw_q, [int(x) for x in bv], True, secs))
        meta.append((c, want, status))
        if status == "ok" and valid:
            st["valid"] += 1
            st["nontrivial"].add((c["kind"], c["ifm_dtype"], HW[c["accel"]][0], len(c["offs"]) - 1, c["per_channel"], c["bd"] % 16 == 0,
                                  tuple(c["dil"]), c["wshape"][-1] % 16 == 0))
            why = (layout_oracle(c, c["offs"], tw) or scale_oracle(c, c["offs"], tw, wsc, bv)
                   or weight_oracle(c, c["offs"], tw, wv))
            if why:
                add_bad(st, (dict(oracle=" ".join(__import__("re").sub(r"\d+", "#", why).split()[:5]), ncores=HW[c["accel"]][0]),
                                   dict(case=c, reason=why), "encode_weight_and_scale_tensor: " + why))
        elif status == "err" and valid and all(-(1 << 39) <= b < (1 << 39) and 0 <= m < (1 << 32) and 0 <= s < 64
                                               for b, m, s in expected_channel_records(c, wsc, bv)[0]):
            # a well-formed request whose records all fit the documented field widths was rejected
            if True:
                add_bad(st, (dict(oracle="rejected", ncores=HW[c["accel"]][0]), dict(case=c, reason=r),
                                   "encode_weight_and_scale_tensor raised %s on a well-formed request" % r))
        if len(st["samples"]) < 3 and status == "ok" and valid and len(c["offs"]) > 2:
            st["samples"].append(dict(case={k: c[k] for k in ("kind", "accel", "wshape", "ifm_dtype", "bd", "offs")},
                                      ranges=ranges_of(tw)[:6], double_buffer_sizes=list(tw.double_buffer_sizes), buffer_len=len(tw.buffer)))
    outs = models.run_parallel("layout", margs, exe_name=EXE) if st["okx"] else []
    for (c, want, status), out in zip(meta, outs):
        st["model_cases"] += 1
        if out != want:
            k = next((i for i, (a, b) in enumerate(zip(out, want)) if a != b), min(len(out), len(want)))
            st["model_diff"].append(dict(case=c, why="model and implementation differ at flat position %d" % k, model=out[:40], impl=want[:40],
                                         status=status))
    clear_cache()


# ---------------------------------------------------------------------------------------------------------------------
# encode_bias: real function (also through the public api) vs hand model vs translated source + record reader
def bias_level(rng, tier, st):
    import numpy as np
    from ethosu.vela import api, weight_compressor as wc
    edge_b = [0, 1, -1, 255, 256, -256, (1 << 31) - 1, -(1 << 31), (1 << 39) - 1, -(1 << 39), 1 << 39, -(1 << 39) - 1, (1 << 40) - 1,
              -(1 << 40), 1 << 62, 0x0102030405, -0x0102030405]
    edge_s = [0, 1, 255, 256, 0x01020304, (1 << 31) - 1, 1 << 31, (1 << 32) - 1, 1 << 32, -1]
    edge_h = [0, 1, 31, 32, 63, 64, 65, -1, 128]
    cases = [(b, s, h) for b in edge_b for s in edge_s[:6] for h in edge_h[:5]]
    cases += [(rng.choice(edge_b), rng.choice(edge_s), rng.choice(edge_h)) for _ in range(200)]
    cases += [(rng.randrange(-(1 << 39), 1 << 39), rng.getrandbits(32), rng.randrange(64)) for _ in range(600 if tier == "quick" else 20000)]
    impl = []
    for b, s, h in cases:
        st["evals"] += 1
        try:
            f = api.npu_encode_bias if (b + s) % 2 else wc.encode_bias
            impl.append([1] + list(f(np.int64(b), s, h)))
        except AssertionError:
            impl.append([0])
        except Exception as ex:
            impl.append([2, repr(ex)])
    # property oracle: in range <-> accepted; an independent reader recovers the triple from 10 bytes
    for (b, s, h), out in zip(cases, impl):
        inr = -(1 << 39) <= b < (1 << 39) and 0 <= s < (1 << 32) and 0 <= h < 64
        why = None
        if inr and out[0] != 1:
            why = "in-range (bias, scale, shift) rejected"
        elif not inr and out[0] == 1:
            why = "out-of-range argument accepted (wrapped into the record)"
        elif out[0] == 1 and (len(out) != 11 or parse_record(out[1:]) != (b, s, h, 0)):
            why = "record %r does not read back as (bias, scale, shift) = %r" % (out[1:], (b, s, h))
        if why:
            add_bad(st, (dict(oracle="encode_bias", why=" ".join(why.split()[:2])), dict(bias=b, scale=s, shift=h, got=out), "encode_bias(%d, %d, %d): %s" % (b, s, h, why)))
        if inr:
            st["nontrivial"].add(("bias", b.bit_length() // 8, b < 0, s.bit_length() // 8, h // 16))
    if st["okx"]:
        flat = [[b, s, h] for b, s, h in cases]
        m1 = models.run("encode_bias", flat, exe_name=EXE)
        m2 = models.run("gen_encode_bias", flat, exe_name=EXE)
        m3 = models.run("decode_bias", [o[1:] for o in impl if o[0] == 1], exe_name=EXE)
        ok_cases = [c for c, o in zip(cases, impl) if o[0] == 1]
        for c, o, a, g in zip(cases, impl, m1, m2):
            st["model_cases"] += 1
            if a != o or g != o:
                st["model_diff"].append(dict(case=dict(encode_bias=c), why="encode_bias: model %r / translated %r / implementation %r" % (a, g, o)))
        for c, d in zip(ok_cases, m3):
            if d != [1] + list(c):
                st["model_diff"].append(dict(case=dict(encode_bias=c), why="proved reader decode_bias gives %r" % (d,)))


# ---------------------------------------------------------------------------------------------------------------------
# create_weights / create_dma_op on real encoded tensors
def addr_level(rng, tier, st):
    from ethosu.vela import high_level_command_to_npu_op as h2n
    from ethosu.vela.high_level_command_stream import Box, DMA
    from ethosu.vela.tensor import Tensor, MemType, TensorPurpose, MemArea
    from ethosu.vela.data_type import DataType
    n_cases = 60 if tier == "quick" else 1500
    margs_w, meta_w, margs_d, meta_d = [], [], [], []
    made = 0
    tries = 0
    while made < n_cases and tries < 20 * n_cases:
        tries += 1
        c = gen_case(rng)
        if not is_valid_request(c, c["offs"]) or c["bmode"] == "bad" or (c["ifm_dtype"] == "int16" and c["bias_dtype"] == "int64"):
            continue
        clear_cache()
        o = build(c)
        status, r = call_real(o, c["offs"])
        if status != "ok":
            continue
        made += 1
        tw = r[0]
        nc = HW[c["accel"]][0]
        arch = o["arch"]
        tw.address = 16 * rng.randrange(0, 1 << 20)
        # a separate scale tensor as after a cache hit with another scale configuration
        ts = None
        if rng.random() < 0.4:
            import numpy as np
            o2 = build(dict(c, bseed=c["bseed"] + 1), shared=dict(weight=o["w"]))
            s2, r2 = call_real(o2, c["offs"])
            if s2 == "ok" and r2[1] is not None:
                ts = r2[1]
                ts.mem_type = MemType.Permanent_NPU
                ts.address = 16 * rng.randrange(0, 1 << 20)
        rs = ranges_of(tw)
        srs = ranges_of(ts) if ts is not None else []
        for i, d in enumerate(c["offs"][:-1]):
            st["evals"] += 1
            buffered = rng.random() < 0.5
            box = Box([0, 0, 0, d], [1, 1, 1, c["offs"][i + 1]])
            if buffered:
                size = int(tw.double_buffer_sizes[i % 2])
                wt = Tensor([1, 1, 1, size], DataType.uint8, "buf")
                wt.src_tensor = tw
                wt.mem_type = MemType.Scratch_fast
                wt.mem_area = MemArea.Sram
                wt.purpose = TensorPurpose.Weights
                wt.address = 16 * rng.randrange(0, 1 << 16)
            else:
                size = len(tw.buffer)
                wt = tw
            try:
                ws, bs = h2n.create_weights(wt, box, ts, arch)
                got = [1, len(ws)] + [x for a in ws for x in (a.address, a.length)] + [len(bs)] + [x for a in bs for x in (a.address, a.length)]
            except (KeyError, AssertionError):
                ws, bs, got = [], [], [0]
            margs_w.append([nc, d, 1 if buffered else 0, int(wt.address), 1 if ts is not None else 0, int(ts.address) if ts is not None else 0,
                            len(rs)] + [x for r_ in rs for x in r_] + [len(srs)] + [x for r_ in srs for x in r_])
            meta_w.append((c, d, got))
            # oracle: the ranges are the sections of slice i, aligned, inside the tensor / the double buffer of parity i
            mine = [r_ for r_ in rs if r_[1] == d]
            why = None
            base = int(wt.address)
            if len(ws) != len(mine) or len(bs) != len(mine):
                why = "%d weight / %d scale ranges for %d cores of slice %d" % (len(ws), len(bs), len(mine), d)
            else:
                first = mine[0][2] if mine else 0
                for a, b_, r_ in zip(ws, bs, mine):
                    rel = r_[2] - first if buffered else r_[2]
                    if (a.address, a.length) != (base + rel + r_[4], r_[5]):
                        why = "weights of core %d slice %d at (%d, %d), section is (%d, %d)" % (r_[0], d, a.address, a.length, base + rel + r_[4], r_[5])
                    if ts is None and (b_.address, b_.length) != (base + rel, r_[4]):
                        why = "scales of core %d slice %d at (%d, %d), section is (%d, %d)" % (r_[0], d, b_.address, b_.length, base + rel, r_[4])
                    if ts is not None:
                        sr = [x for x in srs if x[0] == r_[0] and x[1] == d][0]
                        if (b_.address, b_.length) != (int(ts.address) + sr[2], rup(sr[3], 16)) or sr[2] + rup(sr[3], 16) > len(ts.buffer):
                            why = "scales of core %d slice %d at (%d, %d) are not the scale tensor's section" % (r_[0], d, b_.address, b_.length)
                    if a.address % 16 or a.length % 16 or b_.address % 16 or b_.length % 16:
                        why = "address range of core %d slice %d not 16-byte aligned" % (r_[0], d)
                    if not (base <= a.address and a.address + a.length <= base + size):
                        why = "weights of core %d slice %d outside the %s of %d bytes" % (r_[0], d, "double buffer" if buffered else "tensor", size)
                    if ts is None and not (base <= b_.address and b_.address + b_.length <= base + size):
                        why = "scales of core %d slice %d outside the %s of %d bytes" % (r_[0], d, "double buffer" if buffered else "tensor", size)
            if why:
                add_bad(st, (dict(oracle="create_weights", buffered=buffered, ncores=nc), dict(case=c, slice=d, reason=why), "create_weights: " + why))
            st["nontrivial"].add(("cw", nc, buffered, ts is not None, len(c["offs"]) - 1 > 1, i % 2))
            # DMA of the slice into a buffer
            out = Tensor([1, 1, 1, int(tw.double_buffer_sizes[i % 2])], DataType.uint8, "dbuf")
            out.mem_type = MemType.Scratch_fast
            out.mem_area = MemArea.Sram
            out.purpose = TensorPurpose.Weights
            out.address = 16 * rng.randrange(0, 1 << 16)
            try:
                dop = h2n.create_dma_op(DMA(None, tw, out, box), arch)
                gotd = [1, int(dop.src.address), int(dop.src.length)]
            except (UnboundLocalError, KeyError):
                dop, gotd = None, [0]
            margs_d.append([nc, d, int(tw.address), len(rs)] + [x for r_ in rs for x in r_])
            meta_d.append((c, d, gotd))
            if dop is not None:
                size_i = sum(r_[4] + r_[5] for r_ in mine)
                whyd = None
                if (dop.src.address, dop.src.length) != (int(tw.address) + (mine[0][2] if mine else 0), size_i):
                    whyd = "DMA of slice %d reads (%d, %d), the slice is (%d, %d)" % (d, dop.src.address - int(tw.address), dop.src.length, mine[0][2], size_i)
                elif dop.dest.length > int(tw.double_buffer_sizes[i % 2]) or dop.dest.address != int(out.address):
                    whyd = "DMA of slice %d writes %d bytes into a double buffer of %d" % (d, dop.dest.length, tw.double_buffer_sizes[i % 2])
                if whyd:
                    add_bad(st, (dict(oracle="create_dma_op", ncores=nc), dict(case=c, slice=d, reason=whyd), "create_dma_op: " + whyd))
    if st["okx"] and margs_w:
        for (c, d, got), out in zip(meta_w, models.run("create_weights", margs_w, exe_name=EXE)):
            st["model_cases"] += 1
            if out != got:
                st["model_diff"].append(dict(case=c, why="create_weights slice %d: model %r implementation %r" % (d, out[:12], got[:12])))
        for (c, d, got), out in zip(meta_d, models.run("create_dma", margs_d, exe_name=EXE)):
            st["model_cases"] += 1
            if out != got:
                st["model_diff"].append(dict(case=c, why="create_dma_op slice %d: model %r implementation %r" % (d, out, got)))
    clear_cache()


# ---------------------------------------------------------------------------------------------------------------------
# request histories through the process-wide CompressedWeightCache
BLOCK_TYPE = {"conv": 1, "tconv": 1, "depthwise": 2, "fc": 3}
# the fields of WeightCompressionConfig (the last two since repo commit 845322f)
KEY_FIELDS = ["block_type", "block_depth_clipped", "slices", "dilation", "weight_value_id", "ifm_bitdepth", "op_type_transpose_flip"]
# the fields of ScaleCompressionConfig
SCALE_KEY_FIELDS = ["scale_value_id", "ifm_scale", "ofm_scale"]


def fbits(x):
    import struct
    import numpy as np
    return struct.unpack("<I", struct.pack("<f", float(np.float32(x))))[0]


def eff_sections(r):
    """what the NPU will be pointed at per (core, depth): (scale bytes, weight bytes), following create_weights"""
    tw, ts = r
    out = {}
    for k, v in tw.encoded_ranges.items():
        if ts is None:
            sb = bytes(tw.buffer[v.offset: v.offset + v.scale_bytes])
        else:
            y = ts.encoded_ranges.get(k)
            sb = bytes(ts.buffer[y.offset: y.offset + y.scale_bytes]) if y is not None else None
        out[(int(k[0]), int(k[1]))] = (sb, bytes(tw.buffer[v.offset + v.weight_offset: v.offset + v.weight_offset + v.weight_bytes]))
    return out


def history_base(rng, kind=None, per_channel=None):
    """a well-formed request without error cases, the root of a history"""
    while True:
        base = gen_case(rng, kind=kind)
        base.update(bmode="rand", style="sched", away=False)
        base.pop("explicit", None)
        base.pop("bad_at", None)
        n = base["wshape"][-1]
        base["nbias"] = n
        if base["ifm_dtype"] == "int16":
            base["bias_dtype"] = "int32"
        if per_channel is not None and base["wdtype"] == "int8":
            base["per_channel"] = per_channel
        base["bd"] = rng.choice([8, 16, 16, 24, 32])
        base["offs"] = gen_slices(rng, n, HW[base["accel"]][0], base["bd"], rng.choice(["full", "full", "sched", "even"]))
        if is_valid_request(base, base["offs"]):
            return base


def gen_history(rng, sound=True):
    """a list of request dicts.  Requests with equal widx share the weight tensor, requests with equal bidx the bias tensor
    (per-operator clones with the value_id of the first, as the reader makes them).  sound: requests sharing a weight tensor
    agree on everything outside the two keys (the accelerator)"""
    nw = rng.randint(1, 3)
    pool = [history_base(rng, kind=rng.choice(["conv", "conv", "depthwise", "fc", "tconv"])) for _ in range(nw)]
    h = []
    nb = 0
    for _ in range(rng.randint(2, 7)):
        wi = rng.randrange(nw)
        base = pool[wi]
        n = base["wshape"][-1]
        nc = HW[base["accel"]][0]
        q = dict(base, widx=wi)
        prev = [p for p in h if p["widx"] == wi]
        if prev and rng.random() < 0.2:
            h.append(dict(rng.choice(prev), repeat=True))  # the very same objects again: a full hit
            continue
        q["bd"] = rng.choice([8, 16, 16, 24, 32])
        q["offs"] = gen_slices(rng, n, nc, q["bd"], rng.choice(["full", "full", "sched", "even"]))
        if base["kind"] in ("conv", "depthwise"):
            q["dil"] = rng.choice([[1, 1], [1, 1], [2, 2], [2, 1]])
        # the bias tensor: an earlier one of this weight tensor (clone, same value_id) or a new one (same or other values)
        if prev and rng.random() < 0.5:
            p0 = rng.choice(prev)
            q["bidx"], q["bseed"] = p0["bidx"], p0["bseed"]
        else:
            q["bidx"], nb = nb, nb + 1
            q["bseed"] = rng.choice([base["bseed"], rng.getrandbits(30)])
        q["ofm_scale"] = rng.choice([base["ofm_scale"], base["ofm_scale"], 0.0625])
        q["ifm_scale"] = rng.choice([base["ifm_scale"], base["ifm_scale"], 0.03125])
        # in the key: operators of different IFM width / a convolution and a transpose convolution sharing one weight tensor
        if base["wdtype"] == "int8" and rng.random() < 0.35:
            q["ifm_dtype"] = rng.choice(["int8", "int16"])
        if base["kind"] in ("conv", "tconv") and rng.random() < 0.35:
            q["kind"] = rng.choice(["conv", "tconv"])
            q["dil"] = [1, 1]
        if not sound:
            what = rng.choice(["accelerator_ncores", "accelerator_ublock"])
            if what == "accelerator_ncores":
                q["accel"] = rng.choice(["ethos-u65-512", "ethos-u65-256"])
            else:
                q["accel"] = rng.choice(["ethos-u55-32", "ethos-u55-64"])
        h.append(q)
    return h


# every component of the two keys (and the request as a whole), varied one at a time against a root request
VARIATIONS = ["same_objects", "same_clones", "block_type", "block_depth_clipped", "block_depth_unclipped", "slices", "dilation",
              "weight_value_id", "ifm_bitdepth", "op_type_transpose_flip", "scale_value_id_same_values", "scale_value_id_new_values",
              "ifm_scale", "ofm_scale", "ifm_and_ofm_scale", "scale_value_id_and_ofm_scale"]


def vary(rng, a, what, ids):
    """the root request a with exactly the named component changed (None when it cannot be changed on this root)"""
    n = a["wshape"][-1]
    nc = HW[a["accel"]][0]
    q = dict(a, varied=what)
    if what == "same_objects":
        return dict(a, repeat=True, varied=what)
    if what == "same_clones":
        return q
    if what == "block_type":
        if a["kind"] not in ("conv", "depthwise") or a["wshape"][-2] != 1:
            return None
        q["kind"] = "depthwise" if a["kind"] == "conv" else "conv"
    elif what == "block_depth_clipped":
        cand = [b for b in (8, 16, 24, 32) if min(b, n) != min(a["bd"], n)]
        if not cand:
            return None
        q["bd"] = rng.choice(cand)
    elif what == "block_depth_unclipped":
        cand = [b for b in (8, 16, 24, 32, 48) if b != a["bd"] and min(b, n) == min(a["bd"], n)]
        if not cand:
            return None
        q["bd"] = rng.choice(cand)
    elif what == "slices":
        for _ in range(10):
            offs = gen_slices(rng, n, nc, a["bd"], rng.choice(["full", "sched", "even"]))
            if offs != a["offs"] and is_valid_request(a, offs):
                q["offs"] = offs
                break
        else:
            return None
    elif what == "dilation":
        if a["kind"] not in ("conv", "depthwise"):
            return None
        q["dil"] = rng.choice([d for d in ([1, 1], [2, 2], [2, 1], [1, 2]) if d != a["dil"]])
    elif what == "weight_value_id":
        q["widx"] = ids["w"] = ids["w"] + 1
    elif what == "ifm_bitdepth":
        if a["wdtype"] != "int8":
            return None
        q["ifm_dtype"] = "int16" if a["ifm_dtype"] == "int8" else "int8"
    elif what == "op_type_transpose_flip":
        if a["kind"] not in ("conv", "tconv") or a["dil"] != [1, 1]:
            return None
        q["kind"] = "tconv" if a["kind"] == "conv" else "conv"
    elif what == "scale_value_id_same_values":
        q["bidx"] = ids["b"] = ids["b"] + 1
    elif what == "scale_value_id_new_values":
        q["bidx"] = ids["b"] = ids["b"] + 1
        q["bseed"] = rng.getrandbits(30)
    elif what == "ifm_scale":
        q["ifm_scale"] = a["ifm_scale"] * rng.choice([0.5, 2.0, 1.25])
    elif what == "ofm_scale":
        q["ofm_scale"] = a["ofm_scale"] * rng.choice([0.5, 2.0, 1.25])
    elif what == "ifm_and_ofm_scale":
        q["ifm_scale"], q["ofm_scale"] = a["ifm_scale"] * 2.0, a["ofm_scale"] * 2.0  # same ratio, other key
    elif what == "scale_value_id_and_ofm_scale":
        q["bidx"] = ids["b"] = ids["b"] + 1
        q["ofm_scale"] = a["ofm_scale"] * 0.5
    return q


def systematic_history(rng, per_channel):
    """root request, then every variation of it (shuffled), each sharing the root's weight and bias tensors unless that is
    the varied component; then a few variations of variations"""
    a = dict(history_base(rng, kind=rng.choice(["conv", "conv", "depthwise", "fc", "tconv"]), per_channel=per_channel), widx=0, bidx=0)
    if rng.random() < 0.3 and a["kind"] == "conv":
        a["wshape"] = a["wshape"][:2] + [1] + a["wshape"][3:]  # a one-channel input: the weights fit a depthwise operator too
    ids = dict(w=0, b=0)
    order = list(VARIATIONS)
    rng.shuffle(order)
    h = [a]
    for what in order:
        q = vary(rng, a, what, ids)
        if q is not None:
            h.append(q)
    for _ in range(3):
        p = rng.choice([x for x in h[1:] if not x.get("repeat")] or [a])
        q = vary(rng, p, rng.choice(VARIATIONS[1:]), ids)
        if q is not None:
            h.append(q)
    return h


def request_fields(q):
    n = q["wshape"][-1]
    return dict(block_type=BLOCK_TYPE[q["kind"]], block_depth_clipped=min(q["bd"], n), slices=list(q["offs"]), dilation=list(q["dil"]),
                weight_value_id=q["widx"], ifm_bitdepth=16 if q["ifm_dtype"] == "int16" else 8,
                op_type_transpose_flip=q["kind"] == "tconv",
                scale_value_id=q["bidx"], ifm_scale=fbits(q["ifm_scale"]), ofm_scale=fbits(q["ofm_scale"]),
                bias_values=q["bseed"], accelerator_ncores=HW[q["accel"]][0],
                accelerator_ublock=HW[q["accel"]][1:], block_depth=q["bd"])


def run_history(h):
    """real calls in one process from an empty cache.  Returns per request (status, kind, origin, response, fresh response, objects)"""
    clear_cache()
    weights, biases, made, out = {}, {}, [], []
    owner = {}
    for i, q in enumerate(h):
        if q.get("repeat"):
            j = next(k for k, p in enumerate(h[:i]) if all(p.get(x) == q.get(x) for x in q if x not in ("repeat", "varied")) and not p.get("repeat"))
            o = made[j]
        else:
            o = build(q, shared=dict(weight=weights.get(q["widx"]), bias=biases.get(q["bidx"])))
            weights.setdefault(q["widx"], o["w"])
            biases.setdefault(q["bidx"], o["b"])
        made.append(o)
        status, r = call_real(o, q["offs"])
        if status != "ok":
            out.append((status, 0, None, r, None, o))
            continue
        if id(r[0]) in owner:
            kind, origin = (2 if r[1] is None else 3), owner[id(r[0])]
        else:
            owner[id(r[0])] = i
            kind, origin = 1, i
        fs, fr = fresh_real(o, q["offs"])
        out.append((status, kind, origin, r, fr if fs == "ok" else None, o))
    clear_cache()
    return out


def bias_identity(h, i):
    """the bias tensor's value_id: requests with equal bidx use clones of one tensor"""
    return h[i]["bidx"]


def history_model_args(h, outs):
    a = [len(h)]
    for i, q in enumerate(h):
        n = q["wshape"][-1]
        recs, _ = expected_channel_records(q, weight_scales(next(p for p in h if p["widx"] == q["widx"])), bias_values(q))
        a += [BLOCK_TYPE[q["kind"]], q["bd"], n, q["dil"][0], q["dil"][1], HW[q["accel"]][0], 16 if q["ifm_dtype"] == "int16" else 8,
              ACCELS.index(q["accel"]), 1 if q["kind"] == "tconv" else 0, i, q["widx"],
              bias_identity(h, i), fbits(q["ifm_scale"]), fbits(q["ofm_scale"])]
        a += [len(q["offs"])] + list(q["offs"])
        a += [len(recs)] + [b for b, _, _ in recs]
        a += [len(recs)] + [x for _, m, s in recs for x in (m, s)]
    return a


def cache_defect(field):
    return "scale_cache_key_omits" if field in SCALE_KEY_FIELDS else "weight_cache_key_omits"


def history_level(rng, tier, st):
    n_hist = 30 if tier == "quick" else 600
    n_sys = 24 if tier == "quick" else 400
    hists = ([("systematic", systematic_history(rng, per_channel=bool(i % 2))) for i in range(n_sys)]
             + [("random", gen_history(rng, sound=True)) for _ in range(n_hist)]
             + [("unsound", gen_history(rng, sound=False)) for _ in range(n_hist // 2)])
    margs, meta = [], []
    for style, h in hists:
        sound = style != "unsound"
        outs = run_history(h)
        st["evals"] += len(h)
        flat = []
        ok = True
        for i, (q, (status, kind, origin, r, fr, o)) in enumerate(zip(h, outs)):
            if status != "ok":
                flat.append(0)
                ok = False
                st["model_diff"].append(dict(case=dict(history=h), why="request %d of a history raised %s" % (i, r)))
                break
            eff = eff_sections(r)
            flat += [kind, len(eff)]
            for (core, d), (sb, wb) in eff.items():
                flat += [core, d] + ([len(sb)] + list(sb) if sb is not None else [-1]) + [origin]
            st["hist_kinds"][kind] += 1
            if q.get("varied"):
                st["hist_varied"]["%s -> %s" % (q["varied"], {1: "miss", 2: "hit", 3: "hit, scales re-encoded"}[kind])] += 1
            a, b = request_fields(h[origin]), request_fields(q)
            diff = [k for k in a if a[k] != b[k]]
            keyf = [k for k in diff if k in KEY_FIELDS + SCALE_KEY_FIELDS]
            # oracle 1: what is returned equals a fresh (empty cache) encoding, byte for byte per (core, slice)
            if fr is not None and eff != eff_sections(fr):
                fe = eff_sections(fr)
                s_eq = [x[0] for x in eff.values()] == [x[0] for x in fe.values()] and list(eff) == list(fe)
                w_eq = [x[1] for x in eff.values()] == [x[1] for x in fe.values()] and list(eff) == list(fe)
                # which key wrongly said "equal": stale weights -> the weight key; stale scales in a full hit -> either key
                culprits = [k for k in diff if k in KEY_FIELDS] if not w_eq else []
                if not s_eq and kind == 2:
                    culprits += [k for k in diff if k in SCALE_KEY_FIELDS + KEY_FIELDS and k not in culprits]
                rec = dict(history=h, request=i, origin=origin, differing_inputs=diff, response_kind=kind,
                           scale_sections_equal=s_eq, weight_sections_equal=w_eq,
                           stale_weight_bytes=[len(w) for _, w in eff.values()], fresh_weight_bytes=[len(w) for _, w in fe.values()])
                if culprits or not diff:
                    # a real key lost a component (or a hit differs although nothing differs): directly a failing input
                    field = (culprits or ["none"])[0]
                    add_bad(st, (dict(defect=cache_defect(field), field=field), rec,
                                 "cached encoding reused although %s differs: response %d (%s) is not what a fresh encoding returns" % (
                                     field, i, {1: "miss", 2: "hit", 3: "hit, scales re-encoded"}[kind])))
                else:
                    st["stale_fn"].setdefault([k for k in diff if k not in KEY_FIELDS + SCALE_KEY_FIELDS + ["bias_values"]][0]
                                              if [k for k in diff if k not in KEY_FIELDS + SCALE_KEY_FIELDS + ["bias_values"]] else diff[0], rec)
            elif sound:
                # oracle 2 (independent of the implementation): one record per channel with that channel's bias and scale, in
                # the tensor the scale registers will point at
                why = scale_oracle(q, q["offs"], r[1] if r[1] is not None else r[0], o["w"].quantization.scale_f32, o["b"].values)
                if why:
                    field = (keyf or diff or ["none"])[0]
                    add_bad(st, (dict(defect=cache_defect(field), field=field, oracle="records"),
                                 dict(history=h, request=i, origin=origin, differing_inputs=diff, reason=why),
                                 "response %d of a request history (%s): %s" % (i, {1: "miss", 2: "hit", 3: "hit, scales re-encoded"}[kind], why)))
                if kind != 1 or q.get("varied"):
                    st["nontrivial"].add(("hist", kind, q.get("varied"), q["kind"], HW[q["accel"]][0], q["per_channel"]))
        if ok and sound:
            margs.append(history_model_args(h, outs))
            meta.append((h, flat))
    if st["okx"] and margs:
        for (h, flat), out in zip(meta, models.run_parallel("cache_run", margs, exe_name=EXE)):
            st["model_cases"] += 1
            if out != flat:
                k = next((i for i, (a, b) in enumerate(zip(out, flat)) if a != b), min(len(out), len(flat)))
                st["model_diff"].append(dict(case=dict(history=h), why="cache history: model and implementation differ at flat position %d" % k,
                                             model=out[max(0, k - 6):k + 6], impl=flat[max(0, k - 6):k + 6]))


# ---------------------------------------------------------------------------------------------------------------------
# two-request histories (equal weight tensor, one differing input) replayed on the implementation, at function level and
# through the real compiler (vela.main on a generated model, in a fresh process):
#  * ifm_bitdepth, op_type_transpose_flip: in the key since repo commit 845322f -- regression probes, must be misses
#    (cache_reuse_old_key_refuted is the statement about the old key); VIOLATION with the old keys if the defect returns
#  * accelerator_ncores, accelerator_ublock: still omitted (key_omits, cache_reuse_refuted): stale at function level, but a
#    compilation has one architecture and compiler_driver clears the caches per compilation, so not reachable: evidence only
def witness_history(field):
    base = dict(kind="conv", accel="ethos-u55-128", wshape=[3, 3, 16, 16], ifm_dtype="int8", wdtype="int8", per_channel=False, wzp=0, wzp_np=False,
                bias_dtype="int32", bd=16, nbias=16, wseed=3, bseed=4, sseed=5, wmode="rand", bmode="rand", ifm_scale=0.05, ofm_scale=0.1,
                dil=[1, 1], away=False, style="full", offs=[0, 16], widx=0, bidx=0)
    if field in ("ofm_scale", "ifm_scale"):  # weights AND bias shared (clones), one scale differs
        return [base, dict(base, **{field: base[field] * 2})]
    if field == "scale_value_id":  # weights shared, another bias tensor with other values
        return [base, dict(base, bidx=1, bseed=6)]
    other = dict(base, bseed=6, bidx=1)
    if field == "ifm_bitdepth":
        other["ifm_dtype"] = "int16"
    elif field == "op_type_transpose_flip":
        other["kind"] = "tconv"
    elif field == "accelerator_ncores":
        other["accel"] = "ethos-u65-512"
    elif field == "accelerator_ublock":
        other["accel"] = "ethos-u55-32"
    return [base, other]


WITNESS_FIELDS = ["ifm_bitdepth", "op_type_transpose_flip", "ofm_scale", "ifm_scale", "scale_value_id", "accelerator_ncores", "accelerator_ublock"]
# how each omitted input is reached through the real compiler (None: no route found -- not reported)
PIPELINE_ROUTE = {
    "ifm_bitdepth": "one model in which an int8 CONV_2D and an int16 CONV_2D share the weight tensor (the reader clones it, value_id kept)",
    "op_type_transpose_flip": "one model in which a CONV_2D and a TRANSPOSE_CONV share the weight tensor",
    "accelerator_ncores": "two vela.main() calls in one process (ethos-u55-128, then ethos-u65-512) on a model with MEAN, whose depthwise "
                          "weights get a value-derived value_id (create_equivalence_id is an lru_cache) -- reachable only while "
                          "compiler_driver does not clear the process-wide caches between compilations (it does since cea8897); probed every run",
    "accelerator_ublock": None,
    "ofm_scale": "one model in which two CONV_2D share the weight AND the bias tensor (the reader's per-operator clones keep value_id); "
                 "equal input scales, different output scales",
    "ifm_scale": "one model in which two CONV_2D share the weight and the bias tensor; equal output scales, different input scales",
    "scale_value_id": None,
}


def witness_function_level(st):
    out = {}
    for f in WITNESS_FIELDS:
        h = witness_history(f)
        res = run_history(h)
        st["evals"] += len(h)
        status, kind, origin, r, fr = res[1][:5]
        stale = status == "ok" and kind != 1 and fr is not None and eff_sections(r) != eff_sections(fr)
        out[f] = dict(history=h, second_request_kind={1: "miss", 2: "hit", 3: "hit, scales re-encoded", 0: "error"}[kind],
                      stale_differs_from_fresh=bool(stale),
                      returned_weight_bytes=[len(w) for _, w in eff_sections(r).values()] if status == "ok" else None,
                      fresh_weight_bytes=[len(w) for _, w in eff_sections(fr).values()] if fr is not None else None)
    return out


def pipeline_scenarios():
    return {"ifm_bitdepth": ["shared8_16", ["ethos-u55-128"]], "op_type_transpose_flip": ["conv_tconv", ["ethos-u55-128"]],
            "accelerator_ncores": ["mean", ["ethos-u55-128", "ethos-u65-512"]], "ofm_scale": ["shared_wb_ofm", ["ethos-u55-128"]],
            "ifm_scale": ["shared_wb_ifm", ["ethos-u55-128"]]}


def pipeline_main(scn, accels, out_dir):
    """runs in a fresh process: compiles the scenario's network with the real driver, observing every call of
    encode_weight_and_scale_tensor (hit? equal to a fresh encoding?) and whether a stale tensor reaches a command stream"""
    sys.path.insert(0, os.path.join(vlib.ROOT, "tools"))
    import numpy as np
    import netgen
    from netgen import Net, PADDING
    from ethosu.vela import vela, weight_compressor as wc, high_level_command_to_npu_op as h2n, high_level_command_stream as hlcs
    from ethosu.vela.weight_compressor import CompressedWeightCache
    o = dict(Padding=PADDING["SAME"], StrideW=1, StrideH=1, DilationWFactor=1, DilationHFactor=1, FusedActivationFunction=0)
    net = Net(scn)
    c = oc = 16
    if scn in ("shared8_16", "conv_tconv"):
        wt = net.tensor([oc, 3, 3, c], "int8", 0.01, 0, np.random.RandomState(3).randint(-127, 128, [oc, 3, 3, c]))
        x1 = net.input([1, 8, 8, c], "int8", 0.05, 0)
        b1 = net.tensor([oc], "int32", 0.0005, 0, np.arange(oc) * 7 - 20)
        y1 = net.tensor([1, 8, 8, oc], "int8", 0.1, 0)
        net.op("CONV_2D", [x1, wt, b1], [y1], o)
        if scn == "shared8_16":
            x2 = net.input([1, 8, 8, c], "int16", 0.05, 0)
            b2 = net.tensor([oc], "int64", 0.0005, 0, np.arange(oc) * 7 - 20)
            y2 = net.tensor([1, 8, 8, oc], "int16", 0.1, 0)
            net.op("CONV_2D", [x2, wt, b2], [y2], o)
        else:
            x2 = net.input([1, 8, 8, c], "int8", 0.05, 0)
            b2 = net.tensor([oc], "int32", 0.0005, 0, np.arange(oc) * 5 - 20)
            y2 = net.tensor([1, 16, 16, oc], "int8", 0.1, 0)
            ot = net.tensor([4], "int32", None, None, [1, 16, 16, oc])
            net.op("TRANSPOSE_CONV", [ot, wt, x2, b2], [y2], dict(Padding=PADDING["SAME"], StrideW=2, StrideH=2), version=3)
        net.output(y1, y2)
    elif scn in ("shared_wb_ofm", "shared_wb_ifm"):
        # two convolutions on the SAME constant weight and bias tensors, differing in the output scale only / the input scale only
        wt = net.tensor([oc, 3, 3, c], "int8", 0.01, 0, np.random.RandomState(3).randint(-127, 128, [oc, 3, 3, c]))
        b1 = net.tensor([oc], "int32", 0.0005, 0, np.arange(oc) * 7 - 20)
        ys = []
        for si, so in ((0.05, 0.1), (0.05, 0.2) if scn == "shared_wb_ofm" else (0.025, 0.1)):
            x = net.input([1, 8, 8, c], "int8", si, 0)
            y = net.tensor([1, 8, 8, oc], "int8", so, 0)
            net.op("CONV_2D", [x, wt, b1], [y], o)
            ys.append(y)
        net.output(*ys)
    else:
        x1 = net.input([1, 8, 8, 16], "int8", 0.05, 0)
        net.output(netgen.mean(net, random.Random(1), x1))
    path = os.path.join(out_dir, scn + ".tflite")
    open(path, "wb").write(net.build())
    orig = wc.encode_weight_and_scale_tensor
    events, stale_for, state, returned = [], {}, dict(compile=0), {}

    def sections(t):
        return [bytes(t.buffer[v.offset + v.weight_offset: v.offset + v.weight_offset + v.weight_bytes]) for v in t.encoded_ranges.values()]

    def wrapped(arch, op, wt_, st_, kernel, bc, offs):
        r = orig(arch, op, wt_, st_, kernel, bc, offs)
        hit = id(r[0]) in returned  # a tensor handed out before: taken from the cache (whatever the key is made of)
        returned[id(r[0])] = r[0]
        ev = dict(compile=state["compile"], op=op.name, op_type=str(op.type), ifm_bits=op.inputs[0].dtype.size_in_bits(), ncores=int(arch.ncores),
                  ifm_scale=float(op.inputs[0].quantization.scale_f32) if op.inputs[0].quantization is not None else None,
                  ofm_scale=float(op.outputs[0].quantization.scale_f32) if op.outputs[0].quantization is not None else None,
                  accelerator=arch.accelerator_config.value, weights_shape=[int(x) for x in wt_.values.shape], hit=bool(hit))
        if hit:
            saved = dict(CompressedWeightCache.cache)
            CompressedWeightCache.cache.clear()
            f = orig(arch, op, wt_, st_, kernel, bc, offs)
            CompressedWeightCache.cache.clear()
            CompressedWeightCache.cache.update(saved)
            ev.update(stale=sections(r[0]) != sections(f[0]) or list(r[0].encoded_ranges) != list(f[0].encoded_ranges)
                      or eff_sections(r) != eff_sections(f),
                      stale_scales=[x[0] for x in eff_sections(r).values()] != [x[0] for x in eff_sections(f).values()],
                      returned_scale_tensor=r[1] is not None, fresh_scale_tensor=f[1] is not None,
                      returned_sections=[len(x) for x in sections(r[0])], fresh_sections=[len(x) for x in sections(f[0])],
                      returned_traversal=r[0].hw_traversal.name, fresh_traversal=f[0].hw_traversal.name)
            if ev["stale"]:
                stale_for[(id(r[0]), op.name)] = r[0]
        events.append(ev)
        return r

    orig_gen = h2n.generate_command_stream
    used = []

    def gen(npu_op_list, arch, verbose, mem_limits, add_to_debug_db=None, npu_op_to_cmd=None):
        for op in npu_op_list:
            cmd = (npu_op_to_cmd or {}).get(op)
            if isinstance(cmd, hlcs.NpuStripe) and cmd.weight_tensor is not None:
                w = cmd.weight_tensor
                w = w.src_tensor if getattr(w, "src_tensor", None) is not None else w
                if (id(w), cmd.ps.primary_op.name) in stale_for:
                    used.append(dict(compile=state["compile"], op=cmd.ps.primary_op.name, op_type=str(cmd.ps.primary_op.type),
                                     n_weight_ranges=len(getattr(op, "weights", []) or []), ncores=int(arch.ncores)))
        return orig_gen(npu_op_list, arch, verbose, mem_limits, add_to_debug_db, npu_op_to_cmd)

    wc.encode_weight_and_scale_tensor = wrapped
    h2n.generate_command_stream = gen
    rcs = []
    import contextlib
    import io
    for acc in accels:
        buf = io.StringIO()
        try:
            with contextlib.redirect_stdout(buf), contextlib.redirect_stderr(buf):
                rcs.append(vela.main([path, "--output-dir", os.path.join(out_dir, "o%d" % state["compile"]), "--accelerator-config", acc]))
        except BaseException as ex:  # noqa
            rcs.append("%s: %s" % (type(ex).__name__, ex))
        state["compile"] += 1
    print(json.dumps(dict(scenario=scn, accelerators=accels, exit_codes=rcs, events=events, stale_tensor_in_command_stream=used)))


def pipeline_level(st):
    """{field: result} of the compiler-level replays (three fresh processes, in parallel)"""
    import concurrent.futures
    out_dir = os.path.join(vlib.BUILD, "c08_pipeline")
    os.makedirs(out_dir, exist_ok=True)

    def one(item):
        field, (scn, accels) = item
        try:
            p = subprocess.run([vlib.PY, os.path.abspath(__file__), "--pipeline", scn, ",".join(accels), os.path.join(out_dir, scn)],
                               env=vlib.py_env(), capture_output=True, text=True, timeout=300)
            line = [ln for ln in p.stdout.split("\n") if ln.startswith("{")]
            return field, (json.loads(line[-1]) if line else dict(error=(p.stderr or p.stdout)[-1500:]))
        except Exception as ex:
            return field, dict(error=repr(ex))
    with concurrent.futures.ThreadPoolExecutor(max_workers=5) as ex:
        res = dict(ex.map(one, pipeline_scenarios().items()))
    st["evals"] += sum(len(r.get("events", [])) for r in res.values())
    return res


# ---------------------------------------------------------------------------------------------------------------------
# D2: weight / scale register ranges and weight DMAs of real compilations vs the captured (core, slice) ranges
def c08_corpus_jobs():
    """networks kept from findings of this check (built here, compiled through the shared cached runner)"""
    import numpy as np
    sys.path.insert(0, os.path.join(vlib.ROOT, "tools"))
    from netgen import Net, PADDING
    import hashlib
    out_dir = os.path.join(vlib.BUILD, "c08_pipeline")
    os.makedirs(out_dir, exist_ok=True)
    # one 3x3 convolution 32 -> 112 channels whose odd groups of 16 output channels compress badly and whose even groups
    # are zero: with a single weight buffer the odd depth slices are larger than double_buffer_sizes[0]
    ic, oc, k, hw = 32, 112, 3, 12
    net = Net("c08_single_buffer")
    x = net.input([1, hw, hw, ic], "int8", 0.05, 0)
    wd = np.random.RandomState(1).randint(-127, 128, [oc, k, k, ic])
    for ch in range(oc):
        if (ch // 16) % 2 == 0:
            wd[ch] = 0
    wt = net.tensor([oc, k, k, ic], "int8", 0.01, 0, wd)
    b = net.tensor([oc], "int32", 0.0005, 0, np.arange(oc))
    y = net.tensor([1, hw, hw, oc], "int8", 0.1, 0)
    net.op("CONV_2D", [x, wt, b], [y], dict(Padding=PADDING["SAME"], StrideW=1, StrideH=1, DilationWFactor=1, DilationHFactor=1,
                                            FusedActivationFunction=0))
    net.output(y)
    data = net.build()
    path = os.path.join(out_dir, "c08_single_buffer.tflite")
    if not os.path.exists(path) or open(path, "rb").read() != bytes(data):
        open(path, "wb").write(data)
    sha = hashlib.sha256(bytes(data)).hexdigest()[:16]
    return [{"tflite": path, "sha": sha, "family": "c08corpus", "seed": "c08_single_buffer", "capture": True,
             "args": ["--accelerator-config", "ethos-u55-128", "--arena-cache-size", "25600"]}]


def d2_level(tier, st):
    import artefacts
    import compiles
    from ethosu import mlw_codec
    n = 64 if tier == "quick" else 1600
    # weight-sharing (siamese) networks beyond the few of the shared plan: the cache-reuse clause needs operators that share constants
    rngs = random.Random("c08/siamese/%s" % vlib.seed())
    siamese = [{"family": "siamese", "seed": "c08s-%s-%d" % (vlib.seed(), i), "args": compiles.config_args(rngs), "capture": True}
               for i in range(12 if tier == "quick" else 300)]
    jobs = c08_corpus_jobs() + compiles.corpus_jobs() + siamese + compiles.plan(FAMS, n, vlib.seed(), tag="d2", capture=True)
    results = compiles.run_all(jobs, timeout=900)
    cw_args, cw_meta, dma_args, dma_meta = [], [], [], []
    d2 = dict(compilations=0, conv_like_ops=0, weight_dmas=0, scale_records=0, weight_sections_decoded=0, buffered_ops=0, two_core_ops=0,
              separate_scale_tensor_ops=0, single_weight_buffers=0, single_weight_buffers_multi_slice=0, single_buffer_size_is_model=0,
              double_weight_buffers=0, double_buffer_sizes_are_model=0, siamese_compilations=0, encode_calls=0, encode_calls_from_cache=0,
              cache_answers_compared_with_fresh=0, cache_answers_with_separate_scale_tensor=0, encode_calls_capture_errors=0)
    bad = None
    buf_rows = []
    for r in results:
        if r["status"] != "ok":
            continue
        art = artefacts.load(r)
        if not art or not art["capture"]:
            continue
        d2["compilations"] += 1
        d2["siamese_compilations"] += r["job"].get("family") == "siamese" or "siamese" in str(r["job"].get("tflite"))
        # the cache-reuse clause on this compilation: every encode_weight_and_scale_tensor call that was answered from the cache
        # (observed by tools/wrap.py) against a fresh encoding of the same call from an emptied cache, per (core, depth) range
        for wi, rec in enumerate(art["capture"].get("weights", [])):
            if "error" in rec and "op" not in rec:
                d2["encode_calls_capture_errors"] += 1
                continue
            st["evals"] += 1
            d2["encode_calls"] += 1
            d2["encode_calls_from_cache"] += bool(rec.get("hit"))
            if not rec.get("compared"):
                continue
            d2["cache_answers_compared_with_fresh"] += 1
            d2["cache_answers_with_separate_scale_tensor"] += bool(rec.get("scale_tensor_returned"))
            part = ("fresh_raises" if rec.get("fresh_error") else "ranges" if not rec.get("keys_equal") else
                    "weights" if not rec.get("weights_equal") else "scales" if not rec.get("scales_equal") else None)
            st["nontrivial"].add(("d2cache", rec.get("op_type"), rec.get("ncores"), bool(rec.get("scale_tensor_returned")), len(rec.get("depth_offsets", []))))
            if part:
                add_bad(st, (dict(defect="cached_encoding_differs_from_fresh", part=part),
                             dict(net=r.get("net_name"), seed=r["job"]["seed"], args=r["job"]["args"], model=r["job"].get("tflite") or r["job"].get("family"),
                                  call=rec, call_index=wi,
                                  replay_cmd="cd /verif && /venv/bin/python tools/vela_worker.py %s/job.json  # then capture.json, weights[%d]" % (
                                      r["job"]["out_dir"], wi)),
                             "compiled model %s (%s): encode_weight_and_scale_tensor answered operator %s (%s, weights %s) from the cache with an "
                             "encoding whose %s differ from a fresh encoding (returned weight sections %s bytes, fresh %s)" % (
                                 r.get("net_name"), " ".join(r["job"]["args"][:2]), rec.get("op"), rec.get("op_type"), rec.get("weights_shape"), part,
                                 rec.get("returned_weight_bytes"), rec.get("fresh_weight_bytes") or rec.get("fresh_error"))))
        for k, stream in enumerate(art["capture"]["streams"]):
            match = [j for j, n2 in enumerate(art["npu"]) if n2["words"] == stream["words"]]
            flash = bytes(art["npu"][match[0]]["flash"]) if match and art["npu"][match[0]]["flash"] is not None else None
            nc = stream["ncores"]
            by_in = {}
            for op in stream["ops"]:
                cmd = op.get("cmd")
                if cmd and cmd.get("kind") == "dma" and cmd.get("encoded_ranges"):
                    e = by_in.setdefault(cmd["in"]["name"], dict(names=[], cmd=cmd))
                    if (cmd["out"]["name"], cmd["out"]["storage_size"]) not in e["names"]:
                        e["names"].append((cmd["out"]["name"], cmd["out"]["storage_size"]))
            for name, e in by_in.items():
                rs0 = e["cmd"]["encoded_ranges"]
                depths = sorted(set(rr[0][1] for rr in rs0))
                sizes = [sum(rr[3] + rr[4] for rr in rs0 if rr[0][1] == x) for x in depths]
                buf_rows.append((dict(net=r.get("net_name"), seed=r["job"]["seed"]), e["names"], e["cmd"]["in"]["storage_size"],
                                 max(sizes[0::2] or [0]), max(sizes[1::2] or [0]), sizes))
            for opi, op in enumerate(stream["ops"]):
                cmd = op.get("cmd")
                if not cmd:
                    continue
                where = dict(net=r.get("net_name"), seed=r["job"]["seed"], stream=k, op=opi)
                why = None
                if cmd.get("kind") == "stripe" and cmd.get("weight") and "weights" in op["api"]:
                    st["evals"] += 1
                    d2["conv_like_ops"] += 1
                    rs = [[rr[0][0], rr[0][1]] + rr[1:] for rr in cmd["encoded_ranges"]]
                    srs = [[rr[0][0], rr[0][1]] + rr[1:] for rr in cmd.get("scale_ranges", [])] if cmd.get("scale") else []
                    d, dn = cmd["weight_box"]["start"][-1], cmd["weight_box"]["end"][-1]
                    buffered = cmd["weight"]["name"] != cmd["weight_src"]["name"] or cmd["weight"].get("src_tensor") is not None
                    w_addr = cmd["weight"]["address"]
                    s_addr = cmd["scale"]["address"] if cmd.get("scale") else 0
                    d2["buffered_ops"] += buffered
                    d2["two_core_ops"] += nc == 2
                    d2["separate_scale_tensor_ops"] += bool(cmd.get("scale"))
                    ws = [(a["address"], a["length"]) for a in op["api"]["weights"]]
                    bs = [(a["address"], a["length"]) for a in op["api"]["biases"]]
                    cw_args.append([nc, d, 1 if buffered else 0, w_addr, 1 if cmd.get("scale") else 0, s_addr, len(rs)] + [x for rr in rs for x in rr]
                                   + [len(srs)] + [x for rr in srs for x in rr])
                    cw_meta.append((where, [1, len(ws)] + [x for p in ws for x in p] + [len(bs)] + [x for p in bs for x in p]))
                    mine = [rr for rr in rs if rr[1] == d]
                    if not mine or len(ws) != len(mine) or len(bs) != len(mine):
                        why = "%d weight / %d scale ranges, the captured tensor has %d (core, slice %d) ranges" % (len(ws), len(bs), len(mine), d)
                    else:
                        first = mine[0][2]
                        for (wa, wl), (ba, bl), rr in zip(ws, bs, mine):
                            rel = rr[2] - first if buffered else rr[2]
                            if wa % 16 or wl % 16 or ba % 16 or bl % 16:
                                why = "register range of core %d not 16-byte aligned: weights (%d, %d) scales (%d, %d)" % (rr[0], wa, wl, ba, bl)
                            elif (wa, wl) != (w_addr + rel + rr[4], rr[5]):
                                why = "weights of core %d at (%d, %d), the (core, slice) range gives (%d, %d)" % (rr[0], wa, wl, w_addr + rel + rr[4], rr[5])
                            elif not cmd.get("scale") and (ba, bl) != (w_addr + rel, rr[4]):
                                why = "scales of core %d at (%d, %d), the (core, slice) range gives (%d, %d)" % (rr[0], ba, bl, w_addr + rel, rr[4])
                            depths = sorted(set(x[1] for x in rs))  # slice ends: the next encoded slice start, the box end for the last
                            dend = depths[depths.index(d) + 1] if depths.index(d) + 1 < len(depths) else dn
                            nch = len(range(d + rr[0], dend, nc))
                            src = cmd["weight_src"]
                            sb = rr[3]
                            if cmd.get("scale"):
                                sr = [x for x in srs if x[0] == rr[0] and x[1] == d]
                                if not sr or (ba, bl) != (s_addr + sr[0][2], rup(sr[0][3], 16)):
                                    why = "scales of core %d at (%d, %d) are not the scale tensor's (core, slice) section" % (rr[0], ba, bl)
                                sb = sr[0][3] if sr else sb
                            if why is None and sb != 10 * nch:
                                why = "scale section of core %d slice [%d, %d) has %d bytes for %d channels" % (rr[0], d, dend, sb, nch)
                            # bytes in the output file
                            if why is None and flash is not None and src["mem_type"] == "Permanent_NPU":
                                off = src["address"] + rr[2]
                                if off + rr[4] + rr[5] > len(flash):
                                    why = "range of core %d ends at %d, the flash tensor has %d bytes" % (rr[0], off + rr[4] + rr[5], len(flash))
                                else:
                                    if not cmd.get("scale"):
                                        for j in range(rr[3] // 10):
                                            d2["scale_records"] += 1
                                            if flash[off + 10 * j + 9] >> 6:
                                                why = "scale record %d of core %d has non-zero top bits in the output file" % (j, rr[0])
                                    if rr[5] and opi % 7 == 0:
                                        dec = mlw_codec.decode(bytearray(flash[off + rr[4]: off + rr[4] + rr[5]]))
                                        d2["weight_sections_decoded"] += 1
                                        if len(dec) == 0 and nch:
                                            why = "weight section of core %d decodes to nothing" % rr[0]
                    st["nontrivial"].add(("d2", nc, buffered, bool(cmd.get("scale")), len(rs) > nc))
                elif cmd.get("kind") == "dma" and cmd.get("encoded_ranges"):
                    st["evals"] += 1
                    d2["weight_dmas"] += 1
                    rs = [[rr[0][0], rr[0][1]] + rr[1:] for rr in cmd["encoded_ranges"]]
                    d = cmd["box"]["start"][-1]
                    src, dst = op["api"]["src"], op["api"]["dest"]
                    dma_args.append([nc, d, cmd["in"]["address"], len(rs)] + [x for rr in rs for x in rr])
                    dma_meta.append((where, [1, src["address"], src["length"]]))
                    mine = [rr for rr in rs if rr[1] == d]
                    size = sum(rr[4] + rr[5] for rr in mine)
                    if not mine or (src["address"], src["length"]) != (cmd["in"]["address"] + mine[0][2], size):
                        why = "weight DMA reads (%d, %d), slice %d of the tensor is (%d, %d)" % (src["address"], src["length"], d,
                                                                                                 cmd["in"]["address"] + (mine[0][2] if mine else 0), size)
                    elif dst["length"] > cmd["out"]["storage_size"]:
                        # its own key: the buffer tensor is smaller than a slice that occupies it
                        slices = sorted(set(rr[1] for rr in rs))
                        add_bad(st, (dict(defect="weight_buffer_smaller_than_slice", slice_parity=slices.index(d) % 2,
                                          buffers=len(set(o2["cmd"]["out"]["name"] for o2 in stream["ops"]
                                                          if o2.get("cmd") and o2["cmd"].get("kind") == "dma" and o2["cmd"].get("encoded_ranges")
                                                          and o2["cmd"]["in"]["name"] == cmd["in"]["name"]))),
                                     dict(where, args=r["job"]["args"], model=r["job"].get("tflite") or r["job"].get("family"),
                                          slice_start=d, slice_index=slices.index(d), dma_bytes=dst["length"],
                                          buffer_tensor=cmd["out"]["name"], buffer_bytes=cmd["out"]["storage_size"],
                                          slice_sizes={str(x): sum(rr[4] + rr[5] for rr in rs if rr[1] == x) for x in slices},
                                          replay_cmd="cd /verif && /venv/bin/python tools/vela_worker.py %s/job.json" % r["job"]["out_dir"]),
                                     "compiled model %s (%s): the weight DMA of depth slice %d (index %d) writes %d bytes into the weight buffer "
                                     "tensor %s of %d bytes -- a single buffer is sized double_buffer_sizes[0], which bounds even slices only" % (
                                         r.get("net_name"), " ".join(r["job"]["args"]), d, slices.index(d), dst["length"], cmd["out"]["name"],
                                         cmd["out"]["storage_size"])))
                    elif src["address"] % 16 or src["length"] % 16 or dst["address"] % 16:
                        why = "weight DMA range not 16-byte aligned"
                if why and bad is None:
                    bad = (where, why, r)
    # the weight buffers of the compiled models: a single buffer holds every slice, buffer k of a double buffer the slices
    # of parity k; their sizes against the model (single_buffer_size / double_buffer_sizes recomputed from the ranges)
    if st["okx"] and buf_rows:
        outs = models.run("buffer_sizes", [[blen, db0, db1] for _, _, blen, db0, db1, _ in buf_rows], exe_name=EXE)
        for (where, names, blen, db0, db1, sizes), (mx, single) in zip(buf_rows, outs):
            st["model_cases"] += 1
            if len(names) == 1:
                d2["single_weight_buffers"] += 1
                d2["single_weight_buffers_multi_slice"] += len(sizes) > 1
                d2["single_buffer_size_is_model"] += names[0][1] == single
            else:
                d2["double_weight_buffers"] += 1
                d2["double_buffer_sizes_are_model"] += [x[1] for x in names] == [db0, db1]
    if st["okx"]:
        if cw_args:
            for (where, got), out in zip(cw_meta, models.run_parallel("create_weights", cw_args, exe_name=EXE)):
                st["model_cases"] += 1
                if out != got and bad is None:
                    bad = (where, "create_weights on the captured ranges: proved model gives %r, registers hold %r" % (out[:10], got[:10]), None)
        if dma_args:
            for (where, got), out in zip(dma_meta, models.run_parallel("create_dma", dma_args, exe_name=EXE)):
                st["model_cases"] += 1
                if out != got and bad is None:
                    bad = (where, "create_dma_op on the captured ranges: proved model gives %r, the DMA is %r" % (out, got), None)
    st["d2"] = d2
    if bad:
        where, why, r = bad
        add_bad(st, (dict(where, oracle="compiled"), dict(where, reason=why, args=r["job"]["args"] if r else None,
                                                                replay_cmd=("cd /verif && /venv/bin/python tools/vela_worker.py %s/job.json" % r["job"]["out_dir"]) if r else None),
                     "compiled model %s: %s" % (where["net"], why)))


def run(tier):
    import collections
    res = vlib.Result("C08", tier, "proof")
    t0 = time.time()
    b = vlib.build_property("C08")
    vlib.proof_coverage(res, b, [
        "extraction (ExtrOcamlBasic only) + ocaml/driver.ml for the correspondence runs",
        "the weight codec (encode_weights -> mlw_codec.reorder_encode) is NOT modelled: universally quantified `enc`/`codec` in the theorems "
        "(used only through: length multiple of 16, the fact C07 observes); its bytes are judged per input by the reference decoder",
        "hand model coq/model/WLayout.v of encode_weight_and_scale_tensor / create_weights / create_dma_op / CompressedWeightCache with the "
        "seven-field key / the scheduler's single-buffer size (tied by correspondence, not by translation); hash(str(depth_offsets)) modelled as injective; floats of the scale key as bit patterns",
        "quantise_scale / reduced_quantise_scale are inputs of the model (C09's subject); the oracle recomputes them exactly"])
    okx, xlog = vlib.build_extraction(EXE)
    rng = random.Random(vlib.seed())
    st = dict(evals=0, dist=collections.Counter(), model_diff=[], valid=0, nontrivial=set(), bad=[], samples=[], okx=okx, model_cases=0,
              hist_kinds=collections.Counter(), hist_varied=collections.Counter(), stale_fn={}, d2={})
    timing = {}
    crashed = None
    for name, fn in (("function_level", lambda: function_level(rng, tier, st)), ("bias_level", lambda: bias_level(rng, tier, st)),
                     ("addr_level", lambda: addr_level(rng, tier, st)), ("history_level", lambda: history_level(rng, tier, st)),
                     ("d2_level", lambda: d2_level(tier, st))):
        t1 = time.time()
        try:
            fn()
        except Exception as ex:  # a harness part that cannot run is a broken correspondence, never silence
            import traceback
            crashed = crashed or (name, traceback.format_exc()[-1500:])
        timing[name] = round(time.time() - t1, 1)
    # the refuting histories on the implementation
    t1 = time.time()
    try:
        wit = witness_function_level(st)
        pipe = pipeline_level(st)
    except Exception as ex:
        import traceback
        wit, pipe = {}, {}
        crashed = crashed or ("witness", traceback.format_exc()[-1500:])
    timing["witness"] = round(time.time() - t1, 1)
    confirmed = []
    for f in WITNESS_FIELDS:
        w = wit.get(f, {})
        p = pipe.get(f)
        reach = None
        if p and not p.get("error"):
            stale_events = [e for e in p["events"] if e.get("stale")]
            if stale_events and p["stale_tensor_in_command_stream"]:
                reach = dict(route=PIPELINE_ROUTE[f], exit_codes=p["exit_codes"], first_stale_call=stale_events[0],
                             stale_tensor_in_command_stream=p["stale_tensor_in_command_stream"][:3])
        w["compiler_level"] = reach or (dict(not_reached=p.get("error") or "no stale tensor reached a command stream") if p else
                                        dict(not_reached="no route through the compiler known: not reported"))
        if w.get("stale_differs_from_fresh") and reach:
            confirmed.append(f)
        if p and p.get("error"):
            res.notes.append("compiler-level replay for %s could not run: %s" % (f, p["error"][-300:]))
    # the [0, 3, 8] two-core witness of scales_odd_slice_refuted on the implementation (a hypothesis, not a violation:
    # every slice list the scheduler builds has interior boundaries that are multiples of 16 or of the block depth)
    odd_impl = None
    try:
        clear_cache()
        oc = build(CORPUS[0])
        s_, r_ = call_real(oc, CORPUS[0]["offs"])
        if s_ == "ok":
            rr = ranges_of(r_[0])[1]  # (core 1, slice [0, 3))
            got = [parse_record(r_[0].buffer[rr[2] + 10 * j: rr[2] + 10 * j + 10])[0] for j in range(rr[3] // 10)]
            bv = [int(x) for x in oc["b"].values]
            odd_impl = dict(core=rr[0], slice=[0, 3], scale_bytes=rr[3], record_biases=got, biases_of_channels_1_and_3=[bv[1], bv[3]],
                            confirmed=got == [bv[1], bv[3]])
        clear_cache()
    except Exception as ex:
        odd_impl = dict(error=repr(ex))
    odd = None
    if okx:
        o = models.run("channels", [[2, 8, 16, 8, 3, 0, 3, 8]], exe_name=EXE)[0]
        odd = o
    res.cov.update({
        "evaluations": st["evals"], "distinct_nontrivial": len(st["nontrivial"]),
        "rule": "evaluations = real calls judged (encode_weight_and_scale_tensor requests incl. cache histories, encode_bias, create_weights / "
                "create_dma_op per slice, conv-like operations and weight DMAs of compiled models, encode calls inside the replay compilations); "
                "non-trivial = distinct (operator kind, IFM type, cores, slices, per-channel, block-depth / depth / dilation class) of well-formed "
                "requests that passed all three oracles, plus distinct classes of the other parts",
        "requests": {"well_formed_with_oracles": st["valid"], "by_kind_ifm_cores_slicing": dict(sorted(st["dist"].items()))},
        "model_vs_impl_cases": st["model_cases"], "model_vs_impl_differences": len(st["model_diff"]),
        "history_responses": {"miss": st["hist_kinds"][1], "hit": st["hist_kinds"][2], "hit_scales_reencoded": st["hist_kinds"][3]},
        "history_one_component_varied -> response (each judged byte for byte against a fresh encoding and by the record oracle)":
            dict(sorted(st["hist_varied"].items())),
        "compiled": st["d2"], "samples": st["samples"], "timing_s": timing,
        "odd_slice_witness_on_model [core d len | code channels | spec channels]*": odd,
        "odd_slice_witness_on_implementation": odd_impl,
        "two_request_histories_replayed (ifm_bitdepth / flip: regression probes; accelerator: cache_reuse_refuted at function level)": wit,
        "function_level_only_stale_fields (random histories)": sorted(st["stale_fn"]),
    })
    res.assumptions += ["the weight codec returns a multiple of 16 bytes (observed on every call here; C07)",
                        "every interior slice boundary is a multiple of the core count (all scheduler-built lists: multiples of 16 / of the block depth)",
                        "hash(str(depth_offsets)) is collision-free; value_id identifies the weight values (Vela's own invariant)",
                        "the set of compilations is sampled"]
    if crashed:
        res.notes.append("part %s raised: %s" % crashed)

    for k, d, w in st["bad"]:
        res.violation(k, d, w)
    for f in confirmed:
        w = wit[f]
        res.violation({"defect": cache_defect(f), "field": f},
                      dict(theorem="cache_reuse_old_key_refuted / key_contains / key_omits (coq/props/C08.v)", function_level=w, how_reached=PIPELINE_ROUTE[f],
                           replay_cmd="cd /verif && /venv/bin/python tools/checks/c08.py --pipeline %s %s build/c08_pipeline/%s" % (
                               pipeline_scenarios()[f][0], ",".join(pipeline_scenarios()[f][1]), pipeline_scenarios()[f][0])),
                      "CompressedWeightCache reuses an encoding although %s differs (the key that decides the reuse omits it): %s; the stale tensor reaches the command stream "
                      "(returned sections %s bytes, a fresh encoding %s)" % (
                          f, PIPELINE_ROUTE[f], w["compiler_level"]["first_stale_call"].get("returned_sections"),
                          w["compiler_level"]["first_stale_call"].get("fresh_sections")))
    if not st["bad"]:
        if not b["ok"]:
            vlib.report_broken_build(res, b, None)
        elif st["model_diff"] or not okx or crashed:
            d0 = st["model_diff"][0] if st["model_diff"] else {}
            res.violation({"correspondence": "wlayout", "why": (d0.get("why") or (crashed[0] if crashed else "extraction"))[:60]},
                          dict(first=d0, n_differences=len(st["model_diff"]), extraction_ok=okx, crashed=crashed, log=xlog[-600:] if not okx else None),
                          "correspondence WLayout model vs weight_compressor / high_level_command_to_npu_op no longer holds: %s" % (
                              d0.get("why") or (crashed[1][-300:] if crashed else "extraction build failed")), no_input=True)
    return res.finish()


if __name__ == "__main__":
    if len(sys.argv) >= 5 and sys.argv[1] == "--pipeline":
        sys.path.insert(0, vlib.REPO)
        os.makedirs(sys.argv[4], exist_ok=True)
        pipeline_main(sys.argv[2], sys.argv[3].split(","), sys.argv[4])
