"""C08 -- encoded weight and scale tensors cover each output channel exactly once.

Proof (coq/props/C08.v, model coq/model/WLayout.v) + ties:
  T  weight_compressor.encode_bias is re-translated from the source on every run (gen/GenWLayout.v, lemma gen_encode_bias_eq)
  H  correspondence of the extracted model (build/wLayout) with the real encode_weight_and_scale_tensor (ranges, sizes,
     buffer bytes; the codec oracle of the model is instantiated with the real weight sections), create_weights,
     create_dma_op, encode_bias and request histories through CompressedWeightCache
  oracle (independent Python statement of the property on the implementation's outputs): layout (16-byte alignment,
     disjoint, stream order, cover, double-buffer bound), one 10-byte record per channel with that channel's bias /
     multiplier / shift, every weight section decoded with the reference decoder mlw_codec.decode equals the
     zero-point-corrected, core-deinterleaved weights in hardware order (brick traversal written here), a cache hit
     equals a fresh encoding
  D2 on the shared compilation plan: every weight / scale register range and every weight DMA of every conv-like
     operation equals the (core, slice) range of the captured tensor (recomputed by the extracted create_weights /
     create_dma), is 16-byte aligned, lies in the flash tensor, and its scale section parses into 10-byte records.
"""
import json
import math
import os
import random
import subprocess
import sys
import time
from fractions import Fraction

import vlib
import models

EXE = "wLayout"
FAMS = ["conv_chain", "conv_chain_big", "single", "diamond", "mixed_cpu", "lut_heavy", "conv_chain_big", "single"]

# hardware facts written down independently of the tree: (cores, ofm micro-block depth, ifm micro-block depth)
HW = {"ethos-u55-32": (1, 4, 8), "ethos-u55-64": (1, 8, 8), "ethos-u55-128": (1, 8, 8), "ethos-u55-256": (1, 8, 8),
      "ethos-u65-256": (1, 8, 8), "ethos-u65-512": (2, 8, 8)}
SUBKERNEL_MAX = 8
KINDS = ["conv", "depthwise", "fc", "tconv"]


def rup(a, b):
    return -(-a // b) * b


# ---------------------------------------------------------------------------------------------------------------------
# independent side: hardware weight order, scale quantisation, record reader
def hw_order(vol, ifm_ub, ofm_ub, ofm_block_depth, depthwise, partkernel, bits, decomp_h, decomp_w):
    """vol: OHWI integer array -> weights in stream order (zeros where the traversal pads); the brick traversal of the
    weight stream: OFM block / IFM block / sub-kernel / (part-kernel: IFM ublock) / OFM ublock / kernel element /
    (depth-first: IFM ublock) / OFM ublock element / IFM ublock element"""
    od, kh, kw, idp = vol.shape
    out = []
    ifm_bd = 16 if (partkernel or bits == 16) else 32
    for obz in range(0, od, ofm_block_depth):
        cob = min(ofm_block_depth, od - obz)
        for ibz in range(0, 1 if depthwise else idp, ifm_bd):
            if depthwise:
                cib = ifm_ub
            else:
                cib = min(ifm_bd, idp - ibz) if partkernel else ifm_bd
            for sy in range(0, kh, decomp_h):
                sh = min(kh - sy, decomp_h)
                for sx in range(0, kw, decomp_w):
                    sw = min(kw - sx, decomp_w)
                    ne = sw * sh
                    if partkernel:
                        ne = rup(ne, 2 if bits == 16 else 4)
                    elif depthwise:
                        ne = rup(ne, 4)
                    outer = cib if partkernel else 1
                    inner = 1 if partkernel else cib
                    for uo in range(0, outer, ifm_ub):
                        for ou in range(0, cob, ofm_ub):
                            for el in range(ne):
                                kx, ky = el % sw, el // sw
                                for ui in range(0, inner, ifm_ub):
                                    for oz in range(ofm_ub):
                                        ofz = obz + ou + oz
                                        for iz in range(1 if depthwise else ifm_ub):
                                            ifz = ibz + ui + uo + iz
                                            if ifz < idp and ofz < od and ky < sh:
                                                out.append(int(vol[ofz, sy + ky, sx + kx, ifz]))
                                            else:
                                                out.append(0)
    return out


def q_scale(x):
    """documented quantisation of a positive double: significand rounded half away to 31 bits, shift = 31 - exponent;
    (0, 16) when the shift does not fit 6 bits"""
    x = float(x)
    m, e = math.frexp(x)
    f = Fraction(m) * (1 << 31)
    q = int(math.floor(f + Fraction(1, 2))) if f >= 0 else -int(math.floor(-f + Fraction(1, 2)))
    shift = 31 - e
    if not 0 <= shift < 64:
        return 0, 16
    return q, shift


def q_scale_reduced(x):
    q, s = q_scale(x)
    if not 0 <= s < 64:
        return 0, 16
    rq = ((q + (1 << 15)) >> 16) if q < (32767 << 16) else 32767
    return rq, s - 16


def parse_record(b):
    """10 bytes -> (bias, scale, shift, top two bits)"""
    u = int.from_bytes(bytes(b[0:5]), "little")
    bias = u - (1 << 40) if u >= (1 << 39) else u
    return bias, int.from_bytes(bytes(b[5:9]), "little"), b[9] & 63, b[9] >> 6


# ---------------------------------------------------------------------------------------------------------------------
# cases: plain JSON-able dicts -> real objects
def weight_values(c):
    import numpy as np
    rs = np.random.RandomState(c["wseed"])
    shape = tuple(c["wshape"])
    lo, hi = (0, 256) if c["wdtype"] == "uint8" else (-128, 128)
    mode = c.get("wmode", "rand")
    if mode == "rand":
        v = rs.randint(lo, hi, size=shape)
    elif mode == "sparse":
        v = rs.randint(lo, hi, size=shape) * (rs.rand(*shape) < 0.2)
        if c["wdtype"] == "uint8":
            v = v + (v == 0) * int(c["wzp"] if not isinstance(c["wzp"], list) else 0)
    elif mode == "small":
        v = rs.randint(-3, 4, size=shape) + (int(c["wzp"]) if c["wdtype"] == "uint8" and not isinstance(c["wzp"], list) else 0)
        v = np.clip(v, lo, hi - 1)
    else:  # extremes
        v = rs.choice([lo, hi - 1, 0 if lo < 0 else 128], size=shape)
    return v.astype(np.uint8 if c["wdtype"] == "uint8" else np.int8)


def bias_values(c):
    import numpy as np
    n = c["nbias"]
    rs = random.Random(c["bseed"])
    mode = c.get("bmode", "rand")
    out = []
    for i in range(n):
        if mode == "rand":
            out.append(rs.randrange(-(1 << 20), 1 << 20))
        elif mode == "wide":
            out.append(rs.choice([-(1 << 39), (1 << 39) - 1, rs.randrange(-(1 << 39), 1 << 39), 0, -1, 1]))
        elif mode == "i32":
            out.append(rs.choice([-(1 << 31), (1 << 31) - 1, rs.randrange(-(1 << 31), 1 << 31)]))
        else:  # "bad": some value outside the signed 40-bit range
            out.append(rs.choice([(1 << 39), -(1 << 39) - 1, 1 << 45]) if i == c.get("bad_at", 0) else rs.randrange(-1000, 1000))
    return np.array(out, dtype=np.int64)


def weight_scales(c):
    import numpy as np
    rs = random.Random(c["sseed"])
    n = c["wshape"][-1]
    if c["per_channel"]:
        return np.array([rs.uniform(0.0005, 0.08) for _ in range(n)], dtype=np.float32)
    return np.float32(rs.uniform(0.0005, 0.08))


def build(c, shared=None):
    """real objects for one request; shared: dict with optional 'weight' / 'bias' tensors to reuse (cache histories)"""
    import numpy as np
    from ethosu.vela import architecture_features as af
    from ethosu.vela.operation import Op, Operation, Kernel, ExplicitScaling, RoundingMode
    from ethosu.vela.tensor import Tensor, create_const_tensor, QuantizationParameters, TensorPurpose, TensorFormat, MemType
    from ethosu.vela.data_type import DataType
    from ethosu.vela.architecture_allocator import ArchitectureBlockConfig
    from ethosu.vela.architecture_features import Block
    DT = {"int8": DataType.int8, "uint8": DataType.uint8, "int16": DataType.int16, "int32": DataType.int32, "int64": DataType.int64}

    def qp(scale, zp):
        q = QuantizationParameters()
        q.scale_f32 = scale
        q.zero_point = zp
        return q

    arch = _arch(c["accel"])
    optype = {"conv": Op.Conv2DBias, "depthwise": Op.DepthwiseConv2DBias, "fc": Op.FullyConnected,
              "tconv": Op.Conv2DBackpropInputSwitchedBias}[c["kind"]]
    wshape = list(c["wshape"])
    n = wshape[-1]
    ifm = Tensor([1, 8, 8, wshape[-2]], DT[c["ifm_dtype"]], "ifm")
    ifm.quantization = qp(np.float32(c["ifm_scale"]), 0)
    ofm = Tensor([1, 8, 8, n], DT[c["ifm_dtype"]], "ofm")
    ofm.quantization = qp(np.float32(c["ofm_scale"]), 0)
    if c.get("away"):  # rounding away from zero exists only on convolutions that replace an average pool
        op = Operation(Op.AvgPool, "op")
        op.type = optype
    else:
        op = Operation(optype, "op")
    op.add_input_tensor(ifm)
    if shared and shared.get("weight") is not None:
        w = shared["weight"].clone("_reshape")  # what the reader does: value_id preserved
        w.purpose = TensorPurpose.Weights
    else:
        wzp = c["wzp"]
        if isinstance(wzp, list):
            wzp = np.array(wzp, dtype=np.int64)
        elif c.get("wzp_np"):
            wzp = np.int64(wzp)
        w = create_const_tensor("w", wshape, DT[c["wdtype"]], weight_values(c), quantization=qp(weight_scales(c), wzp))
        w.values = weight_values(c)
        w.purpose = TensorPurpose.Weights
        w.mem_type = MemType.Permanent_NPU
    op.add_input_tensor(w)
    if c["kind"] == "tconv":
        shp = create_const_tensor("oshape", [4], DataType.int32, [1, 8, 8, n])
        op.add_input_tensor(shp)
    if shared and shared.get("bias") is not None:
        b = shared["bias"]
        b.consumer_list.append(op)
        op.inputs.append(b)
    else:
        bv = bias_values(c)
        b = create_const_tensor("b", [len(bv)], DT[c["bias_dtype"]], bv, quantization=qp(np.float32(1), 0))
        b.values = bv
        b.purpose = TensorPurpose.FeatureMap
        b.format = TensorFormat.NHWC
        b.mem_type = MemType.Permanent_NPU
        op.add_input_tensor(b)
    op.set_output_tensor(ofm)
    if c.get("explicit"):
        op.explicit_scaling = ExplicitScaling(len(c["explicit"]) > 1, [s for _, s in c["explicit"]], [m for m, _ in c["explicit"]])
    if c.get("away"):
        op.rounding_mode = RoundingMode.AwayZero
    if c["kind"] == "fc":
        kernel = Kernel(1, 1)
    else:
        kernel = Kernel(wshape[1], wshape[0], 1, 1, c["dil"][0], c["dil"][1])
    bc = ArchitectureBlockConfig()
    bc.ofm_block = Block(8, 8, c["bd"])
    return dict(arch=arch, op=op, w=w, b=b, kernel=kernel, bc=bc)


_arch_cache = {}


def _arch(name):
    from ethosu.vela import architecture_features as af
    if name not in _arch_cache:
        _arch_cache[name] = af.create_default_arch(af.Accelerator(name))
    return _arch_cache[name]


def call_real(o, offs):
    from ethosu.vela import weight_compressor as wc
    try:
        r = wc.encode_weight_and_scale_tensor(o["arch"], o["op"], o["w"], o["b"], o["kernel"], o["bc"], list(offs))
        return "ok", r
    except (AssertionError, IndexError) as ex:
        return "err", type(ex).__name__
    except Exception as ex:  # anything else is not a modelled outcome
        return "other", "%s: %s" % (type(ex).__name__, ex)


def clear_cache():
    from ethosu.vela.weight_compressor import CompressedWeightCache
    CompressedWeightCache.cache.clear()


def fresh_real(o, offs):
    """what the function returns with an empty cache; the process-wide cache is restored afterwards"""
    from ethosu.vela.weight_compressor import CompressedWeightCache
    saved = dict(CompressedWeightCache.cache)
    CompressedWeightCache.cache.clear()
    try:
        return call_real(o, offs)
    finally:
        CompressedWeightCache.cache.clear()
        CompressedWeightCache.cache.update(saved)


def ranges_of(t):
    return [[int(k[0]), int(k[1]), int(v.offset), int(v.scale_bytes), int(v.weight_offset), int(v.weight_bytes), int(v.index)]
            for k, v in t.encoded_ranges.items()]


# ---------------------------------------------------------------------------------------------------------------------
# expected per-channel (bias, multiplier, shift): exact recomputation, independent of weight_compressor / scaling
def expected_raw_qscales(c, wscales):
    """the list before the AwayZero increment and before a single value is repeated"""
    import numpy as np
    if c.get("explicit"):
        return [(int(m), int(s)) for m, s in c["explicit"]]
    ifs, ofs = np.float32(c["ifm_scale"]), np.float32(c["ofm_scale"])
    ws = list(wscales) if hasattr(wscales, "__iter__") else [wscales]
    if c["ifm_dtype"] == "uint8" or c["kind"] == "fc":
        sc = [np.double(ifs * np.float32(w)) / np.double(ofs) for w in ws]
    else:
        sc = [(np.double(ifs) * np.double(np.float32(w))) / np.double(ofs) for w in ws]
    if c["ifm_dtype"] == "int16" and c["bias_dtype"] == "int64":
        return [q_scale_reduced(s) for s in sc]
    return [q_scale(s) for s in sc]


def expected_channel_records(c, wscales, biases):
    raw = expected_raw_qscales(c, wscales)
    if c.get("away"):
        raw = [(m + 1, s) for m, s in raw]
    if len(raw) == 1:
        raw = raw * len(biases)
    return [(int(b), m, s) for b, (m, s) in zip(biases, raw)], raw


def true_ratio(c, wscales, ch):
    import numpy as np
    ws = list(wscales) if hasattr(wscales, "__iter__") else [wscales]
    w = ws[ch] if len(ws) > 1 else ws[0]
    return Fraction(float(np.float32(c["ifm_scale"]))) * Fraction(float(np.float32(w))) / Fraction(float(np.float32(c["ofm_scale"])))


def is_valid_request(c, offs):
    """inputs on which the property's oracles apply: what every caller builds (strictly increasing closed slices
    from 0 to the OFM depth, interior boundaries multiples of the core count, block depth at least the core count)"""
    n = c["wshape"][-1]
    nc = HW[c["accel"]][0]
    if len(offs) < 2 or offs[0] != 0 or offs[-1] != n or c["nbias"] != n:
        return False
    if any(a >= b for a, b in zip(offs, offs[1:])):
        return False
    if any(x % nc for x in offs[1:-1]):
        return False
    return c["bd"] >= nc


# ---------------------------------------------------------------------------------------------------------------------
# property oracles on one returned tensor pair
def layout_oracle(c, offs, tw):
    """ranges of the weights tensor: 16-byte aligned, consecutive, disjoint, in stream order, cover the buffer; the
    double-buffer sizes bound every slice of their parity"""
    nc = HW[c["accel"]][0]
    n = c["wshape"][-1]
    rs = ranges_of(tw)
    want_keys = [(core, d) for d in offs[:-1] for core in range(min(nc, n))]
    if [(r[0], r[1]) for r in rs] != want_keys:
        return "keys %r are not the (core, slice) pairs in stream order %r" % ([(r[0], r[1]) for r in rs][:8], want_keys[:8])
    pos = 0
    for i, r in enumerate(rs):
        core, d, off, sb, wo, wb, idx = r
        if off % 16:
            return "range %r starts at %d, not 16-byte aligned" % ((core, d), off)
        if off != pos:
            return "range %r starts at %d, previous range ends at %d (gap or overlap)" % ((core, d), off, pos)
        if idx != i:
            return "range %r has index %d at position %d" % ((core, d), idx, i)
        if wo < sb or wo % 16 or wo - sb >= 16:
            return "weight section of %r at +%d does not follow the %d scale bytes at the next 16-byte boundary" % ((core, d), wo, sb)
        if wb % 16:
            return "weight section of %r has %d bytes, not a multiple of 16" % ((core, d), wb)
        pos = off + wo + wb
    if pos != len(tw.buffer):
        return "ranges end at %d, buffer has %d bytes" % (pos, len(tw.buffer))
    for i, d in enumerate(offs[:-1]):
        size = sum(r[4] + r[5] for r in rs if r[1] == d)
        if tw.double_buffer_sizes[i % 2] < size:
            return "slice %d needs %d bytes, double_buffer_sizes[%d] = %d" % (i, size, i % 2, tw.double_buffer_sizes[i % 2])
    return None


def scale_oracle(c, offs, ts, wscales, biases):
    """ts: the tensor holding the scale sections.  One 10-byte record per channel d+core, d+core+ncores, .. < d_next with
    that channel's bias and (multiplier, shift); every channel in exactly one section"""
    nc = HW[c["accel"]][0]
    n = c["wshape"][-1]
    recs, _ = expected_channel_records(c, wscales, biases)
    seen = [0] * n
    nxt = dict(zip(offs[:-1], offs[1:]))
    for r in ranges_of(ts):
        core, d, off, sb = r[0], r[1], r[2], r[3]
        chans = list(range(d + core, nxt[d], nc))
        if sb != 10 * len(chans):
            return "scale section of (core %d, slice %d) has %d bytes for %d channels %r" % (core, d, sb, len(chans), chans[:6])
        for j, ch in enumerate(chans):
            got = parse_record(ts.buffer[off + 10 * j: off + 10 * j + 10])
            seen[ch] += 1
            if got[3]:
                return "record of channel %d has non-zero top bits" % ch
            if got[:3] != recs[ch]:
                # exact recomputation differs: reject only what contradicts the property (this channel's bias, and a
                # multiplier/shift that represents this channel's scale)
                if got[0] != recs[ch][0]:
                    return "record %d of (core %d, slice %d) holds bias %d, channel %d has bias %d" % (j, core, d, got[0], ch, recs[ch][0])
                if c.get("explicit") or c.get("away"):
                    return "record of channel %d holds (multiplier, shift) %r, expected %r" % (ch, got[1:3], recs[ch][1:])
                ratio = true_ratio(c, wscales, ch)
                tol = Fraction(1, 1 << 12) if (c["ifm_dtype"] == "int16" and c["bias_dtype"] == "int64") else Fraction(1, 1 << 20)
                val = Fraction(got[1], 1 << got[2])
                if recs[ch][1:] != (0, 16) and abs(val - ratio) > tol * ratio:
                    return "record of channel %d holds multiplier %d >> %d = %.9g, the channel's scale is %.9g" % (
                        ch, got[1], got[2], float(val), float(ratio))
        pad = ts.buffer[off + sb: off + rup(sb, 16)]
        if any(pad):
            return "padding after the scale section of (core %d, slice %d) is not zero" % (core, d)
    if seen != [1] * n:
        bad = [i for i, s in enumerate(seen) if s != 1][:6]
        return "channels %r appear %r times in the scale sections" % (bad, [seen[i] for i in bad])
    return None


def weight_oracle(c, offs, tw, wvals):
    """every weight section decodes (reference decoder) to the zero-point-corrected weights of its channels in hardware order"""
    import numpy as np
    from ethosu import mlw_codec
    from ethosu.vela.api import NpuBlockTraversal
    nc, oub, iub = HW[c["accel"]]
    wzp = c["wzp"]
    v = wvals.astype(np.int64) - (np.array(wzp, dtype=np.int64) if isinstance(wzp, list) else int(wzp))
    if v.ndim == 2:
        v = v.reshape((1, 1) + v.shape)
    if c["kind"] == "tconv":
        v = v[::-1, ::-1, :, :]
    ohwi = np.transpose(v, (3, 0, 1, 2))
    bits = 16 if c["ifm_dtype"] == "int16" else 8
    pk = tw.hw_traversal == NpuBlockTraversal.PART_KERNEL_FIRST
    dw = c["kind"] == "depthwise"
    nxt = dict(zip(offs[:-1], offs[1:]))
    for r in ranges_of(tw):
        core, d, off, sb, wo, wb = r[:6]
        chans = list(range(d + core, nxt[d], nc))
        cbd = (c["bd"] + nc - 1 - core) // nc
        exp = hw_order(ohwi[chans], iub, oub, cbd, dw, pk, bits, SUBKERNEL_MAX // c["dil"][1], SUBKERNEL_MAX // c["dil"][0]) if chans else []
        # (the reference decoder terminates the process on an empty stream: an empty section decodes to nothing)
        dec = mlw_codec.decode(bytearray(tw.buffer[off + wo: off + wo + wb])) if wb else []
        if list(dec[:len(exp)]) != exp or any(dec[len(exp):]):
            k = next((i for i, (a, b) in enumerate(zip(dec, exp)) if a != b), min(len(dec), len(exp)))
            return "weight section of (core %d, slice %d) decodes to %d values, expected %d for channels %r; first difference at %d" % (
                core, d, len(dec), len(exp), chans[:6], k)
    return None


# ---------------------------------------------------------------------------------------------------------------------
# generators
ACCELS = list(HW)


def gen_slices(rng, n, nc, bd, style):
    if style == "full":
        return [0, n]
    if style == "sched":  # what propose_weight_buffering builds: 0, prebuffer, prebuffer + k * buffering, .., n
        pre = rng.choice([16, 32, 48])
        step = rng.choice([16, 32, bd if bd % 2 == 0 else 16])
        s = [0]
        if pre < n:
            s += list(range(pre, n, max(step, 1)))
        return s + [n]
    if style == "even":  # any boundaries that are multiples of the core count
        k = rng.randint(1, 5)
        cand = [x for x in range(nc, n, nc)]
        rng.shuffle(cand)
        return [0] + sorted(cand[:k]) + [n]
    if style == "odd":  # arbitrary strictly increasing boundaries
        k = rng.randint(1, 4)
        cand = list(range(1, n))
        rng.shuffle(cand)
        return [0] + sorted(cand[:k]) + [n]
    # malformed: not closed at n / not starting at 0 / not increasing / single element / beyond n
    return rng.choice([[0], [], [0, n + rng.randint(1, 5)], [0, max(1, n - 1)], [rng.randint(1, max(1, n - 1)), n], [0, n, n],
                       [0, n // 2 + 1, n // 2, n], [n, n + 1], [-1, n], [0, n // 2, n // 2, n]])


def gen_case(rng, kind=None, big=False):
    kind = kind or rng.choice(["conv", "conv", "depthwise", "fc", "tconv"])
    accel = rng.choice(ACCELS + ["ethos-u65-512"] * 4)
    nc = HW[accel][0]
    n = rng.choice([1, 2, 3, 5, 8, 9, 15, 16, 17, 24, 31, 32, 33, 40, 48, 64] + ([96, 128, 130] if big else []))
    if kind == "fc":
        wshape = [rng.choice([1, 3, 8, 16, 33, 64]), n]
    elif kind == "depthwise":
        wshape = [rng.choice([1, 2, 3, 5]), rng.choice([1, 2, 3, 5]), 1, n]
    else:
        wshape = [rng.choice([1, 1, 2, 3, 3, 5]), rng.choice([1, 1, 2, 3, 3, 5]), rng.choice([1, 3, 4, 8, 9, 16, 17, 32, 40]), n]
    ifm_dtype = rng.choice(["int8", "int8", "uint8", "int16"])
    wdtype = "uint8" if ifm_dtype == "uint8" else "int8"
    per_channel = wdtype == "int8" and rng.random() < 0.5
    if wdtype == "uint8":
        wzp = rng.choice([0, 1, 127, 128, 255, rng.randrange(256)])
    else:
        wzp = [rng.choice([0, 0, -1, 1, -128, 127]) for _ in range(n)] if (per_channel and rng.random() < 0.3) else rng.choice([0, 0, 0, -3, 5, -128, 127])
    bias_dtype = "int64" if (ifm_dtype == "int16" and rng.random() < 0.6) else "int32"
    bd = rng.choice([8, 16, 16, 24, 32, 48, 64]) if rng.random() < 0.8 else rng.choice([1, 2, 3, 4, 5, 12])
    style = rng.choices(["full", "sched", "even", "odd", "malformed"], [3, 3, 3, 2, 1])[0]
    c = dict(kind=kind, accel=accel, wshape=wshape, ifm_dtype=ifm_dtype, wdtype=wdtype, per_channel=per_channel, wzp=wzp,
             wzp_np=rng.random() < 0.3, bias_dtype=bias_dtype, bd=bd, nbias=n, wseed=rng.getrandbits(30), bseed=rng.getrandbits(30),
             sseed=rng.getrandbits(30), wmode=rng.choice(["rand", "rand", "sparse", "small", "extremes"]),
             bmode=rng.choices(["rand", "wide", "i32", "bad"], [5, 3, 2, 1])[0] if bias_dtype == "int64" else rng.choices(["rand", "i32", "bad"], [6, 3, 1])[0],
             ifm_scale=rng.choice([0.05, 0.0039, 1.0, rng.uniform(0.001, 0.5)]), ofm_scale=rng.choice([0.1, 0.0235, 1.0, rng.uniform(0.005, 0.9)]),
             dil=rng.choice([[1, 1], [1, 1], [1, 1], [2, 1], [1, 2], [2, 2]]) if kind in ("conv", "depthwise") else [1, 1],
             away=kind in ("conv", "depthwise") and rng.random() < 0.15, style=style)
    if c["bmode"] == "bad":
        c["bad_at"] = rng.randrange(n)
    if rng.random() < 0.12:
        k = rng.choice([1, n])
        c["explicit"] = [[rng.choice([1, (1 << 31) - 1, (1 << 32) - 1, rng.getrandbits(31)]), rng.choice([0, 1, 31, 63, rng.randrange(64)])] for _ in range(k)]
        if rng.random() < 0.1:
            c["explicit"][0][1] = 64  # outside the 6-bit range: guarded
    if rng.random() < 0.05:
        c["nbias"] = max(1, n + rng.choice([-1, 1]))  # bias tensor not matching the OFM depth (malformed)
    c["offs"] = gen_slices(rng, n, nc, bd, style)
    return c


CORPUS = [
    # the two-core odd interior boundary of DESIGN.md (hypothesis of scales_one_record_per_channel)
    dict(kind="conv", accel="ethos-u65-512", wshape=[3, 3, 4, 8], ifm_dtype="int8", wdtype="int8", per_channel=True, wzp=0, wzp_np=False,
         bias_dtype="int32", bd=16, nbias=8, wseed=1, bseed=2, sseed=3, wmode="rand", bmode="rand", ifm_scale=0.05, ofm_scale=0.1,
         dil=[1, 1], away=False, style="odd", offs=[0, 3, 8]),
    dict(kind="conv", accel="ethos-u65-512", wshape=[3, 3, 16, 48], ifm_dtype="int8", wdtype="int8", per_channel=True, wzp=0, wzp_np=False,
         bias_dtype="int32", bd=16, nbias=48, wseed=4, bseed=5, sseed=6, wmode="rand", bmode="rand", ifm_scale=0.05, ofm_scale=0.1,
         dil=[1, 1], away=False, style="sched", offs=[0, 16, 32, 48]),
    dict(kind="depthwise", accel="ethos-u55-32", wshape=[3, 3, 1, 17], ifm_dtype="uint8", wdtype="uint8", per_channel=False, wzp=128, wzp_np=True,
         bias_dtype="int32", bd=8, nbias=17, wseed=7, bseed=8, sseed=9, wmode="sparse", bmode="i32", ifm_scale=0.0039, ofm_scale=0.0235,
         dil=[2, 2], away=False, style="even", offs=[0, 16, 17]),
    dict(kind="fc", accel="ethos-u65-512", wshape=[33, 9], ifm_dtype="int16", wdtype="int8", per_channel=False, wzp=0, wzp_np=False,
         bias_dtype="int64", bd=8, nbias=9, wseed=10, bseed=11, sseed=12, wmode="rand", bmode="wide", ifm_scale=0.001, ofm_scale=0.002,
         dil=[1, 1], away=False, style="full", offs=[0, 9]),
    dict(kind="tconv", accel="ethos-u55-128", wshape=[3, 2, 8, 16], ifm_dtype="int8", wdtype="int8", per_channel=True, wzp=[0] * 16, wzp_np=False,
         bias_dtype="int32", bd=16, nbias=16, wseed=13, bseed=14, sseed=15, wmode="rand", bmode="rand", ifm_scale=0.05, ofm_scale=0.1,
         dil=[1, 1], away=False, style="full", offs=[0, 16]),
    # one-channel operator on two cores; block depth below the core count (core 1 is skipped by the code)
    dict(kind="conv", accel="ethos-u65-512", wshape=[1, 1, 8, 1], ifm_dtype="int8", wdtype="int8", per_channel=False, wzp=0, wzp_np=False,
         bias_dtype="int32", bd=8, nbias=1, wseed=16, bseed=17, sseed=18, wmode="rand", bmode="rand", ifm_scale=0.05, ofm_scale=0.1,
         dil=[1, 1], away=False, style="full", offs=[0, 1]),
    dict(kind="conv", accel="ethos-u65-512", wshape=[1, 1, 8, 8], ifm_dtype="int8", wdtype="int8", per_channel=False, wzp=0, wzp_np=False,
         bias_dtype="int32", bd=1, nbias=8, wseed=19, bseed=20, sseed=21, wmode="rand", bmode="rand", ifm_scale=0.05, ofm_scale=0.1,
         dil=[1, 1], away=False, style="full", offs=[0, 8]),
]


def model_layout_args(c, raw_q, biases, do_w, sections):
    """flat arguments of CMD layout; sections: [(core, d, len, bytes)] = the codec oracle (the real weight sections)"""
    nc = HW[c["accel"]][0]
    a = [nc, c["wshape"][-1], c["bd"], 1 if do_w else 0, 1 if c.get("away") else 0, len(biases)]
    a += [len(biases)] + [int(b) for b in biases]
    a += [len(raw_q)] + [int(x) for p in raw_q for x in p]
    a += [len(c["offs"])] + [int(x) for x in c["offs"]]
    a += [len(sections)]
    for core, d, ln, bs in sections:
        a += [core, d, ln, len(bs)] + list(bs)
    return a


def real_sections(c, o, tw):
    """the codec oracle of the model for this request: the weight bytes of every (core, d, len) the loop encodes.  A
    key written twice (repeated offset) keeps only its last range, the overwritten bytes come from a separate call"""
    offs = c["offs"]
    nxt = {}
    secs = []
    pairs = list(zip(offs[:-1], offs[1:]))
    for d, dn in pairs:
        nxt[d] = dn
    for x in ranges_of(tw):
        secs.append((x[0], x[1], nxt[x[1]] - x[1], bytes(tw.buffer[x[2] + x[4]: x[2] + x[4] + x[5]])))
    for d, dn in pairs:
        if nxt[d] != dn:  # overwritten
            status, r = fresh_real(o, [d, dn])
            if status == "ok":
                for x in ranges_of(r[0]):
                    secs.append((x[0], x[1], dn - d, bytes(r[0].buffer[x[2] + x[4]: x[2] + x[4] + x[5]])))
    return secs


def tensor_flat(t):
    rs = ranges_of(t)
    return [1, len(t.buffer), int(t.double_buffer_sizes[0]), int(t.double_buffer_sizes[1]), len(rs)] + [x for r in rs for x in r] + list(t.buffer)


def function_level(rng, tier, st):
    """real encode_weight_and_scale_tensor vs extracted model + property oracles.  st: accumulators"""
    n_cases = 260 if tier == "quick" else 6000
    cases = [dict(c) for c in CORPUS] + [gen_case(rng, big=(i % 7 == 0)) for i in range(n_cases)]
    margs, meta = [], []
    for c in cases:
        clear_cache()
        o = build(c)
        wv, bv, wsc = o["w"].values, o["b"].values, o["w"].quantization.scale_f32
        status, r = call_real(o, c["offs"])
        st["evals"] += 1
        valid = is_valid_request(c, c["offs"])
        st["dist"]["%s/%s/%s/%s" % (c["kind"], c["ifm_dtype"], HW[c["accel"]][0], c["style"])] += 1
        if status == "other":
            st["model_diff"].append(dict(case=c, why="unmodelled exception " + r))
            continue
        raw_q = expected_raw_qscales(c, wsc)
        if status == "ok":
            tw = r[0]
            secs = real_sections(c, o, tw)
            want = tensor_flat(tw)
            if r[1] is not None:
                st["model_diff"].append(dict(case=c, why="scale tensor returned on an empty cache"))
        else:
            secs, want = None, [0]
        if secs is None:
            # the model needs a codec: take the sections of a run without the failing scale part is impossible; use empty
            # sections of length 0 (multiple of 16) -- the error outcome does not depend on them
            secs = []
        margs.append(model_layout_args(c, raw_q, [int(x) for x in bv], True, secs))
        meta.append((c, want, status))
        if status == "ok" and valid:
            st["valid"] += 1
            st["nontrivial"].add((c["kind"], c["ifm_dtype"], HW[c["accel"]][0], len(c["offs"]) - 1, c["per_channel"], c["bd"] % 16 == 0,
                                  tuple(c["dil"]), c["wshape"][-1] % 16 == 0))
            why = (layout_oracle(c, c["offs"], tw) or scale_oracle(c, c["offs"], tw, wsc, bv)
                   or weight_oracle(c, c["offs"], tw, wv))
            if why and st["first_bad"] is None:
                st["first_bad"] = (dict(oracle=why.split(" of (")[0][:50], kind=c["kind"], ncores=HW[c["accel"]][0]),
                                   dict(case=c, reason=why), "encode_weight_and_scale_tensor: " + why)
        elif status == "err" and valid and all(-(1 << 39) <= b < (1 << 39) and 0 <= m < (1 << 32) and 0 <= s < 64
                                               for b, m, s in expected_channel_records(c, wsc, bv)[0]):
            # a well-formed request whose records all fit the documented field widths was rejected
            if st["first_bad"] is None:
                st["first_bad"] = (dict(oracle="rejected", kind=c["kind"], ncores=HW[c["accel"]][0]), dict(case=c, reason=r),
                                   "encode_weight_and_scale_tensor raised %s on a well-formed request" % r)
        if len(st["samples"]) < 3 and status == "ok" and valid and len(c["offs"]) > 2:
            st["samples"].append(dict(case={k: c[k] for k in ("kind", "accel", "wshape", "ifm_dtype", "bd", "offs")},
                                      ranges=ranges_of(tw)[:6], double_buffer_sizes=list(tw.double_buffer_sizes), buffer_len=len(tw.buffer)))
    outs = models.run_parallel("layout", margs, exe_name=EXE) if st["okx"] else []
    for (c, want, status), out in zip(meta, outs):
        st["model_cases"] += 1
        if out != want:
            k = next((i for i, (a, b) in enumerate(zip(out, want)) if a != b), min(len(out), len(want)))
            st["model_diff"].append(dict(case=c, why="model and implementation differ at flat position %d" % k, model=out[:40], impl=want[:40],
                                         status=status))
    clear_cache()
