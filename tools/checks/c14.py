"""C14 -- compilation is deterministic and independent of process history (partial).
Proof part: memo stores as state machines (props/C14.v). Search part (exploration, not a proof):
histories of compilations in one process (A;B vs B alone, A;A, mixed entry points, mixed accelerators)
and PYTHONHASHSEED values; outputs compared byte for byte, summary figures field by field."""
import collections
import concurrent.futures
import hashlib
import json
import os
import random
import shutil
import subprocess

import compiles
import vlib

WORKER = os.path.join(vlib.ROOT, "tools", "hist_worker.py")
POOL = [("multi_custom", None), ("ew_dag", None), ("lut_heavy", None), ("single:logistic", None), ("single:tanh", None), ("single:lrelu", None), ("single:hswish", None),
        ("conv_chain", None), ("diamond", None), ("mixed_cpu", None), ("single:conv", None), ("single:add", None),
        ("single:softmax", None), ("conv_chain_big", None), ("single:pad_bc", None), ("single:pad", None), ("lut_mixed", None), ("multi_input", None), ("siamese", None), ("single:fc", None), ("single:mean", None)]
ACCS = ["ethos-u65-256", "ethos-u55-128", "ethos-u65-512", "ethos-u55-64"]


def run_history(steps, hashseed="0", tag=""):
    key = hashlib.sha256((compiles.repo_state() + json.dumps(steps, sort_keys=True) + hashseed + open(WORKER).read()).encode()).hexdigest()[:24]
    out = os.path.join(compiles.CACHE, "hist_" + key)
    rj = os.path.join(out, "history_result.json")
    if os.path.exists(rj):
        return json.load(open(rj))
    shutil.rmtree(out, ignore_errors=True)
    os.makedirs(out, exist_ok=True)
    hf = os.path.join(out, "history.json")
    json.dump({"out_dir": out, "steps": steps}, open(hf, "w"))
    env = vlib.py_env({"PYTHONHASHSEED": hashseed})
    try:
        subprocess.run([vlib.PY, WORKER, hf], env=env, capture_output=True, text=True, timeout=1800)
    except subprocess.TimeoutExpired:
        pass
    if os.path.exists(rj):
        res = json.load(open(rj))
    else:
        res = [{"status": "crash", "exception": "history worker died"} for _ in steps]
        json.dump(res, open(rj, "w"))
    # keep only the result file (disk)
    for d in os.listdir(out):
        if d.startswith("step"):
            shutil.rmtree(os.path.join(out, d), ignore_errors=True)
    return res


def norm(step):
    """the (model, options) a step denotes, independent of the entry point"""
    if step["entry"] in ("convert", "convert_bytes", "convert_bytes_ro"):
        return (step["family"], step["seed"], ("--accelerator-config", "ethos-u65-256"))
    a = list(step.get("args", []))
    if not a:
        a = ["--accelerator-config", "ethos-u65-256"]
    return (step["family"], step["seed"], tuple(a))


def run(tier):
    res = vlib.Result("C14", tier, "other")
    b = vlib.build_property("C14")
    rng = random.Random("c14/%d" % vlib.seed())
    nh = 19 if tier == "quick" else 300
    histories = []
    # corpus-style fixed shapes first: A;A, A;B;A, mixed entry points, mixed accelerators
    def st(fam, sd, acc=None, entry="main", extra=()):
        return {"family": fam, "seed": "c14-%s" % sd,
                "args": ((["--accelerator-config", acc] if acc else []) + list(extra)) if entry == "main" else [], "entry": entry}
    # process-global interpreter state (recursion limit) left behind by one entry point and relied on by another: deep
    # operator chains first in a process through each entry point, and after a CLI compilation with a small --recursion-limit
    histories.append([st("deep_chain:600", 1, entry="convert_bytes"), st("deep_chain:600", 1, entry="convert")])
    histories.append([st("deep_chain:600", 1, entry="convert"), st("deep_chain:600", 1, entry="convert_bytes")])
    histories.append([st("single:conv", 5, extra=["--recursion-limit", "500"]), st("deep_chain:250", 1, entry="convert_bytes"),
                      st("deep_chain:250", 1, entry="convert")])
    # every tensor allocator on networks whose live ranges tie (several equal graph inputs used by one operator)
    for alloc in ("Greedy", "LinearAlloc", "HillClimb"):
        ex = ["--tensor-allocator", alloc]
        histories.append([st("multi_input", 1, "ethos-u55-128", extra=ex), st("multi_input", 2, "ethos-u55-128", extra=ex),
                          st("multi_input", 1, "ethos-u55-128", extra=ex), st("multi_input", 1, "ethos-u55-128", extra=ex)])
    # networks whose first HillClimb placement is not optimal, so that the allocator's randomised search runs (most networks
    # never draw a random number): state of a random generator carried from one compilation to the next shows only here
    histories.append([st("branchy", 9), st("branchy", 11), st("branchy", 9), st("branchy", 25, entry="convert_bytes"), st("branchy", 11, entry="convert")])
    histories.append([st("branchy", 25), st("branchy", 25), st("branchy", 9, entry="convert_bytes")])
    # a model whose subgraph carries no name (the field is optional): names derived from it must not depend on the entry point
    histories.append([st("mixed_cpu!anon", 1, entry="convert_bytes"), st("mixed_cpu!anon", 1, entry="convert"), st("mixed_cpu!anon", 1),
                      st("single:conv!anon", 2, entry="convert_bytes"), st("single:conv!anon", 2)])
    # models that carry several metadata entries of their own (the reader keeps them, the writer adds two): their order in
    # the output must not depend on hashing, their number not on earlier compilations
    histories.append([st("single:conv!meta", 2), st("mixed_cpu!meta", 1, entry="convert_bytes"), st("single:conv!meta", 2, entry="convert"),
                      st("mixed_cpu!meta", 1)])
    histories.append([st("multi_custom", 1), st("multi_custom", 2), st("multi_custom", 1, entry="convert_bytes")])
    histories.append([st("lut_heavy", 1), st("lut_heavy", 1)])
    histories.append([st("lut_heavy", 1), st("lut_heavy", 2), st("lut_heavy", 1), st("lut_heavy", 1, entry="convert"), st("lut_heavy", 1, entry="convert_bytes")])
    histories.append([st("single:logistic", 1), st("single:logistic", 2), st("single:tanh", 3), st("single:logistic", 1)])
    histories.append([st("conv_chain", 4, "ethos-u55-128"), st("conv_chain", 4, "ethos-u65-512"), st("conv_chain", 4, "ethos-u55-128")])
    histories.append([st("single:conv", 5, entry="convert_bytes"), st("single:conv", 5, entry="convert"), st("single:conv", 5)])
    for sd in (1, 2):     # the same caller buffer compiled twice, and an immutable buffer (constants edited in place by a rewrite)
        histories.append([st("single:pad_bc", sd, entry="convert_bytes"), st("single:pad_bc", sd, entry="convert_bytes"),
                          st("single:pad_bc", sd, entry="convert_bytes_ro"), st("single:pad_bc", sd, entry="convert")])
    histories.append([st("lut_mixed", 1, entry="convert_bytes"), st("lut_mixed", 1, entry="convert_bytes_ro"), st("lut_mixed", 1)])
    # operators that are unrolled / split / merged by the graph optimiser (names and constants made during the rewrite)
    histories.append([st("lstm", 1), st("lstm", 2), st("lstm", 1, entry="convert_bytes"), st("lstm", 1)])
    histories.append([st("rewrite_patterns", 1, entry="convert_bytes"), st("rewrite_patterns", 2), st("rewrite_patterns", 1),
                      st("single:conv_groups", 1), st("single:conv_groups", 1, entry="convert")])
    histories.append([st("unsupported:pad_shared_tensor", 1, entry="convert_bytes"), st("unsupported:pad_shared_tensor", 1, entry="convert_bytes_ro"),
                      st("unsupported:pad_shared_buffer", 1, entry="convert_bytes"), st("unsupported:pad_shared_buffer", 1)])
    # constants the compiler makes up whose identity derives from their VALUES (the all-ones kernel of a MEAN, the zero bias
    # of an operator without one): equal ones of an earlier compilation must not be found again - after each entry point
    histories.append([st("single:mean", 1, entry="convert_bytes"), st("single:mean", 2), st("single:mean", 1, entry="convert_bytes"),
                      st("single:mean", 1), st("single:mean", 3, entry="convert")])
    histories.append([st("single:mean_axis", 1, entry="convert_bytes"), st("single:mean_axis", 1, entry="convert_bytes"),
                      st("single:fc", 2, entry="convert_bytes"), st("single:fc", 2), st("single:mean_axis", 1)])
    while len(histories) < nh:
        n = rng.randrange(2, 6)
        h = []
        for _ in range(n):
            fam = rng.choice(POOL)[0]
            sd = rng.randrange(1, 5)
            entry = rng.choice(["main", "main", "main", "convert", "convert_bytes", "convert_bytes_ro"])
            acc = rng.choice(ACCS + [None]) if entry == "main" else None
            extra = rng.choice([(), (), ("--tensor-allocator", "Greedy"), ("--tensor-allocator", "LinearAlloc"),
                                ("--optimise", "Size"), ("--cpu-tensor-alignment", "64")]) if entry == "main" else ()
            h.append(st(fam, sd, acc, entry, extra))
        if rng.random() < 0.5:
            h.append(dict(rng.choice(h)))      # repeat something already compiled in this process
        histories.append(h)
    # solo references (fresh process, hash seed 0) for every distinct (model, options)
    solos = {}
    for h in histories:
        for s in h:
            k = norm(s)
            if k not in solos:
                solos[k] = [{"family": k[0], "seed": k[1], "args": list(k[2]), "entry": "main"}]
    seeds = ["0", "1", "2", "3", "4242"] if tier == "quick" else ["0", "1", "2", "3", "4", "5", "17", "4242", "999983"]
    with concurrent.futures.ThreadPoolExecutor(max_workers=vlib.NCPU) as ex:
        solo_keys = list(solos)
        solo_res = list(ex.map(lambda k: run_history(solos[k], "0"), solo_keys))
        hist_res = list(ex.map(lambda h: run_history(h, "0"), histories))
        # hash-seed comparison set: one model of every family first (third-party custom operators and tying live ranges
        # before the rest: sets of strings / objects are what a hash seed reorders), then further ones in plan order
        prio = ["multi_custom", "multi_input", "lut_heavy", "ew_dag", "lut_mixed"]
        by_fam = collections.OrderedDict()
        for k in sorted(solo_keys, key=lambda k: (prio.index(k[0]) if k[0] in prio else len(prio))):
            if not k[0].startswith("deep_chain"):
                by_fam.setdefault(k[0], k)
        seed_keys = list(by_fam.values())
        seed_keys += [k for k in solo_keys if k not in seed_keys and not k[0].startswith("deep_chain")]
        seed_keys = seed_keys[: (10 if tier == "quick" else 60)]
        seed_res = {s: list(ex.map(lambda k: run_history(solos[k], s), seed_keys)) for s in seeds[1:]}
    ref = {k: r[0] for k, r in zip(solo_keys, solo_res)}
    bad = []
    evals = 0
    nontrivial = set()
    for h, rs in zip(histories, hist_res):
        for i, (s, r) in enumerate(zip(h, rs)):
            evals += 1
            want = ref[norm(s)]
            nontrivial.add((norm(s), s["entry"], i > 0))
            if want.get("status") != r.get("status") or want.get("sha256") != r.get("sha256"):
                kind = "fails" if r.get("status") != "ok" and want.get("status") == "ok" else "differs"
                bad.append(({"kind": "history_" + kind, "entry": s["entry"], "position": i,
                             "exception_type": (r.get("exception") or "").split(":")[0]},
                            {"history": h, "step": i, "solo": {k: want.get(k) for k in ("status", "sha256", "exception")},
                             "in_history": {k: r.get(k) for k in ("status", "sha256", "exception", "traceback")}},
                            "step %d (%s via %s) of a %d-step history %s: solo %s/%s, in history %s/%s %s" % (
                                i, s["family"], s["entry"], len(h), kind, want.get("status"), (want.get("sha256") or "")[:10],
                                r.get("status"), (r.get("sha256") or "")[:10], r.get("exception") or "")))
            elif r.get("input_changed"):
                bad.append(({"kind": "caller_buffer_modified", "entry": s["entry"], "position": i},
                            {"history": h, "step": i},
                            "step %d (%s via %s): the compilation modified the caller's model buffer, so compiling it again "
                            "compiles a different model" % (i, s["family"], s["entry"])))
            elif s["entry"] == "main" and want.get("summary") != r.get("summary"):
                bad.append(({"kind": "summary_differs", "entry": s["entry"], "position": i},
                            {"history": h, "step": i, "solo": want.get("summary"), "in_history": r.get("summary")},
                            "summary figures of step %d differ from the solo compilation" % i))
    for sd, rs in seed_res.items():
        for k, r in zip(seed_keys, rs):
            evals += 1
            nontrivial.add((k, "hashseed", sd))
            if ref[k].get("sha256") != r[0].get("sha256") or ref[k].get("status") != r[0].get("status") or ref[k].get("summary") != r[0].get("summary"):
                bad.append(({"kind": "hashseed_differs", "hashseed": sd, "family": k[0]},
                            {"model": k, "seed0": ref[k], "seed": r[0]},
                            "PYTHONHASHSEED=%s changes the output of %s %s" % (sd, k[0], k[1])))
    res.cov.update({
        "explanation": "Determinism over all histories is not proved. Proved: memo stores as state machines (transparent iff the key "
                       "determines the computation; address-map assertion). Explored: %d multi-compilation histories in one process "
                       "(mixed entry points main/convert/convert_bytes, mixed accelerators, repeats) and %d hash seeds, each step "
                       "compared byte for byte (sha256) and by summary figures with a solo compilation in a fresh process." % (len(histories), len(seeds)),
        "evaluations": evals, "distinct_nontrivial": len(nontrivial),
        "rule": "distinct (model, options, entry point, first-or-later position) and (model, hash seed) comparisons",
        "samples": [[(s["family"], s["seed"], s["entry"], s["args"]) for s in h] for h in histories[:3]],
        "solo_status": dict(collections.Counter(r.get("status") for r in ref.values())),
        "steps_in_which_the_hillclimb_search_ran": sum(1 for rs in hist_res for r in rs if r.get("hillclimb_search_calls")),
        "steps_that_followed_a_step_with_search": sum(1 for rs in hist_res for i, r in enumerate(rs)
                                                      if r.get("hillclimb_search_calls") and any(q.get("hillclimb_search_calls") for q in rs[:i])),
    })
    vlib.proof_coverage(res, b, ["tools/hist_worker.py: histories run in one process per history; convert/convert_bytes are compared with "
                                 "main --accelerator-config ethos-u65-256 (their hard-coded configuration)"])
    res.assumptions += ["sampled histories and hash seeds"]
    seen = set()
    for key, detail, what in bad:
        ks = json.dumps(key, sort_keys=True)
        if ks in seen:
            continue
        seen.add(ks)
        res.violation(key, detail, "C14: " + what)
    if not bad and not b["ok"]:
        vlib.report_broken_build(res, b, None)
    return res.finish()
