"""C05 -- tensor allocators never overlap live buffers and report their true footprint.
Proof (coq/props/C05.v about coq/model/Alloc.v) + tie H: the three real allocators
(greedy_allocation.allocate_live_ranges, tensor_allocation.linear_allocate_live_ranges,
tensor_allocation.hillclimb_allocate_live_ranges -> hillclimb_allocation.allocate_live_ranges) are run on
synthetic LiveRange objects and compared address for address with the extracted model; the results of
random.randint inside the hill-climb search are recorded (or supplied adversarially) and fed to the model as
its oracle stream.  The property oracle (non-overlap of co-live ranges, alignment, total == highest end in
the allocator's convention, hill-climb total >= peak, iteration bound) is evaluated on the implementation."""
import contextlib
import io
import itertools
import random
import signal
import time

import vlib
import models

SIZES = [1, 15, 16, 17, 48, 100, 112, 256]
ALIGNS = [16, 32, 64, 128]
MIN_IMPROVE = 500
TIMEOUT_WHY = "the allocator does not terminate within %g s of CPU time on this input (a run of the unchanged code takes milliseconds to a few seconds)"
P8_SMALL = [(3, 3, 100, 128), (1, 2, 100, 16), (0, 1, 1, 32), (1, 1, 16, 32), (2, 3, 1, 64)]   # = AllocExamples.p8_witness
P8_WITNESS = [(4, 4, 17, 128), (4, 5, 1, 16), (5, 5, 16, 32), (3, 3, 100, 16), (5, 5, 1, 64), (3, 3, 16, 64),
              (3, 4, 15, 128), (5, 6, 1, 64)]


def round_up(a, b):
    return ((a + b - 1) // b) * b


# ------------------------------------------------------------------------------------------------
# synthetic objects accepted by the real allocators
class CaseTimeout(BaseException):
    """a call into the implementation used more than its CPU (or wall clock) allowance"""


CASE_LIMIT = {"quick": 15.0, "thorough": 60.0}   # CPU seconds per call into the implementation
_limit = [15.0]


def bounded(fn, *args):
    """fn(*args) under a CPU-time limit (ITIMER_VIRTUAL, so machine load does not matter) and a ten times larger
    wall-clock limit; raises CaseTimeout.  A check must never hang on a changed allocator."""
    def onalarm(sig, frame):
        raise CaseTimeout()
    old_v = signal.signal(signal.SIGVTALRM, onalarm)
    old_r = signal.signal(signal.SIGALRM, onalarm)
    signal.setitimer(signal.ITIMER_VIRTUAL, _limit[0])
    signal.setitimer(signal.ITIMER_REAL, 10 * _limit[0])
    try:
        return fn(*args)
    finally:
        signal.setitimer(signal.ITIMER_VIRTUAL, 0)
        signal.setitimer(signal.ITIMER_REAL, 0)
        signal.signal(signal.SIGVTALRM, old_v)
        signal.signal(signal.SIGALRM, old_r)


class FakeOp:
    def __init__(self, npu):
        self.run_on_npu = npu


class FakeTens:
    def __init__(self, name, eq=None, wcc=None, scc=None, lut=False, cpu=False):
        from ethosu.vela.tensor import TensorPurpose
        self.name = name
        self.address = None
        self.eq = eq if eq is not None else ("u", name)
        self.weight_compression_config = wcc
        self.scale_compression_config = scc
        self.purpose = TensorPurpose.LUT if lut else TensorPurpose.FeatureMap
        self.ops = [FakeOp(False)] if cpu else []
        self.consumer_list = []
        self.size = 0
        self.mem_area = None

    def storage_size(self):
        return self.size

    def equivalent(self, other):
        return self.eq == other.eq


class FakeGraph:
    def __init__(self):
        self.lrs = []
        self.ranges = {}


def make_graph(ranges, names=None, tens_kw=None):
    """ranges: [(start, end, size, align)] -> FakeGraph with one LiveRange + one tensor per range"""
    from ethosu.vela.live_range import LiveRange
    g = FakeGraph()
    for i, (s, e, sz, al) in enumerate(ranges):
        nm = "t%06d" % (names[i] if names else i)
        t = FakeTens(nm, **(tens_kw[i] if tens_kw else {}))
        lr = LiveRange(None, al)
        lr.start_time, lr.end_time, lr.size, lr.name = s, e, sz, nm
        lr.tensors.append(t)
        g.lrs.append(lr)
        g.ranges[t] = lr
    return g


def make_graph_by_requests(ranges, names, requests, tens_kw):
    """the same graph built by the real LiveRangeGraph.get_or_create_range: requests[i] is the sequence of alignments
    requested for tensor i; the first requests come in range order, later ones round by round through a clone of the
    tensor (an equivalent tensor), as the live-range extraction meets a tensor again in another subgraph"""
    from ethosu.vela.live_range import LiveRangeGraph
    g = LiveRangeGraph()
    order = []
    for rnd in range(max(len(q) for q in requests)):
        for i, (s, e, sz, _) in enumerate(ranges):
            if rnd < len(requests[i]):
                nm = "t%06d" % (names[i] if names else i)
                t = FakeTens(nm, **(tens_kw[i] if tens_kw else {}))
                t.size = sz
                lr = g.get_or_create_range(t, requests[i][rnd])
                order.append((i, requests[i][rnd]))
                if rnd == 0:
                    lr.start_time, lr.end_time, lr.size, lr.name = s, e, sz, nm
    return g, order


def addresses(g):
    return [lr.tensors[0].address for lr in g.lrs]


def run_greedy_impl(ranges, names):
    from ethosu.vela import greedy_allocation, tensor_allocation
    from ethosu.vela.errors import AllocationError
    g = make_graph(ranges, names)
    guard = None
    try:
        total = bounded(greedy_allocation.allocate_live_ranges, g, 16)
        try:
            bounded(tensor_allocation.verify_allocation, g, 16)
        except AllocationError as ex:
            guard = str(ex)
    except CaseTimeout:
        return {"addr": addresses(g), "total": None, "guard": None, "timeout": _limit[0]}
    return {"addr": addresses(g), "total": total, "guard": guard}


def run_linear_impl(gran, entries):
    """entries: [(size, wcc, scc, lut, eq)]"""
    from ethosu.vela import tensor_allocation
    from ethosu.vela.errors import AllocationError
    ranges = [(0, 1, e[0], 16) for e in entries]
    kw = [dict(eq=e[4], wcc=(("w", e[1]) if e[1] else None), scc=("s", e[2]), lut=bool(e[3]), cpu=(i % 3 == 0))
          for i, e in enumerate(entries)]
    g = make_graph(ranges, None, kw)
    try:
        total = bounded(tensor_allocation.linear_allocate_live_ranges, g, gran)
    except CaseTimeout:
        return {"addr": addresses(g), "total": None, "guard": None, "timeout": _limit[0]}
    except AssertionError:
        return {"err": 6}
    except AllocationError as ex:
        return {"addr": addresses(g), "total": None, "guard": str(ex)}
    return {"addr": addresses(g), "total": total, "guard": None}


class Recorder:
    """replaces random.randint while the hill-climb allocator runs"""

    def __init__(self, supply=None):
        self.log = []
        self.supply = supply   # None: Python's own generator (seeded by allocate()), else a random.Random

    def install(self):
        self.orig = random.randint
        rec = self

        def randint(a, b):
            if rec.supply is None:
                v = rec.orig(a, b)
            else:
                if b < a:
                    raise ValueError("empty range in randrange(%d, %d)" % (a, b + 1))
                v = rec.supply.randint(a, b)
            rec.log.append(v)
            return v
        random.randint = randint

    def remove(self):
        random.randint = self.orig


def run_hillclimb_impl(ranges, max_iter, limit, supply=None):
    from ethosu.vela import hillclimb_allocation, tensor_allocation
    from ethosu.vela.errors import AllocationError
    g = make_graph(ranges)
    rec = Recorder(supply)
    sizes = []
    cls = hillclimb_allocation.HillClimbAllocator
    orig_ai = cls.allocate_indices

    def counting(self, indices):
        r = orig_ai(self, indices)
        sizes.append(r)
        return r
    cls.allocate_indices = counting
    rec.install()
    out = {"err": None, "guard": None, "total": None, "timeout": None}
    try:
        with contextlib.redirect_stdout(io.StringIO()):
            out["total"] = bounded(tensor_allocation.hillclimb_allocate_live_ranges, g, 16, max_iter, limit)
    except CaseTimeout:
        out["timeout"] = _limit[0]
    except ValueError as ex:
        out["err"] = 1 if "empty range" in str(ex) else "ValueError: %s" % ex
    except IndexError:
        out["err"] = 2
    except AllocationError as ex:
        out["guard"] = str(ex)
    finally:
        rec.remove()
        cls.allocate_indices = orig_ai
    out["addr"] = addresses(g)
    out["stream"] = rec.log
    out["passes"] = len(sizes)
    out["size0"] = sizes[0] if sizes else None
    return out


class ArchStub:
    """what tensor_allocation.allocate needs from the architecture: the hard limit of a memory type"""

    def __init__(self, size):
        self.size = size

    def mem_type_size(self, mem_type):
        return self.size


def run_dispatch_impl(tag, align, ranges, names, max_iter, limit, supply=None, requests=None):
    """tensor_allocation.allocate(sg, arch, mem_area, mem_type_set, tensor_allocator, lr_graph, cpu_tensor_alignment,
    hillclimb_max_iterations) on a prepared LiveRangeGraph: the live-range extraction is replaced by a function that
    returns the prepared graph; ranges whose alignment is the requested one carry a CPU tensor (as the extraction
    would have made them), so Vela's own verify_alignment looks at them."""
    from ethosu.vela import tensor_allocation, live_range
    from ethosu.vela.errors import AllocationError
    from ethosu.vela.nn_graph import TensorAllocator
    from ethosu.vela.tensor import MemType
    kw = [dict(cpu=(r[3] == align)) for r in ranges]
    order = None
    if requests is None:
        g = make_graph(ranges, names, kw)
    else:
        g, order = make_graph_by_requests(ranges, names, requests, kw)
    seen = {}

    def fake_extract(sg, mem_area, mem_type_set, **kw):
        seen.update(kw)
        return g
    rec = Recorder(supply)
    orig = live_range.extract_live_ranges_from_cascaded_passes
    live_range.extract_live_ranges_from_cascaded_passes = fake_extract
    rec.install()
    out = {"err": None, "guard": None, "total": None, "timeout": None}
    try:
        with contextlib.redirect_stdout(io.StringIO()):
            _, out["total"] = bounded(lambda: tensor_allocation.allocate(
                None, ArchStub(limit), None, {MemType.Scratch}, tensor_allocator=TensorAllocator(tag), lr_graph=None,
                cpu_tensor_alignment=align, hillclimb_max_iterations=max_iter))
    except CaseTimeout:
        out["timeout"] = _limit[0]
    except AllocationError as ex:
        out["guard"] = str(ex)
    except (ValueError, IndexError, AssertionError, TypeError) as ex:
        out["err"] = "%s: %s" % (type(ex).__name__, ex)
    finally:
        rec.remove()
        live_range.extract_live_ranges_from_cascaded_passes = orig
    out["addr"] = addresses(g)
    out["stream"] = rec.log
    out["forwarded_alignment"] = seen.get("cpu_tensor_alignment")
    out["get_alignment"] = [lr.get_alignment() for lr in g.lrs]
    out["request_order"] = order
    return out


def hc_static_impl(ranges):
    from ethosu.vela import hillclimb_allocation
    g = make_graph(ranges)
    with contextlib.redirect_stdout(io.StringIO()):
        try:
            a = bounded(hillclimb_allocation.HillClimbAllocator, g.lrs, 0, 1 << 40)
        except CaseTimeout:
            return ["timeout"]
    res = [a.min_required_size] + [lr.id for lr in sorted(a.lrs)] + [-1]
    for lr in a.lrs:
        res += [n.id for n in lr.neighbours] + [-1]
    return res


# ------------------------------------------------------------------------------------------------
# the property, evaluated on an implementation result; returns None or a reason
def co_live(r1, r2):
    return max(r1[0], r2[0]) <= min(r1[1], r2[1])


def peak(ranges):
    ts = sorted(set(r[0] for r in ranges))
    return max([sum(r[2] for r in ranges if r[0] <= t <= r[1]) for t in ts] or [0])


def oracle(kind, ranges, addr, total, gran=None, same=None):
    """kind: greedy | linear | hillclimb.  same(i, j): the input declares i and j equivalent."""
    n = len(ranges)
    for i in range(n):
        if addr[i] is None or addr[i] < 0:
            return "range %d has no address (%r)" % (i, addr[i])
    for i in range(n):
        al = gran if kind == "linear" else ranges[i][3]
        if addr[i] % al:
            return "address %d of range %d %r is not a multiple of %d" % (addr[i], i, ranges[i], al)
    order = sorted(range(n), key=lambda i: ranges[i][0])
    live = []
    for i in order:
        live = [j for j in live if ranges[j][1] >= ranges[i][0]]
        if ranges[i][1] >= ranges[i][0]:
            for j in live:
                if max(addr[i], addr[j]) < min(addr[i] + ranges[i][2], addr[j] + ranges[j][2]):
                    if same is not None and same(i, j) and addr[i] == addr[j]:
                        continue
                    return "ranges %d %r at %d and %d %r at %d are alive together and overlap" % (
                        j, ranges[j], addr[j], i, ranges[i], addr[i])
            live.append(i)
    ends = [addr[i] + ranges[i][2] for i in range(n)]
    top = max(ends + [0])
    if total < top:
        return "reported total %d is below the highest end address %d" % (total, top)
    if kind == "hillclimb":
        if total != top:
            return "reported total %d is not the highest end address %d" % (total, top)
        pk = peak(ranges)
        if total < pk:
            return "hill-climb footprint %d is below the peak of simultaneously live sizes %d" % (total, pk)
    else:
        pads = [addr[i] + round_up(ranges[i][2], gran if kind == "linear" else ranges[i][3]) for i in range(n)]
        if total != max(pads + [0]):
            return "reported total %d is not the highest (alignment padded) end address %d" % (total, max(pads + [0]))
    return None


# ------------------------------------------------------------------------------------------------
# generators
def gen_ranges(rng, n, tmax, sizes, aligns, maxdur=None):
    out = []
    for _ in range(n):
        s = rng.randrange(0, tmax)
        hi = tmax - 1 if maxdur is None else min(tmax - 1, s + maxdur)
        e = rng.randint(s, hi)
        out.append((s, e, rng.choice(sizes), rng.choice(aligns)))
    return out


def small_scope(nmax, tmax, sizes, aligns):
    """every range set with up to nmax ranges (as multisets: order matters for ids, so sequences)"""
    one = [(s, e, sz, al) for s in range(tmax) for e in range(s, tmax) for sz in sizes for al in aligns]
    for n in range(1, nmax + 1):
        for c in itertools.product(one, repeat=n):
            yield list(c)


def build_cases(tier, rng):
    """-> dict of case lists per allocator"""
    quick = tier == "quick"
    greedy, hill, zero = [], [], []
    corpus = [
        [(0, 100, 8000, 1), (0, 1, 8016, 1), (100, 110, 2000, 1), (108, 110, 4000, 1), (109, 110, 6000, 1)],
        [(0, 23, 131072, 1), (4, 5, 65568, 1), (4, 9, 8192, 1), (8, 30, 15360, 1), (10, 11, 65568, 1), (10, 15, 4096, 1),
         (16, 17, 65552, 1), (16, 21, 2048, 1), (22, 23, 32784, 1), (22, 27, 1024, 1)],
        P8_WITNESS,
        [(0, 3, 48, 16), (1, 1, 17, 64), (2, 4, 100, 32), (4, 4, 16, 128)],
        [(0, 0, 16, 16)],
        [(0, 2, 16, 16), (0, 2, 16, 16)],
    ]
    # exhaustive small scope
    ex2 = list(small_scope(2, 3, [1, 16, 17], [16, 64])) if quick else list(small_scope(2, 5, [1, 15, 16, 17, 48], ALIGNS))
    ex3 = list(small_scope(3, 2, [1, 17], [16, 32])) if quick else list(small_scope(3, 3, [1, 16, 17], [16, 64]))
    exhaustive = ex2 + [c for c in ex3 if len(c) == 3]
    n_small = 1500 if quick else 60000
    smallrand = [gen_ranges(rng, rng.randint(2, 5), 5, SIZES[:5], ALIGNS) for _ in range(n_small)]
    n_mid = 300 if quick else 6000
    mid = [gen_ranges(rng, rng.randint(6, 40), rng.randint(4, 30), rng.choice([SIZES, [16, 32, 48, 64, 256], [1, 17, 100]]),
                      rng.choice([ALIGNS, [16], [16, 128]]), rng.choice([None, 3, 8])) for _ in range(n_mid)]
    n_big = 12 if quick else 300
    big = [gen_ranges(rng, rng.randint(100, 300), rng.randint(20, 120), SIZES + [4096, 65552], ALIGNS, rng.choice([2, 6, 15]))
           for _ in range(n_big)]
    greedy = corpus + exhaustive + smallrand + mid + big
    # hill climb is ~500 iterations per non-optimal case: thinner
    hex_ = exhaustive if not quick else exhaustive[::7]
    rest = [c for pair in itertools.zip_longest(hex_, smallrand[: (500 if quick else 20000)]) for c in pair if c is not None]
    # the extracted hill-climb model is list based (about 20 s for 300 ranges x 500 passes): few very large cases
    hbig = [c for c in big if len(c) <= 160][: (2 if quick else 25)] + [c for c in big if len(c) > 160][: (0 if quick else 6)]
    hill = corpus + hbig + mid[: (40 if quick else 1500)] + rest      # a time budget cuts the tail
    nz = 300 if quick else 5000
    zero = [gen_ranges(rng, rng.randint(2, 8), rng.randint(2, 6), [0, 0, 1, 16, 17, 100], ALIGNS) for _ in range(nz)]
    zero.insert(0, [(0, 5, 100, 16), (1, 1, 0, 16), (1, 5, 16, 16)])
    return {"greedy": greedy, "hill": hill, "zero": zero, "exhaustive": len(exhaustive), "smallrand": smallrand, "mid": mid, "big": big,
            "dist": {"corpus": len(corpus), "exhaustive_small_scope": len(exhaustive), "random_le5_ranges_5_steps": n_small,
                     "random_6_40_ranges": n_mid, "random_100_300_ranges": n_big, "zero_size_stream": len(zero)}}


def gen_linear(rng, n):
    ents = []
    for i in range(n):
        sz = rng.choice(SIZES + [0, 4096])
        wcc = rng.choice([0, 0, 0, 1, 2, 3])
        lut = 1 if rng.random() < 0.2 else 0
        eq = rng.choice([100 + i, 100 + i, 100 + i, 1, 2])
        ents.append([sz, wcc, 7, lut, eq])
    # equivalent / same-config tensors have the same size (what equivalence means); sometimes not
    if rng.random() < 0.9:
        first = {}
        for e in ents:
            for key in (("w", e[1]) if e[1] else None, ("e", e[4])):
                if key is not None:
                    if key in first:
                        e[0] = first[key]
                    first[key] = e[0]
        # second pass so that both keys agree
        for e in ents:
            for key in (("w", e[1]) if e[1] else None, ("e", e[4])):
                if key is not None:
                    e[0] = first[key] = first.get(key, e[0])
    if rng.random() < 0.03 and n >= 2:
        ents[-1][1], ents[-1][2] = ents[0][1] or 1, 8
        ents[0][1] = ents[-1][1]
    return [tuple(e) for e in ents]


def linear_same(ents):
    """the equivalence declared by the input: closure of equal config / equal equivalence id"""
    parent = list(range(len(ents)))

    def find(x):
        while parent[x] != x:
            parent[x] = parent[parent[x]]
            x = parent[x]
        return x
    for i in range(len(ents)):
        for j in range(i):
            if (ents[i][1] and ents[i][1] == ents[j][1]) or ents[i][4] == ents[j][4]:
                parent[find(i)] = find(j)
    return (lambda i, j: find(i) == find(j)), find


def run_cases(fn, argslist, max_timeouts=2):
    """fn(*args) for each args; stops after max_timeouts cases that exceeded their time allowance"""
    out = []
    n_to = 0
    for a in argslist:
        o = fn(*a)
        out.append(o)
        if isinstance(o, dict) and o.get("timeout"):
            n_to += 1
            if n_to >= max_timeouts:
                break
    return out


def flat_lrs(ranges, names=None):
    out = [len(ranges)]
    for i, r in enumerate(ranges):
        out += [r[0], r[1], r[2], r[3], names[i] if names else i]
    return out


# ------------------------------------------------------------------------------------------------
def run(tier):
    res = vlib.Result("C05", tier, "proof")
    _limit[0] = CASE_LIMIT.get(tier, 15.0)
    b = vlib.build_property("C05")
    vlib.proof_coverage(res, b, [
        "extraction (ExtrOcamlBasic only) + ocaml/driver.ml for the correspondence run (build/alloc)",
        "hand model coq/model/Alloc.v tied by correspondence only (device H); round_up additionally by translation "
        "(gen_round_up_is_model)",
        "the random module is not modelled: the theorems quantify over every oracle stream (random.randint results); "
        "the harness records Python's own results or supplies adversarial ones and feeds them to the model",
        "modelled, not verified: Python's sorted()/list/dict semantics (stable sort, insertion order), object identity of "
        "LiveRange/Tensor; one tensor per live range in the Linear model (fused ranges are not modelled)"])
    okx, xlog = vlib.build_extraction("alloc")
    rng = random.Random(vlib.seed())
    t_start = time.time()
    cases = build_cases(tier, rng)
    first_bad = []       # (key, detail, what)
    diffs = []           # model/implementation differences
    evals = 0
    nontrivial = 0
    samples = []
    zero_overlaps = 0
    known_p8 = []

    timeouts = []        # cases on which the implementation did not return in time

    def bad(kind, ranges, why, extra=None):
        if "does not terminate" in why:
            d = {"allocator": kind, "ranges": ranges, "reason": why}
            d.update(extra or {})
            timeouts.append(({"allocator": kind, "nontermination": True, "ranges": str(ranges)[:400]}, d, "%s: %s" % (kind, why)))
            return
        if len(first_bad) < 3:
            d = {"allocator": kind, "ranges": ranges, "reason": why}
            d.update(extra or {})
            first_bad.append(({"allocator": kind, "ranges": str(ranges)[:400]}, d, "%s: %s" % (kind, why)))

    phase = {"build": round(time.time() - res.t0, 1)}
    t_g = time.time()
    # ---------------- Greedy ----------------
    gcases = [(r, rng.sample(range(len(r)), len(r))) for r in cases["greedy"]]
    gimpl = run_cases(run_greedy_impl, gcases)
    gcases = gcases[:len(gimpl)]
    for (r, nm), o in zip(gcases, gimpl):
        evals += 1
        if any(co_live(r[i], r[j]) for i in range(len(r)) for j in range(i)):
            nontrivial += 1
        if o.get("timeout"):
            bad("greedy", r, TIMEOUT_WHY % o["timeout"], {"names": nm})
            continue
        why = oracle("greedy", r, o["addr"], o["total"])
        if why:
            bad("greedy", r, why, {"addresses": o["addr"], "total": o["total"]})
    zcases = cases["zero"] if not any(o.get("timeout") for o in gimpl) else []
    zimpl = run_cases(run_greedy_impl, [(r, list(range(len(r)))) for r in zcases])
    zcases = zcases[:len(zimpl)]
    cases["zero_greedy"] = zcases
    for r, o in zip(zcases, zimpl):
        evals += 1
        if o.get("timeout"):
            bad("greedy", r, TIMEOUT_WHY % o["timeout"])
        elif oracle("greedy", r, o["addr"], o["total"]):
            zero_overlaps += 1      # outside the property's hypothesis 0 < size (greedy_zero_size_refuted)
    if okx:
        mo = models.run("greedy", [flat_lrs(r, nm) for r, nm in gcases] + [flat_lrs(r) for r in zcases], exe_name="alloc")
        allc = gcases + [(r, list(range(len(r)))) for r in zcases]
        for (r, nm), o, m in zip(allc, gimpl + zimpl, mo):
            if o.get("timeout"):
                continue
            pos = {nm[i]: i for i in range(len(r))}
            maddr = [None] * len(r)
            for k in range(1, len(m), 2):
                maddr[pos[m[k]]] = m[k + 1]
            if maddr != o["addr"] or m[0] != o["total"]:
                diffs.append(("greedy", r, {"model": [m[0], maddr], "impl": [o["total"], o["addr"]], "names": nm}))
    if len(gimpl) > 3:
        samples.append({"allocator": "greedy", "ranges": gcases[3][0], "addresses": gimpl[3]["addr"], "total": gimpl[3]["total"]})

    phase["greedy"] = round(time.time() - t_g, 1)
    t_l = time.time()
    # ---------------- Linear ----------------
    nl = 3000 if tier == "quick" else 60000
    lcases = [(rng.choice([16, 16, 32, 64, 128, 256]), gen_linear(rng, rng.choice([1, 2, 3, 5, 8, 20, 60]))) for _ in range(nl)]
    lcases += [(16, gen_linear(rng, 300)) for _ in range(3 if tier == "quick" else 40)]
    limpl = run_cases(run_linear_impl, lcases)
    lcases = lcases[:len(limpl)]
    for (g, e), o in zip(lcases, limpl):
        evals += 1
        if o.get("timeout"):
            bad("linear", [(0, 1, x[0], g) for x in e], TIMEOUT_WHY % o["timeout"], {"granularity": g, "entries": e})
            continue
        if "err" in o:
            continue
        r = [(0, 1, x[0], g) for x in e]
        same, root = linear_same(e)
        groups = {}
        for i in range(len(e)):
            groups.setdefault(root(i), set()).add(e[i][0])
        sizes_agree = all(len(v) == 1 for v in groups.values())
        if len(e) > 1:
            nontrivial += 1
        if o["guard"]:
            bad("linear", r, "Vela's own verify_alignment raised: " + o["guard"], {"granularity": g, "entries": e})
            continue
        if not sizes_agree:
            continue            # equivalent tensors of different sizes: outside the property (not "equivalent")
        why = oracle("linear", r, o["addr"], o["total"], gran=g, same=same)
        if why:
            bad("linear", r, why, {"granularity": g, "entries": e, "addresses": o["addr"], "total": o["total"]})
    if okx:
        mo = models.run("linear", [[g, len(e)] + [v for x in e for v in x] for g, e in lcases], exe_name="alloc")
        for (g, e), o, m in zip(lcases, limpl, mo):
            if o.get("timeout"):
                continue
            want = [0, o["err"]] if "err" in o else [1, o["total"]] + o["addr"]
            if m != want:
                diffs.append(("linear", e, {"model": m[:50], "impl": want[:50], "granularity": g}))
    if len(limpl) > 5:
        samples.append({"allocator": "linear", "granularity": lcases[5][0], "entries(size,wcc,scc,lut,eq)": lcases[5][1][:8],
                        "result": {k: v for k, v in limpl[5].items()}})

    phase["linear"] = round(time.time() - t_l, 1)
    # ---------------- HillClimb ----------------
    hcases = [(P8_SMALL, 0, 1 << 32, False), (P8_WITNESS, None, 1 << 32, False)]   # witnesses of the repaired defect P8 (real stream): must pass
    for k, r in enumerate(cases["zero"][: (60 if tier == "quick" else 1500)] + cases["hill"]):
        pk = peak(r)
        mi = rng.choice([None, 0, 0, 1, 7, 100, 600, 1500])
        lim = rng.choice([0, pk // 2, max(pk - 1, 0), pk, pk + 1, pk + 16, 2 * pk, 1 << 32, 1 << 32, 1 << 32])   # below, at and above the peak
        if mi is None and lim < (1 << 32) and (len(r) > 5 or k % (50 if tier == "quick" else 25)):
            lim = 1 << 32        # max_iterations None with an unreachable limit means 99999 passes: only a few
        adversarial = (k % 3 == 1)
        hcases.append((r, mi, lim, adversarial))
    himpl = []
    hc_budget = 20 if tier == "quick" else 300
    t_h = time.time()
    done_h = 0
    hc_timeouts = 0
    for r, mi, lim, adv in hcases:
        if time.time() - t_h > hc_budget or hc_timeouts >= 2:
            break
        himpl.append(run_hillclimb_impl(r, mi, lim, random.Random(rng.getrandbits(32)) if adv else None))
        hc_timeouts += 1 if himpl[-1]["timeout"] else 0
        done_h += 1
    hcases = hcases[:done_h]
    iters_seen = {"0": 0, "1-499": 0, "500+": 0}
    for (r, mi, lim, adv), o in zip(hcases, himpl):
        evals += 1
        if any(co_live(r[i], r[j]) for i in range(len(r)) for j in range(i)):
            nontrivial += 1
        its = o["passes"] - 1
        iters_seen["0" if its <= 0 else ("1-499" if its < 500 else "500+")] += 1
        if o["timeout"]:
            bad("hillclimb", r, TIMEOUT_WHY % o["timeout"],
                {"max_iterations": mi, "memory_limit": lim, "adversarial_stream": adv, "search_passes_so_far": its,
                 "randint_results_so_far": o["stream"][:200], "addresses_so_far": o["addr"]})
            continue
        if o["err"] is not None:
            key = {"allocator": "hillclimb", "exception": "ValueError randint" if o["err"] == 1 else str(o["err"])}
            known_p8.append((key, {"ranges": r, "max_iterations": mi, "memory_limit": lim, "stream": o["stream"][-20:],
                                   "adversarial_stream": adv, "error": o["err"]}))
            continue
        if o["guard"]:
            ok_addr = all(a is not None for a in o["addr"])
            why = oracle("hillclimb", r, o["addr"], max([a + x[2] for a, x in zip(o["addr"], r)] + [0])) if ok_addr else None
            bad("hillclimb", r, (why + "; " if why else "") + "Vela's own verify_allocation raised: " + o["guard"],
                {"max_iterations": mi, "memory_limit": lim, "addresses": o["addr"]})
            continue
        why = oracle("hillclimb", r, o["addr"], o["total"])
        if not why:
            eff = 99999 if mi is None else mi
            bound = max(eff, MIN_IMPROVE) + MIN_IMPROVE * (o["size0"] - peak(r)) + 1
            if its > bound:
                why = "search ran %d passes, bound is %d" % (its, bound)
        if why:
            bad("hillclimb", r, why, {"max_iterations": mi, "memory_limit": lim, "addresses": o["addr"], "total": o["total"],
                                      "stream_len": len(o["stream"])})
    if okx and hcases:
        mo = models.run("hillclimb", [[0 if mi is None else 1, mi or 0, lim] + flat_lrs(r) + o["stream"]
                                       for (r, mi, lim, adv), o in zip(hcases, himpl)], exe_name="alloc")
        for (r, mi, lim, adv), o, m in zip(hcases, himpl, mo):
            if o["timeout"]:
                continue
            if o["err"] is not None:
                want = [0, o["err"]]
                got = m
            elif o["guard"]:
                continue
            else:
                want = [1, o["total"], len(o["stream"])] + o["addr"]
                got = m[:2] + m[4:] if m[:1] == [1] else m
            if got != want:
                diffs.append(("hillclimb", r, {"model": m[:40], "impl": want[:40], "max_iterations": mi, "memory_limit": lim,
                                               "stream": o["stream"][:60], "adversarial": adv}))
        st = hcases[: (300 if tier == "quick" else 5000)]
        so = models.run("hc_static", [flat_lrs(r) for r, _, _, _ in st], exe_name="alloc")
        for (r, _, _, _), m in zip(st, so):
            evals += 1
            w = hc_static_impl(r)
            if w == ["timeout"]:
                bad("hillclimb", r, "HillClimbAllocator.__init__: " + TIMEOUT_WHY % _limit[0])
                break
            if m != w:
                diffs.append(("hc_static", r, {"model": m[:60], "impl": w[:60]}))
    if len(hcases) > 3:
        samples.append({"allocator": "hillclimb", "ranges": hcases[3][0], "max_iterations": hcases[3][1], "memory_limit": hcases[3][2],
                        "addresses": himpl[3]["addr"], "total": himpl[3]["total"], "randint_results": himpl[3]["stream"][:12]})

    phase["hillclimb"] = round(time.time() - t_h, 1)
    # ---------------- the dispatcher tensor_allocation.allocate ----------------
    t_d = time.time()
    nd = 240 if tier == "quick" else 6000
    pool = cases["smallrand"][:nd * 2] + cases["mid"]
    dcases = []
    for k in range(nd):
        base = pool[(k * 7) % len(pool)] if k % 10 else cases["big"][(k // 10) % len(cases["big"])]
        al = [16, 32, 64, 128, 256][k % 5]
        tag = 1 + (k // 5) % 3                                           # LinearAlloc = 1, Greedy = 2, HillClimb = 3
        base = base[: (24 if tag == 3 else 150)]                         # the hill-climb search is the expensive part
        r = [(x[0], x[1], x[2], rng.choice([16, al])) for x in base]     # extraction gives 16 or the requested alignment
        pk = peak(r)
        mi = rng.choice([0, 1, 7, 100])
        lim = rng.choice([0, pk // 2, pk, pk + 16, 1 << 32, 1 << 32])
        # several alignment requests per tensor, the strictest first, last or in the middle; r carries the strictest
        reqs = [rng.choice([[x[3]], [x[3], 16], [16, x[3]], [16, x[3], 16], [x[3], x[3]], [16, 16, x[3]], [x[3], 16, 16]]) for x in r]
        dcases.append((tag, al, r, rng.sample(range(len(r)), len(r)), mi, lim, None, reqs))
    dbudget = 6 if tier == "quick" else 150
    dimpl = []
    for c in dcases:
        if time.time() - t_d > dbudget or sum(1 for o in dimpl if o["timeout"]) >= 2:
            break
        dimpl.append(run_dispatch_impl(*c))
    dcases = dcases[:len(dimpl)]
    dkind = {1: "linear", 2: "greedy", 3: "hillclimb"}
    for (tag, al, r, nm, mi, lim, _, reqs), o in zip(dcases, dimpl):
        evals += 1
        if len(r) > 1:
            nontrivial += 1
        kind = "allocate(%s, cpu_tensor_alignment=%d)" % (dkind[tag], al)
        extra = {"tensor_allocator": dkind[tag], "cpu_tensor_alignment": al, "hillclimb_max_iterations": mi, "mem_type_size": lim}
        if o["timeout"]:
            bad(kind, r, TIMEOUT_WHY % o["timeout"], extra)
            continue
        if o["err"] is not None:
            bad(kind, r, "the dispatcher raised " + o["err"], extra)
            continue
        ok_addr = all(a is not None for a in o["addr"])
        if o["guard"]:
            why = oracle(dkind[tag], r, o["addr"], max([a + x[2] for a, x in zip(o["addr"], r)] + [0]), gran=al) if ok_addr else None
            bad(kind, r, (why + "; " if why else "") + "Vela's own verification raised: " + o["guard"], dict(extra, addresses=o["addr"]))
            continue
        why = oracle(dkind[tag], r, o["addr"], o["total"], gran=al)       # r[i][3] is the strictest request of range i
        if why and "not a multiple" in why:
            why += " (alignments requested for the ranges, in order: %r)" % (reqs[:12],)
        if not why:
            for i, q in enumerate(reqs):
                if o["get_alignment"][i] % max(q) or o["get_alignment"][i] not in q:
                    why = "LiveRange.get_alignment() of range %d is %r after the requests %r" % (i, o["get_alignment"][i], q)
                    break
        if not why and o["forwarded_alignment"] != al:
            why = "the live-range extraction was asked for alignment %r, requested %d" % (o["forwarded_alignment"], al)
        if why:
            bad(kind, r, why, dict(extra, addresses=o["addr"], total=o["total"]))
    if okx and dcases:
        mo = models.run("allocate", [[tag, al, 1, mi, lim] + flat_lrs(r, nm) + o["stream"]
                                      for (tag, al, r, nm, mi, lim, _, reqs), o in zip(dcases, dimpl)], exe_name="alloc")
        for (tag, al, r, nm, mi, lim, _, reqs), o, m in zip(dcases, dimpl, mo):
            if o["timeout"] or o["guard"] or o["err"] is not None:
                continue
            if tag == 2:
                pos = {nm[i]: i for i in range(len(r))}
                maddr = [None] * len(r)
                for k in range(1, len(m), 2):
                    maddr[pos[m[k]]] = m[k + 1]
                got, want = [m[0]] + maddr, [o["total"]] + o["addr"]
            else:
                got, want = m, [1, o["total"]] + o["addr"]
            if got != want:
                diffs.append(("allocate", r, {"model": got[:50], "impl": want[:50], "tensor_allocator": dkind[tag],
                                              "cpu_tensor_alignment": al, "hillclimb_max_iterations": mi, "mem_type_size": lim}))
    if okx and dcases:
        ra = [c for c, o in zip(dcases, dimpl) if o["request_order"]]
        mo = models.run("range_alignments", [[v for pair in o["request_order"] for v in pair] for o in dimpl if o["request_order"]],
                        exe_name="alloc")
        for c, o, m in zip(ra, [o for o in dimpl if o["request_order"]], mo):
            evals += 1
            want = [v for i, a in enumerate(o["get_alignment"]) for v in (i, a)]
            if m != want:
                diffs.append(("range_alignments", c[2], {"model": m[:40], "impl": want[:40], "requests": c[7][:20]}))
    if len(dimpl) > 7:
        samples.append({"dispatcher": "tensor_allocation.allocate", "tensor_allocator": dkind[dcases[7][0]],
                        "cpu_tensor_alignment": dcases[7][1], "ranges": dcases[7][2][:8], "addresses": dimpl[7]["addr"][:8],
                        "total": dimpl[7]["total"]})
    phase["dispatcher"] = round(time.time() - t_d, 1)
    res.cov.update({
        "phase_seconds": phase,
        "evaluations": evals, "distinct_nontrivial": nontrivial,
        "rule": "range sets with at least two ranges alive at a common time step (Greedy, HillClimb); Linear: at least two entries; "
                "every case: real allocator vs extracted model (addresses, total, number of randint draws) and the property oracle on "
                "the implementation's result",
        "input_distribution": dict(cases["dist"], linear_cases=len(lcases), hillclimb_cases_run=len(hcases), dispatcher_cases_run=len(dcases),
                                   dispatcher_parameters="tensor_allocator in {LinearAlloc, Greedy, HillClimb} x cpu_tensor_alignment in "
                                                         "{16,32,64,128,256}, range alignments 16 or the requested one",
                                   hillclimb_search_passes=iters_seen,
                                   hillclimb_parameters="max_iterations in {None,0,1,7,100,600,1500} x memory_limit in {0,peak,peak+16,2^32}; "
                                                        "every third case with an adversarial randint stream"),
        "samples": samples,
        "model_vs_impl_differences": len(diffs),
        "greedy_overlaps_in_zero_size_stream(outside hypothesis 0<size)": zero_overlaps,
        "hillclimb_randint_errors": len(known_p8),
        "implementation_calls_over_time_limit": len(timeouts),
        "per_call_cpu_limit_s": _limit[0],
    })
    res.assumptions += ["sizes and times are Python ints; HillClimb: 0 <= start_time, 0 <= size, 0 < alignment and "
                        "sum(size + alignment) <= 2^63 (the initial pass cannot exceed best_size = 1 << 63)",
                        "Greedy: 0 < size (Tensor.storage_size() never returns 0; greedy_zero_size_refuted otherwise), 0 < alignment",
                        "Linear: 0 < granularity, 0 <= size, tensors declared equivalent have equal sizes",
                        "total == highest end address is read in each allocator's end-of-buffer convention (DESIGN.md C05): Greedy "
                        "and Linear pad the last buffer to its alignment, HillClimb does not"]

    # defect P8 (randint on an empty range) was repaired in /repo; any exception of the allocator is a violation again
    for key, detail in known_p8[:1]:
        res.violation(key, detail, "HillClimbAllocator raised %s (attempt_bottleneck_fix: random.randint on an empty range was "
                                   "defect P8, repaired by max(len(turn_list) - 2, 0)); hillclimb_terminates says every run "
                                   "ends with addresses" % ("ValueError from random.randint" if detail["error"] == 1 else detail["error"]))

    def search():
        return first_bad[0] if first_bad else None

    for k, d, w in timeouts[:1]:
        res.violation(k, d, w)
    if first_bad:
        for k, d, w in first_bad[:1]:
            res.violation(k, d, w)
    elif timeouts:
        pass
    elif not b["ok"]:
        vlib.report_broken_build(res, b, search)
    elif diffs or not okx:
        kind, r, d = diffs[0] if diffs else ("extraction", [], {"log": xlog[-800:]})
        res.violation({"correspondence": kind, "ranges": str(r)[:300]}, dict(d, ranges=r, extraction_ok=okx, differences=len(diffs)),
                      "correspondence of model/Alloc.v (%s) with the real allocator no longer holds" % kind, no_input=True)
    return res.finish()
