"""C16 -- operators within the documented constraints are accelerated, others stay on the CPU.

Proof side (coq/props/C16.v): the numeric constraint predicates, translated from the source on every run
(tools/constraints2gallina.py -> coq/gen/GenConstraints.v), equal the documented readings for all integer arguments;
the report lists exactly what the two drivers evaluate; the driver is the conjunction of its list.
This module: (a) correspondence of every translated predicate with the REAL constraint method on real Operation objects
(value grids spanning each bound and random values) and of the documented reading with the real method; (b) the generated
report against the live constraint lists; (c) placement of boundary networks by real compilations."""
import collections
import contextlib
import hashlib
import io
import json
import os
import random
import re
import sys
import tempfile

import numpy as np

import compiles
import models
import netgen as ng
import tflsum
import vlib

WANTED = None  # filled from tools/constraints2gallina.py


def wanted():
    global WANTED
    if WANTED is None:
        import constraints2gallina
        WANTED = list(constraints2gallina.WANTED)
    return WANTED


# ------------------------------------------------------------------------------------------------------------------
# (a) correspondence: parameters of an operator (the accessor table of the translator) and real operators
PDEF = dict(stride_w=1, stride_h=1, kernel_w=1, kernel_h=1, dilation_w=1, dilation_h=1, padding=-1, depth_multiplier=1,
            ifm_shape=[], ifm2_shape=[], ofm_shape=[], in0_shape=[], axis=[], has_ifm=0, has_ifm2=0, has_bias=0,
            bias_is_int64=0, bias_has_values=0, bias_values=[], weights_sum_max=0, ifm_is_int16=0, ifm_is_uint8=0,
            align_corners=0, half_pixel_centers=0, tensor_shapes=[])


def flat(fn, p):
    q = dict(PDEF)
    q.update(p)
    a = [fn, q["stride_w"], q["stride_h"], q["kernel_w"], q["kernel_h"], q["dilation_w"], q["dilation_h"], q["padding"],
         q["depth_multiplier"]]
    for k in ("ifm_shape", "ifm2_shape", "ofm_shape", "in0_shape", "axis"):
        a += [len(q[k])] + list(q[k])
    a += [q["has_ifm"], q["has_ifm2"], q["has_bias"], q["bias_is_int64"], q["bias_has_values"]]
    a += [len(q["bias_values"])] + list(q["bias_values"])
    a += [q["weights_sum_max"], q["ifm_is_int16"], q["ifm_is_uint8"], q["align_corners"], q["half_pixel_centers"]]
    a += [len(q["tensor_shapes"])]
    for s in q["tensor_shapes"]:
        a += [len(s)] + list(s)
    return [int(x) for x in a]


def around(*bounds, lo=-2, hi=2):
    out = []
    for b in bounds:
        for d in range(lo, hi + 1):
            if b + d not in out:
                out.append(b + d)
    return out


class Ops:
    """real Operation objects built with ethosu/vela/test/testutil.py; shapes hold np.int32 like the reader's"""

    def __init__(self):
        from ethosu.vela.test import testutil
        from ethosu.vela.data_type import DataType
        from ethosu.vela.operation import Op, Padding
        from ethosu.vela.tensor import Tensor, create_const_tensor, QuantizationParameters
        self.tu, self.DataType, self.Op, self.Padding, self.Tensor = testutil, DataType, Op, Padding, Tensor
        self.cct, self.QP = create_const_tensor, QuantizationParameters

    def shp(self, s):
        return [np.int32(x) for x in s]

    def tens(self, shape, dtype=None, name="t"):
        t = self.Tensor(self.shp(shape), dtype or self.DataType.int8, name)
        t.quantization = self.tu.default_quant_params()
        return t

    def pad(self, code):
        return {0: self.Padding.SAME, 1: self.Padding.VALID}[code]

    def conv(self, kind, ifm, ofm, k, s=(1, 1), d=(1, 1), padding=0, wvalues=None, wzp=0, wdtype=None, bias=None, bias_dtype=None,
             depth_multiplier=None, use_strides_tuple=True):
        """kind: Op member; k,s,d = (h, w). weights are HWIO; values only when given (big shapes stay unallocated)"""
        Op = self.Op
        from ethosu.vela.operation import Operation
        op = Operation(kind, "op")
        x = self.tens(ifm, name="ifm")
        y = self.tens(ofm, name="ofm")
        wshape = [k[0], k[1], 1, 1]
        if wvalues is not None:
            wshape = list(np.shape(wvalues))
            q = self.tu.default_quant_params()
            q.zero_point = wzp
            w = self.cct("weights", wshape, wdtype or self.DataType.int8, np.asarray(wvalues), quantization=q)
        else:
            w = self.tens(wshape, wdtype or self.DataType.int8, "weights")
        b = None
        if bias is not None:
            if bias == "novalues":
                b = self.tens([1], bias_dtype or self.DataType.int64, "bias")
            else:
                b = self.cct("bias", [len(bias)], bias_dtype or self.DataType.int64, np.asarray(bias, dtype=np.int64 if (bias_dtype or self.DataType.int64) == self.DataType.int64 else np.int32))
        if kind == Op.Conv2DBackpropInput:
            osh = self.cct("oshape", [4], self.DataType.int32, np.asarray(ofm, dtype=np.int32))
            ins = [osh, w, x, b]
        else:
            ins = [x, w, b]
        for t in ins:
            if t is not None:
                op.add_input_tensor(t)
            else:
                op.inputs.append(None)
        op.set_output_tensor(y)
        op.attrs = {"stride_w": s[1], "stride_h": s[0], "dilation_w_factor": d[1], "dilation_h_factor": d[0]}
        if use_strides_tuple:
            op.attrs["strides"] = (1, s[0], s[1], 1)
            op.attrs["dilation"] = (1, d[0], d[1], 1)
        if padding is not None and padding >= 0:
            op.attrs["padding"] = self.pad(padding)
        if depth_multiplier is not None:
            op.attrs["depth_multiplier"] = depth_multiplier
        return op

    def pool(self, kind, ifm, ofm, k, s, padding, ksize_form=True):
        from ethosu.vela.operation import Operation
        op = Operation(kind, "op")
        op.add_input_tensor(self.tens(ifm, name="ifm"))
        op.set_output_tensor(self.tens(ofm, name="ofm"))
        op.attrs = {"stride_w": s[1], "stride_h": s[0], "filter_width": k[1], "filter_height": k[0]}
        if ksize_form:
            op.attrs["ksize"] = (1, k[0], k[1], 1)
            op.attrs["strides"] = (1, s[0], s[1], 1)
        if padding is not None and padding >= 0:
            op.attrs["padding"] = self.pad(padding)
        return op

    def elem(self, kind, ifm, ifm2, ofm, dtype=None):
        from ethosu.vela.operation import Operation
        op = Operation(kind, "op")
        op.add_input_tensor(self.tens(ifm, dtype, "ifm"))
        if ifm2 is not None:
            op.add_input_tensor(self.tens(ifm2, dtype, "ifm2"))
        op.set_output_tensor(self.tens(ofm, dtype, "ofm"))
        return op

    def resize(self, kind, ifm, ofm, align, half):
        from ethosu.vela.operation import Operation
        op = Operation(kind, "op")
        op.add_input_tensor(self.tens(ifm, name="ifm"))
        op.add_input_tensor(self.cct("size", [2], self.DataType.int32, np.asarray(list(ofm[1:3]) if len(ofm) >= 3 else [1, 1], dtype=np.int32)))
        op.set_output_tensor(self.tens(ofm, name="ofm"))
        op.attrs = {"align_corners": bool(align), "half_pixel_centers": bool(half)}
        return op

    def mean(self, shape, axis, dtype=None, scalar_axis=False, kind=None):
        from ethosu.vela.operation import Operation
        op = Operation(kind or self.Op.Mean, "op")
        op.add_input_tensor(self.tens(shape, dtype, "ifm"))
        if scalar_axis:
            op.add_input_tensor(self.cct("axis", [], self.DataType.int32, np.int32(axis[0])))
        else:
            op.add_input_tensor(self.cct("axis", [len(axis)], self.DataType.int32, np.asarray(axis, dtype=np.int32)))
        op.set_output_tensor(self.tens([1], dtype, "ofm"))
        return op


def corr_cases(tier, rng):
    """[(fn index, params, thunk building the real op, real method name)] over grids spanning each bound + random"""
    W = wanted()
    ix = {n: i for i, n in enumerate(W)}
    o = Ops()
    Op, DT = o.Op, o.DataType
    cases = []

    def add(name, p, mk):
        cases.append((ix[name], p, mk, name))
    nrand = 40 if tier == "quick" else 600
    # --- tens_dimension: shapes of ifm, ifm2, weights, ofm
    dims = around(1, 65535) + [100, 7]
    for dval in dims + [rng.choice([0, 1, 2, 65534, 65535, 65536, rng.randrange(1, 70000)]) for _ in range(nrand // 4)]:
        for where in range(3):
            shapes = [[1, 4, 4, 8], [1, 4, 4, 8], [1, 4, 4, 8]]
            shapes[where][rng.randrange(4)] = dval
            add("constraint_tens_dimension", dict(tensor_shapes=shapes),
                lambda s=shapes: o.elem(Op.Add, s[0], s[1], s[2]))
        wk = [dval if dval > 0 else 1, 3]
        add("constraint_tens_dimension", dict(tensor_shapes=[[1, 4, 4, 1], [wk[0], wk[1], 1, 1], [1, 4, 4, 1]]),
            lambda wk=wk: o.conv(Op.Conv2DBias, [1, 4, 4, 1], [1, 4, 4, 1], wk))
    add("constraint_tens_dimension", dict(tensor_shapes=[[], [3]]), lambda: o.elem(Op.Abs, [], None, [3]))
    # --- strides
    svals = around(1, 3) + [7, 100]
    for sw in svals:
        for sh in svals:
            add("constraint_stride_range", dict(stride_w=sw, stride_h=sh),
                lambda sw=sw, sh=sh: o.pool(Op.MaxPool, [1, 8, 8, 2], [1, 4, 4, 2], (2, 2), (max(sh, 1) if sh < 1 else sh, sw) if False else (sh, sw), 1))
            add("constraint_depthwise_conv_stride", dict(stride_w=sw, stride_h=sh),
                lambda sw=sw, sh=sh: o.conv(Op.DepthwiseConv2DBias, [1, 8, 8, 2], [1, 4, 4, 2], (3, 3), (sh, sw), use_strides_tuple=(sw + sh) % 2 == 0))
    # --- dilated kernel
    for kh, dh in [(k, 1) for k in around(1, 64)] + [(32, 2), (33, 2), (22, 3), (23, 3), (2, 63), (2, 64), (1, 500)] + \
                  [(rng.randrange(1, 70), rng.randrange(1, 4)) for _ in range(nrand // 2)]:
        add("constraint_dilated_height_range", dict(kernel_h=kh, dilation_h=dh),
            lambda kh=kh, dh=dh: o.conv(Op.Conv2DBias, [1, 8, 8, 1], [1, 8, 8, 1], (kh, 1), d=(dh, 1)))
    for kw, kh, dw, dh in [(64, 64, 1, 1), (64, 65, 1, 1), (65, 63, 1, 1), (1, 1, 1, 1), (4096, 1, 1, 1), (4097, 1, 1, 1), (32, 32, 2, 2), (33, 32, 2, 2),
                           (2049, 2, 1, 1), (2048, 2, 1, 1), (1366, 3, 1, 1), (1365, 3, 1, 1)] + \
                          [(rng.randrange(1, 80), rng.randrange(1, 80), rng.randrange(1, 3), rng.randrange(1, 3)) for _ in range(nrand)]:
        add("constraint_dilated_product_range", dict(kernel_w=kw, kernel_h=kh, dilation_w=dw, dilation_h=dh),
            lambda kw=kw, kh=kh, dw=dw, dh=dh: o.conv(Op.Conv2DBias, [1, 8, 8, 1], [1, 8, 8, 1], (kh, kw), d=(dh, dw)))
    # --- weights limit: HWIO values, per output channel sum of |w - zero_point|
    lim = 127 * 65536
    for fill, zp, extra in [(127, 0, 0), (127, 0, 1), (127, -1, 0), (-128, 0, 0), (126, 0, 0), (127, 0, -1), (1, 0, 0), (0, 0, 0), (255, 128, 0)]:
        h, w_, ic, oc = 64, 64, 16, 2
        vals = np.full((h, w_, ic, oc), fill, dtype=np.int64)
        vals[:, :, :, 1] = 3
        vals[0, 0, 0, 0] = fill + extra if -128 <= fill + extra <= 255 else fill
        dt = DT.uint8 if fill > 127 else DT.int8
        sums = [int(sum(abs(int(v) - zp) for v in vals[:, :, :, c].flatten().tolist())) for c in range(oc)]
        add("constraint_weights_limit", dict(weights_sum_max=max(sums)),
            lambda vals=vals, zp=zp, dt=dt: o.conv(Op.Conv2DBias, [1, 64, 64, 16], [1, 64, 64, 2], (64, 64), wvalues=vals.astype(np.uint8 if dt == DT.uint8 else np.int8), wzp=zp, wdtype=dt))
    for _ in range(nrand // 4):
        shape = (rng.randrange(1, 4), rng.randrange(1, 4), rng.randrange(1, 5), rng.randrange(1, 4))
        vals = np.random.RandomState(rng.getrandbits(31)).randint(-128, 128, shape)
        zp = rng.choice([0, 0, 5, -7])
        sums = [int(sum(abs(int(v) - zp) for v in vals[:, :, :, c].flatten().tolist())) for c in range(shape[3])]
        add("constraint_weights_limit", dict(weights_sum_max=max(sums)),
            lambda vals=vals, zp=zp: o.conv(Op.Conv2DBias, [1, 8, 8, vals.shape[2]], [1, 8, 8, vals.shape[3]], vals.shape[:2], wvalues=vals.astype(np.int8), wzp=zp))
    # --- bias 40 bit
    bvals = around(2 ** 39, -2 ** 39, 2 ** 40, -2 ** 40, 0) + [2 ** 62, -2 ** 62, 2 ** 63 - 1, -2 ** 63, 12345, -1]
    for v in bvals + [rng.randrange(-2 ** 41, 2 ** 41) for _ in range(nrand)]:
        bl = [0, v, -3] if v % 2 else [v]
        add("constraint_bias_40bit", dict(has_bias=1, bias_is_int64=1, bias_has_values=1, bias_values=bl),
            lambda bl=bl: o.conv(Op.Conv2DBias, [1, 8, 8, 1], [1, 8, 8, len(bl)], (1, 1), bias=bl))
    add("constraint_bias_40bit", dict(has_bias=0), lambda: o.conv(Op.Conv2DBias, [1, 8, 8, 1], [1, 8, 8, 1], (1, 1)))
    add("constraint_bias_40bit", dict(has_bias=1, bias_is_int64=0, bias_has_values=1, bias_values=[2 ** 31 - 1]),
        lambda: o.conv(Op.Conv2DBias, [1, 8, 8, 1], [1, 8, 8, 1], (1, 1), bias=[2 ** 31 - 1], bias_dtype=DT.int32))
    add("constraint_bias_40bit", dict(has_bias=1, bias_is_int64=1, bias_has_values=0),
        lambda: o.conv(Op.Conv2DBias, [1, 8, 8, 1], [1, 8, 8, 1], (1, 1), bias="novalues"))
    # --- batch size
    for s1 in [[1, 4, 4, 2], [2, 4, 4, 2], [0, 4, 4, 2], [4, 4, 2], [3, 3], [7], [], [1, 1, 4, 4, 2], [2, 1, 4, 4, 2], [3, 1, 1, 1]]:
        for s2 in [None, [1, 4, 4, 2], [2, 4, 4, 2], [5], [1, 1, 1, 1], [4, 1, 1, 1]]:
            add("constraint_batch_size", dict(ifm_shape=s1, ifm2_shape=s2 or [], has_ifm=1, has_ifm2=int(s2 is not None)),
                lambda s1=s1, s2=s2: o.elem(Op.Add if s2 is not None else Op.Abs, s1, s2, s1))
    # --- depth multiplier
    for dm in [0, 1, 2, 3, 8]:
        for ic in [1, 2]:
            for oc in [dm, dm + 1, 1, 2 * dm]:
                add("constraint_depth_multiplier", dict(depth_multiplier=dm, ifm_shape=[1, 8, 8, ic], ofm_shape=[1, 8, 8, oc]),
                    lambda dm=dm, ic=ic, oc=oc: o.conv(Op.DepthwiseConv2DBias, [1, 8, 8, ic], [1, 8, 8, oc], (3, 3), depth_multiplier=dm))
    add("constraint_depth_multiplier", dict(depth_multiplier=1, ifm_shape=[1, 8, 8, 3], ofm_shape=[1, 8, 8, 3]),
        lambda: o.conv(Op.DepthwiseConv2DBias, [1, 8, 8, 3], [1, 8, 8, 3], (3, 3)))   # attribute absent
    # --- conv / avgpool strides with the width-folding rule
    scases = []
    for sw in list(range(1, 13)) + [14, 15, 16, 21, 25, 49]:
        for iw in [1, 2, 3, 4, 6, 7, 8, 9, 10, 12, 14, 15, 16, 18, 21, 25, 49, 133]:
            scases.append((sw, rng.choice([1, 2, 3, 4]), iw, rng.choice([1, 5]), rng.choice([1, 1, 6])))
    for sh in around(1, 3):
        for oh in [1, 2]:
            scases.append((2, sh, 8, oh, 4))
    scases += [(rng.randrange(1, 40), rng.randrange(1, 6), rng.randrange(1, 200), rng.choice([1, 2, 9]), rng.choice([1, 2, 9])) for _ in range(nrand * 3)]
    for sw, sh, iw, oh, ow in scases:
        ifm, ofm = [1, 9, iw, 2], [1, oh, ow, 2]
        add("constraint_stride_width_no_upper_limit", dict(stride_w=sw, stride_h=sh, ifm_shape=ifm, ofm_shape=ofm),
            lambda sw=sw, sh=sh, ifm=ifm, ofm=ofm: o.conv(Op.Conv2DBias, ifm, ofm, (3, 3), (sh, sw)))
        pad = rng.choice([-1, 0, 1])
        add("constraint_stride_range_no_padding", dict(stride_w=sw, stride_h=sh, padding=pad, ifm_shape=ifm, ofm_shape=ofm),
            lambda sw=sw, sh=sh, ifm=ifm, ofm=ofm, pad=pad: o.pool(Op.AvgPool, ifm, ofm, (2, 2), (sh, sw), pad))
    # --- transpose conv
    for sw in [1, 2, 3]:
        for sh in [1, 2, 3]:
            for kh in [1, 2, 3]:
                for ih in [1, 2]:
                    ifm = [1, ih, 4, 2]
                    add("constraint_tconv_stride", dict(stride_w=sw, stride_h=sh, kernel_h=kh, ifm_shape=ifm),
                        lambda sw=sw, sh=sh, kh=kh, ifm=ifm: o.conv(Op.Conv2DBackpropInput, ifm, [1, ifm[1] * sh, 4 * sw, 2], (kh, 3), (sh, sw)))
                    for pad in [0, 1]:
                        for dh, dw in [(0, 0), (1, 0), (0, -1), (max(kh - sh, 0), max(3 - sw, 0)), (kh - sh, 3 - sw)]:
                            ofm = [1, ih * sh + dh, 4 * sw + dw, 2]
                            pp = dict(stride_w=sw, stride_h=sh, kernel_w=3, kernel_h=kh, padding=pad, ifm_shape=ifm, ofm_shape=ofm)
                            mk = lambda sw=sw, sh=sh, kh=kh, ifm=ifm, ofm=ofm, pad=pad: o.conv(Op.Conv2DBackpropInput, ifm, ofm, (kh, 3), (sh, sw), padding=pad)
                            add("constraint_tconv_same", pp, mk)
                            add("constraint_tconv_valid", pp, mk)
    # --- pooling filters
    for kw, kh in [(a, b) for a in around(1, 8) for b in around(1, 8)] + [(1, k) for k in around(256)] + [(256, 256), (256, 257), (257, 255), (65536, 1), (65537, 1), (1, 65537)] + \
                  [(rng.randrange(1, 300), rng.randrange(1, 300)) for _ in range(nrand)]:
        for pad in [0, 1]:
            sw = rng.choice([1, 2, kw if kw > 0 else 1])
            pp = dict(stride_w=sw, stride_h=1, kernel_w=kw, kernel_h=kh, padding=pad)
            form = rng.random() < 0.5
            mk = lambda kw=kw, kh=kh, pad=pad, sw=sw, form=form: o.pool(Op.AvgPool, [1, 8, 8, 2], [1, 8, 8, 2], (kh, kw), (1, sw), pad, ksize_form=form)
            for nme in ("constraint_filter_range", "constraint_filter_height_range", "constraint_filter_product_range",
                        "constraint_filter_height_range_valid_pad", "constraint_filter_product_range_valid_pad"):
                add(nme, pp, mk)
    # --- resize
    rcases = []
    for ih, iw in [(1, 1), (1, 4), (4, 1), (4, 4), (3, 5), (2, 2)]:
        for f in [1, 2, 3, 4, 8, 16]:
            for al in [0, 1]:
                for hp in [0, 1]:
                    rcases.append(([1, ih, iw, 2], [1, ih * f, iw * f, 2], al, hp))
                    rcases.append(([1, ih, iw, 2], [1, (ih - 1) * f + 1, (iw - 1) * f + 1, 2], al, hp))
                    rcases.append(([1, ih, iw, 2], [1, ih * f, iw * 2, 2], al, hp))
    rcases += [([4, 4, 2], [8, 8, 2], 0, 1), ([4, 2], [8, 2], 0, 1), ([4, 4, 2], [8, 8, 2], 0, 0), ([1, 1, 4, 4, 2], [1, 1, 8, 8, 2], 0, 0)]
    for _ in range(nrand * 2):
        ih, iw = rng.randrange(1, 6), rng.randrange(1, 6)
        rcases.append(([1, ih, iw, 1], [1, rng.choice([ih, 2 * ih, 2 * ih - 1, 4 * ih, rng.randrange(1, 30)]), rng.choice([iw, 2 * iw, 2 * iw - 1, 4 * iw, rng.randrange(1, 30)]), 1],
                       rng.randrange(2), rng.randrange(2)))
    for ifm, ofm, al, hp in rcases:
        pp = dict(ifm_shape=ifm, ofm_shape=ofm, align_corners=al, half_pixel_centers=hp)
        mk = lambda ifm=ifm, ofm=ofm, al=al, hp=hp: o.resize(Op.ResizeBilinear, ifm, ofm, al, hp)
        if len(ifm) >= 3:
            add("constraint_resize", pp, mk)
        add("constraint_resizebi_half_pixel_centers_dims", pp, mk)
    # --- mean
    mcases = []
    for shape, axis in [([1, 8, 8, 4], [1, 2]), ([1, 256, 256, 1], [1, 2]), ([1, 256, 257, 1], [1, 2]), ([1, 4096, 2048, 1], [1, 2]), ([1, 4096, 2049, 1], [1, 2]),
                        ([1, 4096, 4096, 1], [1, 2]), ([1, 4097, 4096, 1], [1, 2]), ([1, 4, 4096, 2], [1]), ([1, 4, 4097, 2], [1]), ([1, 4, 4097, 2], [2]),
                        ([1, 1, 4, 4096], [3]), ([1, 1, 4, 4097], [3]), ([1, 4, 4, 4097], [1, 2]), ([8, 4097], [0]), ([8, 4096], [1]), ([4, 4097, 3], [0]), ([4, 4, 4097], [2]),
                        ([4, 4, 4097], [-1]), ([1, 4, 4, 8], [3]), ([1, 4, 4, 8], [1, 2, 3]), ([1, 65535, 65535, 1], [1, 2]), ([1, 3, 5, 7], [])]:
        for dt in ("int8", "uint8", "int16", "int32"):
            mcases.append((shape, axis, dt, False))
    mcases += [([1, 300, 4, 2], [1], "int16", True), ([1, 4, 4, 5000], [3], "int8", True)]
    for _ in range(nrand):
        r = rng.choice([2, 3, 4])
        shape = [rng.choice([1, 2, 64, 4096, 4097, rng.randrange(1, 300)]) for _ in range(r)]
        axis = rng.sample(range(r), rng.randrange(1, r + 1))
        mcases.append((shape, axis, rng.choice(["int8", "uint8", "int16"]), False))
    for shape, axis, dt, scalar in mcases:
        pp = dict(in0_shape=shape, axis=axis, ifm_is_int16=int(dt == "int16"), ifm_is_uint8=int(dt == "uint8"))
        mk = lambda shape=shape, axis=axis, dt=dt, scalar=scalar: o.mean(shape, axis, getattr(DT, dt), scalar)
        add("constraint_mean_height_width_product", pp, mk)
        if len(shape) >= 2:
            add("constraint_mean_width", pp, mk)
        if len(shape) >= 1:
            add("constraint_mean_depth", pp, mk)
    for d in around(127) + [1, 1000]:
        for shape in ([1, 4, 4, d], [4, d], [d]):
            add("constraint_argmax_depth", dict(in0_shape=shape), lambda shape=shape: o.mean(shape, [len(shape) - 1], None, True, kind=Op.ArgMax))
    return cases


LSTM_METHODS = [("sup", "constraint_lstm_no_cifg"), ("sup", "constraint_lstm_no_peep_hole"), ("sup", "constraint_lstm_no_projection"),
                ("sup", "constraint_lstm_no_normalisation"), ("sup", "constraint_lstm_weights"), ("sup", "constraint_lstm_weight_dimensions"),
                ("sem", "constraint_lstm_dimensions"), ("sem", "constraint_lstm_inputs"), ("sem", "constraint_lstm_intermediates"),
                ("sem", "constraint_lstm_variables")]


def lstm_correspondence(tier, rng, okx):
    """hand model of the LSTM constraints (coq/model/Constraints.v, CMD lstm) against the real methods on real operators built
    with testutil.create_lstm_op and then modified; returns (differences, cases, documented-vs-enforced differences)"""
    from ethosu.vela.test import testutil
    from ethosu.vela.data_type import DataType
    from ethosu.vela.tensor import Tensor
    from ethosu.vela.tflite_model_semantic import TFLiteSemantic
    from ethosu.vela.tflite_supported_operators import TFLiteSupportedOperators
    cls = {"sem": TFLiteSemantic, "sup": TFLiteSupportedOperators}

    def fresh():
        op = testutil.create_lstm_op(2, 3, 8, 8, DataType.int8)
        # create_lstm_op shares one weight / bias tensor between positions: give every position its own object
        for k, t in enumerate(op.inputs):
            if t is not None and k not in (0, 18, 19):
                c = t.clone("_%d" % k)
                c.values = t.values
                op.inputs[k] = c
        return op

    muts = [[]]
    for k in range(1, 24):
        muts.append([("none", k)])
    muts += [[("none", 1), ("none", 5)], [("none", 1), ("none", 5), ("none", 12)], [("none", 2), ("none", 1), ("none", 5)]]
    for k in (9, 10, 11, 16, 17, 20, 21, 22, 23):
        muts.append([("tensor", k)])
    for k in (5, 6, 7, 8, 1):
        for r in (1, 3, 4):
            muts.append([("rank", k, r)])
    muts += [[("len", n)] for n in (0, 5, 19, 20, 23, 25, 30)] + [[("inter", n)] for n in (0, 4, 6)]
    muts += [[("var", 18, False)], [("var", 19, False)], [("var", 18, False), ("var", 19, False)]]
    muts += [[("ifm_rank", r)] for r in (2, 4)] + [[("ofm_rank", r)] for r in (2, 4)] + [[("ifm_rank", 2), ("ofm_rank", 2)]]
    for _ in range(150 if tier == "quick" else 1500):
        m = []
        for k in range(1, 24):
            if k in (18, 19):
                continue
            present_now = k in range(1, 9) or k in range(12, 16)
            if rng.random() < 0.12:
                m.append(("none", k) if present_now else ("tensor", k))
        if rng.random() < 0.2:
            m.append(("rank", rng.choice([5, 6, 7, 8]), rng.choice([1, 3])))
        muts.append(m)
    cases, real = [], []
    for m in muts:
        op = fresh()
        for a in m:
            if a[0] == "none":
                op.inputs[a[1]] = None
            elif a[0] == "tensor":
                op.inputs[a[1]] = Tensor([8], DataType.int16, "extra%d" % a[1])
            elif a[0] == "rank" and op.inputs[a[1]] is not None:
                op.inputs[a[1]].shape = [2] * a[2]
            elif a[0] == "len":
                op.inputs = (op.inputs + [None] * 8)[:a[1]]
            elif a[0] == "inter":
                op.intermediates = (op.intermediates + op.intermediates)[:a[1]]
            elif a[0] == "var":
                op.inputs[a[1]].is_variable = a[2]
            elif a[0] == "ifm_rank":
                op.inputs[0].shape = [2] * a[1]
            elif a[0] == "ofm_rank":
                op.outputs[0].shape = [2] * a[1]
        ins = op.inputs
        present = [0 if t is None else 1 for t in ins]
        ranks = [-1 if t is None else len(t.shape) for t in ins]
        var = [-1 if t is None else int(bool(t.is_variable)) for t in ins]
        flat_case = [len(present)] + present + [len(ranks)] + ranks + [len(var)] + var + [len(op.ifm.shape) if op.ifm is not None else -1, len(op.ofm.shape), len(ins), len(op.intermediates)]
        vals = []
        for tag, nm in LSTM_METHODS:
            try:
                vals.append(1 if getattr(cls[tag], nm)(op)[0] else 0)
            except (AttributeError, TypeError):
                vals.append(2)
            except IndexError:
                vals.append(3)
        cases.append((m, flat_case, len(ins)))
        real.append(vals)
    diffs, doc = [], []
    if okx:
        outs = models.run_parallel("lstm", [c[1] for c in cases], exe_name="constraints")
        for (m, fc, n_in), rv, o in zip(cases, real, outs):
            for k, (tag, nm) in enumerate(LSTM_METHODS):
                if k < 6 and n_in != 24:
                    continue          # the supported-operator methods are only reached with 24 inputs
                if k == 9 and n_in < 20 and rv[k] != 2:
                    continue          # fewer than 20 inputs: the slice is short, nothing is claimed
                if k == 6 and n_in == 0:
                    continue          # no IFM at all
                if o[k] != rv[k]:
                    diffs.append(dict(constraint=nm, params=dict(modifications=m), model=o[k], real=rv[k]))
            if n_in == 24:
                # the drivers' decision in their evaluation order vs the documented reading
                enforced = 1
                for k in range(6):
                    if rv[k] != 1:
                        enforced = 0 if rv[k] == 0 else 2
                        break
                if enforced != o[10] or (enforced in (0, 1) and enforced != o[11]):
                    doc.append(dict(constraint="constraint_lstm_*", params=dict(modifications=m), enforced=enforced, model=o[10], documented=o[11]))
    return diffs, len(cases), doc


def run_correspondence(res, tier, rng, okx):
    """returns (model_diffs, doc_diffs, stats): model vs real method, documented reading vs real method"""
    from ethosu.vela.tflite_supported_operators import TFLiteSupportedOperators as TSO
    from ethosu.vela import utils as vutils
    W = wanted()
    cases = corr_cases(tier, rng)
    real = []
    for fn, p, mk, name in cases:
        try:
            op = mk()
        except Exception as ex:  # building the operator is not what is under test
            real.append(("build", repr(ex)))
            continue
        try:
            with contextlib.redirect_stdout(io.StringIO()), np.errstate(all="ignore"):
                import warnings
                with warnings.catch_warnings():
                    warnings.simplefilter("ignore")
                    v = getattr(TSO, name)(op)[0]
            real.append(("ok", 1 if v else 0))
        except Exception as ex:
            real.append(("raise", type(ex).__name__))
    outs = models.run_parallel("pred", [flat(fn, p) for fn, p, _, _ in cases], exe_name="constraints") if okx else [None] * len(cases)
    model_diffs, doc_diffs = [], collections.OrderedDict()
    per = collections.Counter()
    nontrivial = set()
    builds = 0
    for (fn, p, mk, name), r, o in zip(cases, real, outs):
        if r[0] == "build":
            builds += 1
            continue
        rv = r[1] if r[0] == "ok" else 2
        per[name] += 1
        nontrivial.add((name, rv, json.dumps(p, sort_keys=True)[:200]))
        if o is None:
            continue
        if o[0] != rv:
            model_diffs.append(dict(constraint=name, params=p, model=o[0], real=rv, exc=r[1] if r[0] == "raise" else None))
        nice = all(v >= 1 for k, v in p.items() if isinstance(v, int) and k.startswith(("kernel", "stride", "dilation")))
        if len(o) > 1 and o[1] in (0, 1) and rv in (0, 1) and o[1] != rv and (name not in doc_diffs or (nice and not doc_diffs[name]["nice"])):
            doc_diffs[name] = dict(constraint=name, params=p, documented=o[1], real=rv, nice=nice)
        elif rv == 2 and name not in doc_diffs:
            doc_diffs[name] = dict(constraint=name, params=p, documented=(o[1] if len(o) > 1 else None), real="raises " + str(r[1]), nice=nice)
    # helper: calc_resize_factor
    hc = [(w, s) for w in list(range(1, 60)) + [133, 200, 1024] for s in range(2, 41)]
    hreal = [list(int(x) for x in vutils.calc_resize_factor(np.int32(w), s)) for w, s in hc]
    if okx:
        hm = models.run_parallel("helpers", [[w, s] for w, s in hc], exe_name="constraints")
        for (w, s), a, b in zip(hc, hreal, hm):
            if a != b:
                model_diffs.append(dict(constraint="calc_resize_factor", params=dict(ifm_width=w, stride_x=s), model=b, real=a))
    ldiffs, lcases, ldoc = lstm_correspondence(tier, rng, okx)
    model_diffs += ldiffs
    for d in ldoc[:1]:
        doc_diffs["constraint_lstm_supported"] = dict(constraint="constraint_lstm_supported", params=d["params"], documented=d["documented"],
                                                      real=d["enforced"], nice=True)
    per["lstm (10 methods per case)"] = lcases
    stats = dict(cases=len(cases) + len(hc) + lcases, per_constraint=dict(per), distinct=len(nontrivial) + lcases, unbuildable_cases=builds,
                 raises=sum(1 for r in real if r[0] == "raise"))
    return model_diffs, doc_diffs, stats


# ------------------------------------------------------------------------------------------------------------------
# (b) the generated report against the live constraint lists
def live_lists():
    """per internal Op: (semantic constraints, supported-operator constraints) the drivers evaluate, from the live lists"""
    from ethosu.vela.operation import Op
    from ethosu.vela.tflite_model_semantic import TFLiteSemantic
    from ethosu.vela.tflite_supported_operators import TFLiteSupportedOperators
    sem, sup = TFLiteSemantic(), TFLiteSupportedOperators()
    excl = TFLiteSemantic.get_generic_constraint_exclude_list()
    out = {}
    for o in Op:
        ex = excl.get(o, [])
        sg = [c for c in sem.generic_constraints if c not in ex]
        exs = sup.generic_constraints_exceptions.get(o, [])
        ug = [c for c in sup.generic_constraints if c not in exs]
        out[o] = (sg, list(sem.specific_constraints.get(o, [])), ug, list(sup.specific_constraints.get(o, [])))
    return out, TFLiteSupportedOperators.supported_operators


_report_cache = {}


def generated_report():
    """runs the real generate_supported_ops in a scratch directory; returns (markdown text, parsed)"""
    if "r" not in _report_cache:
        from ethosu.vela import vela
        import constraints2gallina
        old = os.getcwd()
        os.makedirs(vlib.BUILD, exist_ok=True)
        with tempfile.TemporaryDirectory(dir=vlib.BUILD) as d:
            os.chdir(d)
            try:
                with contextlib.redirect_stdout(io.StringIO()):
                    vela.generate_supported_ops()
                md = open(os.path.join(d, "SUPPORTED_OPS.md")).read()
            finally:
                os.chdir(old)
        _report_cache["r"] = (md, constraints2gallina.parse_report(md))
    return _report_cache["r"]


def report_lines_for(name):
    """constraint sentences the generated report lists for TFLite operator `name` (generic lines not naming it in
    brackets, then its specific section); None when the report has no row for it"""
    md, (ops, has_spec, generic, spec) = generated_report()
    if name not in ops:
        return None
    return [t for t, ex in generic if name not in ex] + (spec.get(name, []) if has_spec[name] else [])


def check_report():
    """[problem dicts]: per operator row the listed sentences must be the docstrings of the constraints the two drivers
    evaluate (same multiset; the supported-operator ones and the semantic ones each in evaluation order)"""
    from ethosu.vela.tflite_mapping import builtin_operator_map, builtin_operator_name_map
    lists, supported = live_lists()
    md, (ops, has_spec, generic, spec) = generated_report()
    problems = []
    expected_rows = sorted(builtin_operator_name_map[c] for c in builtin_operator_map if builtin_operator_map[c][0] in supported)
    if sorted(ops) != expected_rows:
        problems.append(dict(kind="report_rows", missing=sorted(set(expected_rows) - set(ops)), extra=sorted(set(ops) - set(expected_rows))))
    by_name = {builtin_operator_name_map[c]: builtin_operator_map[c][0] for c in builtin_operator_map}
    rows = 0
    for name in ops:
        if name not in by_name:
            continue
        rows += 1
        sg, ss, ug, us = lists[by_name[name]]
        want = [c.__doc__ for c in sg + ug + ss + us]
        got = report_lines_for(name)
        if got != want:
            miss = [d for d in want if d not in got]
            extra = [d for d in got if d not in want]
            problems.append(dict(kind="report_row", operator=name, enforced_but_not_listed=miss, listed_but_not_enforced=extra,
                                 order_only=not miss and not extra))
    return problems, rows


def check_value_lists():
    """sentences ending in a formatted value list (data types, operator types): the values printed in the generated report
    must be the set-valued class constant the predicate body reads.  [problem dicts], number of sentences compared"""
    import ast
    import inspect
    from ethosu.vela.data_type import DataType
    from ethosu.vela.operation import Op
    from ethosu.vela.tflite_mapping import BUILTIN_OPERATOR_UNKNOWN, optype_to_builtintype
    from ethosu.vela.tflite_model_semantic import TFLiteSemantic
    from ethosu.vela.tflite_supported_operators import TFLiteSupportedOperators
    md, (ops, has_spec, generic, spec) = generated_report()
    printed_lines = [t for t, _ in generic] + [t for v in spec.values() for t in v]
    problems, n = [], 0
    for cls in (TFLiteSemantic, TFLiteSupportedOperators):
        tree = ast.parse(inspect.getsource(sys.modules[cls.__module__]))
        cnode = [x for x in tree.body if isinstance(x, ast.ClassDef) and x.name == cls.__name__][0]
        for node in cnode.body:
            if not (isinstance(node, ast.FunctionDef) and node.name.startswith("constraint_")):
                continue
            template = ast.get_docstring(node, clean=False) or ""
            if not template.endswith(": {}") or template.count("{}") != 1:
                continue
            prefix = template[:-2]
            lines = [t for t in printed_lines if t.startswith(prefix)]
            consts = sorted(set(x.attr for x in ast.walk(node) if isinstance(x, ast.Attribute) and isinstance(x.value, ast.Name)
                                and x.value.id == "cls" and isinstance(getattr(cls, x.attr, None), (set, frozenset))))
            if not lines or len(consts) != 1:
                continue   # not printed for any operator / not a single enforced set: nothing to compare here
            n += 1
            enforced = set()
            for e in getattr(cls, consts[0]):
                if isinstance(e, DataType):
                    enforced.add(str(e))
                elif isinstance(e, Op) and optype_to_builtintype(e) is not BUILTIN_OPERATOR_UNKNOWN:
                    enforced.add(str(optype_to_builtintype(e)))
            printed = set(x for x in lines[0][len(prefix):].split(", ") if x)
            if printed != enforced:
                problems.append(dict(constraint=node.name, sentence=lines[0], class_constant=consts[0],
                                     printed_but_not_enforced=sorted(printed - enforced), enforced_but_not_printed=sorted(enforced - printed)))
    return problems, n


def report_vs_checked_in():
    """informational: generated report vs the tree's SUPPORTED_OPS.md"""
    md, _ = generated_report()
    try:
        old = open(os.path.join(vlib.REPO, "SUPPORTED_OPS.md")).read()
    except OSError:
        return ["no SUPPORTED_OPS.md in the tree"]
    import difflib
    return [l for l in difflib.unified_diff(old.split("\n"), md.split("\n"), lineterm="", n=0) if l[:1] in "+-" and l[:3] not in ("+++", "---")][:40]


# ------------------------------------------------------------------------------------------------------------------
# (c) boundary networks
def _inp(net, shape, dt="int8", sc=0.05, zp=0):
    if dt in ("int32", "float32"):
        sc = zp = None
    return net.input(list(shape), dt, sc, zp, name="input%d" % len(net.inputs))


EXTRA_ARGS = {"conv_int8_asym_weights_forced": ["--force-symmetric-int-weights"]}


def n_conv(stride=(1, 1), k=(3, 3), d=(1, 1), ish=(1, 16, 16, 4), dt="int8", padding="SAME", oc=4, bias_val=None, wfill=None, act="NONE",
           wdtype=None, per_axis=False, tail=False, wzp=None):
    def f(rng):
        net = ng.Net("c")
        x = _inp(net, ish, dt)
        y = ng.conv2d(net, rng, x, oc, k, stride, d, padding, act=act, per_axis=per_axis, wdtype=wdtype)
        o = net.ops[-1]
        if bias_val is not None:
            b = o["inputs"][2]
            b.data = np.full(b.shape, bias_val, dtype=np.int64)
        if wfill is not None:
            w = o["inputs"][1]
            w.data = np.full(w.shape, wfill, dtype=w.data.dtype)
            w.zp = 0
        if wzp is not None:
            o["inputs"][1].zp = wzp
        if tail:
            y = ng.conv2d(net, rng, y, 4, (1, 1), per_axis=False)
        net.output(y)
        return net
    return f


def n_dw(s=(1, 1), k=(3, 3), mult=1, ish=(1, 16, 16, 4)):
    def f(rng):
        net = ng.Net("d")
        y = ng.depthwise(net, rng, _inp(net, ish), k, s, (1, 1), "SAME", mult=mult, per_axis=False)
        net.output(y)
        return net
    return f


def n_tconv(s, k, padding, ish=(1, 8, 8, 4), oshape=None):
    def f(rng):
        net = ng.Net("t")
        y = ng.transpose_conv(net, rng, _inp(net, ish), 4, k, s, padding)
        if padding == "VALID":   # what TFLite computes: (in - 1) * stride + kernel  ( = in * stride + max(k - s, 0) for k >= s)
            y.shape = [1, (ish[1] - 1) * s[0] + k[0], (ish[2] - 1) * s[1] + k[1], 4]
        if oshape:
            y.shape = list(oshape)
        net.ops[-1]["inputs"][0].data = np.array(y.shape, dtype=np.int32)
        net.output(y)
        return net
    return f


def n_pool(kind, k, s, padding, ish=(1, 16, 16, 4), dt="int8", tail=False):
    def f(rng):
        net = ng.Net("p")
        y = ng.pool(net, rng, _inp(net, ish, dt), kind, k, s, padding)
        if tail:
            y = ng.elementwise(net, rng, "ADD", y, y)
        net.output(y)
        return net
    return f


def n_mean(ish, axes, dt="int8", keep=True):
    def f(rng):
        net = ng.Net("m")
        net.output(ng.mean(net, rng, _inp(net, ish, dt), axes, keep))
        return net
    return f


def n_resize(kind, ish, osh, align=False, half=False, size=None):
    def f(rng):
        net = ng.Net("r")
        x = _inp(net, ish)
        st = net.tensor([2], "int32", None, None, list(size or osh[1:3]))
        y = net.tensor(list(osh), x.dtype, x.scale, x.zp)
        net.op(kind, [x, st], [y], dict(AlignCorners=align, HalfPixelCenters=half))
        net.output(y)
        return net
    return f


def n_ew(kind, s1, s2, so=None, dt="int8", scale2=None):
    def f(rng):
        net = ng.Net("e")
        a = _inp(net, s1, dt)
        b = _inp(net, s2, dt, sc=scale2 or 0.05)
        shp = so or [max(p, q) for p, q in zip(s1, s2)]
        q = (None, None) if dt == "int32" else ((0.05, 0) if kind in ("MINIMUM", "MAXIMUM") else (0.1, 0))
        y = net.tensor(list(shp), dt, q[0], q[1])
        net.op(kind, [a, b], [y], {} if kind in ("MINIMUM", "MAXIMUM") else dict(FusedActivationFunction=0))
        net.output(y)
        return net
    return f


def n_ew2(kind, dt, act=0, shape=(1, 8, 8, 4), scalar2=False):
    """elementwise operator with quantised tensors of any integer type (int32 included) and a fused activation code"""
    def f(rng):
        net = ng.Net("e2")
        a = net.input(list(shape), dt, 0.05, 0, name="input0")
        if scalar2:
            b = net.tensor([], dt, 0.05, 0, 3)
        else:
            b = net.input(list(shape), dt, 0.05, 0, name="input1")
        mm = kind in ("MINIMUM", "MAXIMUM")
        y = net.tensor(list(shape), dt, 0.05 if mm else 0.1, 0)
        net.op(kind, [a, b], [y], {} if mm else dict(FusedActivationFunction=act))
        net.output(y)
        return net
    return f


def n_conv_act(code):
    def f(rng):
        net = n_conv()(rng)
        net.ops[-1]["opts"]["FusedActivationFunction"] = code
        return net
    return f


def n_tconv_per_axis():
    def f(rng):
        net = n_tconv((2, 2), (3, 3), "SAME")(rng)
        w, b = net.ops[-1]["inputs"][1], net.ops[-1]["inputs"][3]
        w.scale, w.zp, w.qdim = [0.01, 0.02, 0.03, 0.04], [0, 0, 0, 0], 0
        b.scale, b.zp, b.qdim = [0.05 * x for x in w.scale], [0, 0, 0, 0], 0
        return net
    return f


def n_dw_per_axis():
    def f(rng):
        net = ng.Net("d")
        net.output(ng.depthwise(net, rng, _inp(net, (1, 16, 16, 4)), (3, 3), (1, 1), (1, 1), "SAME", per_axis=True))
        return net
    return f


def n_pad(dt):
    def f(rng):
        net = ng.Net("pd")
        x = _inp(net, (1, 4, 4, 8))
        pt = net.tensor([4, 2], dt, None, None, [[0, 0], [1, 1], [1, 1], [0, 0]])
        y = net.tensor([1, 6, 6, 8], x.dtype, x.scale, x.zp)
        net.op("PAD", [x, pt], [y], {})
        net.output(ng.conv2d(net, rng, y, 8, (3, 3), (1, 1), (1, 1), "VALID", per_axis=False))
        return net
    return f


def n_fc(batch, per_axis=False):
    def f(rng):
        net = ng.Net("f")
        x = _inp(net, (batch, 32))
        if per_axis:
            wt = net.tensor([4, 32], "int8", [0.01, 0.02, 0.03, 0.04], [0, 0, 0, 0], ng._wdata(rng, [4, 32]), qdim=0)
            y = net.tensor([batch, 4], "int8", 0.1, 0)
            net.op("FULLY_CONNECTED", [x, wt, None], [y], dict(FusedActivationFunction=0))
        else:
            y = ng.fully_connected(net, rng, x, 8)
        net.output(y)
        return net
    return f


def n_softmax(batch):
    def f(rng):
        net = ng.Net("s")
        net.output(ng.unary(net, rng, "SOFTMAX", _inp(net, (batch, 10)), dict(Beta=1.0)))
        return net
    return f


def n_argmax(shape, axis=3):
    def f(rng):
        net = ng.Net("a")
        x = _inp(net, shape)
        at = net.tensor([], "int32", None, None, axis)
        y = net.tensor([d for i, d in enumerate(shape) if i != axis], "int32")
        net.op("ARG_MAX", [x, at], [y], dict(OutputType=2))
        net.output(y)
        return net
    return f


def n_cpu_type(kind):
    def f(rng):
        net = ng.Net("u")
        x = _inp(net, (1, 8, 8, 4))
        y = ng.cpu_only(net, rng, x, kind)
        y = ng.conv2d(net, rng, y, 4, (1, 1), per_axis=False)
        net.output(y)
        return net
    return f


def n_dyn_weights():
    def f(rng):
        net = ng.Net("w")
        x = _inp(net, (1, 8, 8, 4))
        wt = net.input([8, 3, 3, 4], "int8", 0.02, 0, name="dynw")
        y = net.tensor([1, 8, 8, 8], "int8", 0.1, 0)
        bt = net.tensor([8], "int32", 0.05 * 0.02, 0, np.zeros(8))
        net.op("CONV_2D", [x, wt, bt], [y], dict(Padding=0, StrideW=1, StrideH=1, DilationWFactor=1, DilationHFactor=1, FusedActivationFunction=0))
        net.output(y)
        return net
    return f


def n_pair(prod, foll):
    """<producer violating a listed constraint (stays on the CPU)> -> <follower meeting every listed constraint>"""
    def f(rng):
        net = ng.Net("pair")
        if prod == "conv_s4":
            t = ng.conv2d(net, rng, _inp(net, (1, 16, 16, 8)), 8, (1, 1), (4, 1), (1, 1), "VALID", per_axis=False)
        elif prod == "dw_s4":
            t = ng.depthwise(net, rng, _inp(net, (1, 16, 16, 4)), (3, 3), (4, 4), (1, 1), "SAME", per_axis=False)
        elif prod == "maxpool_s4":
            t = ng.pool(net, rng, _inp(net, (1, 16, 16, 4)), "MAX_POOL_2D", (2, 2), (4, 4), "VALID")
        elif prod == "avgpool_k9_same":
            t = ng.pool(net, rng, _inp(net, (1, 20, 20, 4)), "AVERAGE_POOL_2D", (9, 9), (1, 1), "SAME")
        elif prod == "add_bcast_bad":
            a, b = _inp(net, (1, 8, 8, 4)), _inp(net, (1, 4, 8, 4))
            t = net.tensor([1, 8, 8, 4], "int8", 0.1, 0)
            net.op("ADD", [a, b], [t], dict(FusedActivationFunction=0))
        elif prod == "fc_per_axis":
            x = _inp(net, (1, 32))
            wt = net.tensor([8, 32], "int8", [0.01 + 0.001 * i for i in range(8)], [0] * 8, ng._wdata(rng, [8, 32]), qdim=0)
            t = net.tensor([1, 8], "int8", 0.1, 0)
            net.op("FULLY_CONNECTED", [x, wt, None], [t], dict(FusedActivationFunction=0))
        else:
            raise ValueError(prod)
        if foll in ("LOGISTIC", "TANH", "HARD_SWISH", "RELU", "RELU6"):
            y = ng.unary(net, rng, foll, t)
        elif foll == "LEAKY_RELU":
            y = ng.unary(net, rng, "LEAKY_RELU", t, dict(Alpha=float(np.float32(0.1))))
        elif foll == "CONV1x1":
            y = ng.conv2d(net, rng, t, 4, (1, 1), per_axis=False)
        elif foll == "ADD_SELF":
            y = ng.elementwise(net, rng, "ADD", t, t)
        elif foll == "MAXPOOL":
            y = ng.pool(net, rng, t, "MAX_POOL_2D", (2, 2), (1, 1), "SAME")
        else:
            raise ValueError(foll)
        net.output(y)
        return net
    return f


PAIR_OPCODE = {"CONV1x1": "CONV_2D", "ADD_SELF": "ADD", "MAXPOOL": "MAX_POOL_2D"}
PAIR_PRODUCER_OPCODE = {"conv_s4": "CONV_2D", "dw_s4": "DEPTHWISE_CONV_2D", "maxpool_s4": "MAX_POOL_2D", "avgpool_k9_same": "AVERAGE_POOL_2D",
                        "add_bcast_bad": "ADD", "fc_per_axis": "FULLY_CONNECTED"}
PAIRS = [("conv_s4", "LOGISTIC"), ("conv_s4", "TANH"), ("conv_s4", "HARD_SWISH"), ("conv_s4", "LEAKY_RELU"), ("conv_s4", "RELU"),
         ("conv_s4", "CONV1x1"), ("conv_s4", "ADD_SELF"), ("dw_s4", "LOGISTIC"), ("dw_s4", "HARD_SWISH"), ("dw_s4", "MAXPOOL"),
         ("maxpool_s4", "TANH"), ("maxpool_s4", "LEAKY_RELU"), ("maxpool_s4", "CONV1x1"), ("avgpool_k9_same", "LOGISTIC"),
         ("avgpool_k9_same", "RELU6"), ("add_bcast_bad", "TANH"), ("add_bcast_bad", "HARD_SWISH"), ("add_bcast_bad", "ADD_SELF"),
         ("fc_per_axis", "LOGISTIC"), ("fc_per_axis", "TANH")]


def pair_nets():
    out = []
    for prod, foll in PAIRS:
        oc = PAIR_OPCODE.get(foll, foll)
        if oc == PAIR_PRODUCER_OPCODE[prod]:
            oc += "#1"     # the second operator of that kind is the follower
        out.append(("pair_%s_%s" % (prod, foll.lower()), n_pair(prod, foll), oc,
                    "%s (violates a listed constraint) followed by %s (meets every listed constraint)" % (prod, foll)))
    return out


LSTM = "UNIDIRECTIONAL_SEQUENCE_LSTM"


def n_lstm(variant="plain", tm=False, shape=(1, 3, 8), dt="int8", mut=None, tail=False, layers=1):
    """fully integer UNIDIRECTIONAL_SEQUENCE_LSTM (netgen.lstm_layer: 24 inputs, two variable states, five intermediates),
    optionally modified after construction (mut) and followed by RESHAPE + FULLY_CONNECTED (tail)"""
    def f(rng):
        net = ng.Net("lstm")
        x = net.input(list(shape), dt, 0.05, 0, name="input0")
        y = ng.lstm_layer(net, rng, x, 8, tm, variant)
        o = net.ops[-1]
        if mut is not None:
            mut(net, o)
        for k in range(1, layers):
            y = ng.lstm_layer(net, rng, y, 8, tm, "plain", tag="l%d" % k)
        if tail:
            flat = net.tensor([y.shape[0], y.shape[1] * y.shape[2]], "int8", y.scale, y.zp)
            shp = net.tensor([2], "int32", None, None, list(flat.shape), name="tail_shape")
            net.op("RESHAPE", [y, shp], [flat], dict(NewShape=list(flat.shape)))
            y = ng.fully_connected(net, rng, flat, 4)
        net.output(y)
        return net
    return f


def _m_missing(k):
    def f(net, o):
        o["inputs"][k] = None
    return f


def _m_rw3d(net, o):
    w = o["inputs"][6]
    w.shape = list(w.shape) + [1]
    w.data = w.data.reshape(w.shape)


def _m_inputs(n):
    def f(net, o):
        o["inputs"] = (o["inputs"] + [None] * 4)[:n]
    return f


def _m_inter4(net, o):
    o["intermediates"] = o["intermediates"][:4]


def _m_extra(k):
    def f(net, o):
        o["inputs"][k] = net.tensor([8], "int16", 0.0005, 0, [100 * (j + 1) for j in range(8)], name="extra%d" % k)
    return f


def _m_nonvar(k):
    def f(net, o):
        o["inputs"][k].is_variable = False
    return f


LSTM_NETS = [
    ("lstm_plain", n_lstm(), LSTM, "inside: batch major"),
    ("lstm_time_major", n_lstm(tm=True, shape=(3, 1, 8)), LSTM, "inside: time major"),
    ("lstm_batch2", n_lstm(shape=(2, 3, 8)), LSTM, "inside: batch 2 (the batch sentence reads a 3D shape as batch 1)"),
    ("lstm_two_layers", n_lstm(layers=2), LSTM, "inside: two stacked layers"),
    ("lstm_tail", n_lstm(tail=True), LSTM, "inside, followed by RESHAPE and FULLY_CONNECTED"),
    ("lstm_no_bias13", n_lstm(mut=_m_missing(13)), LSTM, "inside: a gate bias is absent (no sentence asks for it)"),
    ("lstm_cifg", n_lstm("cifg"), LSTM, "CIFG"),
    ("lstm_cifg_tail", n_lstm("cifg", tail=True), LSTM, "CIFG, followed by RESHAPE and FULLY_CONNECTED"),
    ("lstm_peephole", n_lstm("peephole"), LSTM, "peephole"),
    ("lstm_projection", n_lstm("projection"), LSTM, "projection"),
    ("lstm_lnorm", n_lstm("lnorm"), LSTM, "layer normalisation"),
    ("lstm_peephole_11_only", n_lstm(mut=_m_extra(11)), LSTM, "only the last peephole tensor present"),
    ("lstm_lnorm_23_only", n_lstm(mut=_m_extra(23)), LSTM, "only the last normalisation tensor present"),
    ("lstm_missing_w3", n_lstm(mut=_m_missing(3)), LSTM, "input weight 3 absent"),
    ("lstm_missing_rw7", n_lstm(mut=_m_missing(7)), LSTM, "recurrent weight 7 absent"),
    ("lstm_missing_rw8", n_lstm(mut=_m_missing(8)), LSTM, "recurrent weight 8 (the last one) absent"),
    ("lstm_missing_w1_only", n_lstm(mut=_m_missing(1)), LSTM, "only the input-gate input weight absent (not the converter's CIFG layout)"),
    ("lstm_rw_3d", n_lstm(mut=_m_rw3d), LSTM, "a recurrent weight tensor is 3D"),
    ("lstm_23_inputs", n_lstm(mut=_m_inputs(23)), LSTM, "23 inputs"),
    ("lstm_25_inputs", n_lstm(mut=_m_inputs(25)), LSTM, "25 inputs"),
    ("lstm_4_intermediates", n_lstm(mut=_m_inter4), LSTM, "4 intermediates"),
    ("lstm_output_state_not_variable", n_lstm(mut=_m_nonvar(18)), LSTM, "output state tensor not variable"),
    ("lstm_cell_state_not_variable", n_lstm(mut=_m_nonvar(19)), LSTM, "cell state tensor not variable"),
    ("lstm_uint8", n_lstm(dt="uint8"), LSTM, "unsigned IFM"),
]

def n_memonly(kind, violate, before="conv", after="conv", dt="int8"):
    """<NPU operator> -> memory-only operator (RESHAPE / SQUEEZE / EXPAND_DIMS) -> <NPU operator>.  violate: None (inside its
    constraints: absorbed), "requant" (output quantised differently from the input), "rank5" (5-D output, graph output),
    "int32" (int32 tensors: RESHAPE is not in the int32 operator list)"""
    def f(rng):
        net = ng.Net("mem")
        h, w, c = 4, 6, 8
        q = (0.05, 0)
        mk = lambda shape, sc=q[0], zp=q[1]: net.tensor(list(shape), dt, sc, zp)
        x = net.input([1, h, w, c], dt, q[0], q[1], name="input0")
        if before == "conv" and dt != "int32":
            a = ng.conv2d(net, rng, x, c, (1, 1), per_axis=False)
        else:
            a = mk([1, h, w, c], 0.1)
            net.op("ADD", [x, x], [a], dict(FusedActivationFunction=0))
        osc = float(np.float32(a.scale * 2)) if violate == "requant" else a.scale
        if kind == "RESHAPE":
            shp = [1, 1, h, w, c] if violate == "rank5" else [1, w, h, c]
            r = mk(shp, osc, a.zp)
            net.op("RESHAPE", [a, net.tensor([len(shp)], "int32", None, None, shp)], [r], dict(NewShape=shp))
        elif kind == "SQUEEZE":
            r = mk([h, w, c], osc, a.zp)
            net.op("SQUEEZE", [a], [r], dict(SqueezeDims=[0]))
        else:
            # EXPAND_DIMS of a 3-D tensor: squeeze first (inside the constraints), then expand
            s3 = mk([h, w, c], a.scale, a.zp)
            net.op("SQUEEZE", [a], [s3], dict(SqueezeDims=[0]))
            r = mk([1, h, w, c], osc, a.zp)
            net.op("EXPAND_DIMS", [s3, net.tensor([], "int32", None, None, 0)], [r], {})
        y = r
        if violate != "rank5" and after is not None:
            if after == "conv" and dt != "int32" and len(r.shape) == 4:
                y = ng.conv2d(net, rng, r, c, (1, 1), per_axis=False)
            elif after == "relu":
                y = ng.unary(net, rng, "RELU", r)
            else:
                y = mk(r.shape, 0.2)
                net.op("ADD", [r, r], [y], dict(FusedActivationFunction=0))
        net.output(y)
        return net
    return f


MEMONLY_NETS = [
    ("mem_reshape_ok", n_memonly("RESHAPE", None), "RESHAPE", "inside: conv -> RESHAPE -> conv, equal quantisation"),
    ("mem_reshape_requant", n_memonly("RESHAPE", "requant"), "RESHAPE", "conv -> RESHAPE with another output scale -> conv"),
    ("mem_reshape_requant_first", n_memonly("RESHAPE", "requant", before="add"), "RESHAPE", "ADD -> RESHAPE requantising -> conv"),
    ("mem_reshape_requant_last", n_memonly("RESHAPE", "requant", after=None), "RESHAPE", "conv -> RESHAPE requantising as graph output"),
    ("mem_reshape_rank5", n_memonly("RESHAPE", "rank5"), "RESHAPE", "conv -> RESHAPE to rank 5 (graph output)"),
    ("mem_reshape_int32", n_memonly("RESHAPE", "int32", dt="int32"), "RESHAPE", "int32 ADD -> RESHAPE -> ADD (RESHAPE is not an int32 operator)"),
    ("mem_reshape_int8_add", n_memonly("RESHAPE", None, before="add", after="add"), "RESHAPE", "inside: ADD -> RESHAPE -> ADD"),
    ("mem_squeeze_ok", n_memonly("SQUEEZE", None, after="relu"), "SQUEEZE", "inside: conv -> SQUEEZE -> RELU"),
    ("mem_squeeze_requant", n_memonly("SQUEEZE", "requant", after="relu"), "SQUEEZE", "conv -> SQUEEZE with another output scale -> RELU"),
    ("mem_expand_dims_ok", n_memonly("EXPAND_DIMS", None), "EXPAND_DIMS", "inside: -> EXPAND_DIMS -> conv"),
    ("mem_expand_dims_requant", n_memonly("EXPAND_DIMS", "requant"), "EXPAND_DIMS", "EXPAND_DIMS with another output scale -> conv"),
]

MX, AV = "MAX_POOL_2D", "AVERAGE_POOL_2D"
RB, RN = "RESIZE_BILINEAR", "RESIZE_NEAREST_NEIGHBOR"
# (name, builder, TFLite opcode of the operator under test, what it probes)
NETS = [
    ("conv_base", n_conv(), "CONV_2D", "all inside"),
    ("conv_stride_h3", n_conv(stride=(3, 1)), "CONV_2D", "stride h = 3 (upper bound)"),
    ("conv_stride_h4", n_conv(stride=(4, 1)), "CONV_2D", "stride h = 4 (outside)"),
    ("conv_stride_h4_ofm_h1", n_conv(stride=(4, 1), ish=(1, 4, 16, 4)), "CONV_2D", "stride h = 4 with OFM height 1"),
    ("conv_stride_w3", n_conv(stride=(1, 3)), "CONV_2D", "stride w = 3"),
    ("conv_stride_w4_fold2", n_conv(stride=(1, 4), ish=(1, 16, 18, 4)), "CONV_2D", "stride w = 4, IFM width 18 divisible by 4/2"),
    ("conv_stride_w5_w16", n_conv(stride=(1, 5)), "CONV_2D", "stride w = 5, IFM width 16 (outside)"),
    ("conv_stride_w5_w10", n_conv(stride=(1, 5), ish=(1, 16, 10, 4)), "CONV_2D", "stride w = 5 dividing IFM width 10"),
    ("conv_stride_w6_w18", n_conv(stride=(1, 6), ish=(1, 16, 18, 4), k=(3, 7)), "CONV_2D", "stride w = 6, IFM width 18"),
    ("conv_stride_w4_w15", n_conv(stride=(1, 4), ish=(1, 16, 15, 4)), "CONV_2D", "stride w = 4, IFM width 15 (outside)"),
    ("conv_kh64", n_conv(k=(64, 1), ish=(1, 70, 8, 2), oc=2), "CONV_2D", "dilated height 64"),
    ("conv_kh65", n_conv(k=(65, 1), ish=(1, 70, 8, 2), oc=2), "CONV_2D", "dilated height 65"),
    ("conv_dil_h64", n_conv(k=(22, 1), d=(3, 1), ish=(1, 70, 8, 2), oc=2), "CONV_2D", "kernel 22 dilation 3 = 64"),
    ("conv_dil_h65", n_conv(k=(33, 1), d=(2, 1), ish=(1, 70, 8, 2), oc=2), "CONV_2D", "kernel 33 dilation 2 = 65"),
    ("conv_k64x64", n_conv(k=(64, 64), ish=(1, 70, 70, 1), oc=1), "CONV_2D", "dilated product 4096"),
    ("conv_k64x65", n_conv(k=(64, 65), ish=(1, 70, 70, 1), oc=1), "CONV_2D", "dilated product 4160"),
    ("conv_wsum_at_limit", n_conv(k=(64, 64), ish=(1, 64, 64, 16), oc=1, wfill=127), "CONV_2D", "sum of weights = 127*65536"),
    ("conv_wsum_over_limit", n_conv(k=(64, 64), ish=(1, 64, 64, 16), oc=1, wfill=-128), "CONV_2D", "sum of weights = 128*65536"),
    ("conv_bias_2p39m1", n_conv(dt="int16", bias_val=2 ** 39 - 1), "CONV_2D", "int64 bias 2^39-1 (largest 40-bit value)"),
    ("conv_bias_2p39", n_conv(dt="int16", bias_val=2 ** 39), "CONV_2D", "int64 bias 2^39 (does not fit 40 bits)"),
    ("conv_bias_2p40", n_conv(dt="int16", bias_val=2 ** 40), "CONV_2D", "int64 bias 2^40"),
    ("conv_bias_m2p39", n_conv(dt="int16", bias_val=-2 ** 39), "CONV_2D", "int64 bias -2^39 (smallest 40-bit value)"),
    ("conv_bias_m2p39m1", n_conv(dt="int16", bias_val=-2 ** 39 - 1), "CONV_2D", "int64 bias -2^39-1"),
    ("conv_batch2", n_conv(ish=(2, 8, 8, 4)), "CONV_2D", "batch 2"),
    ("conv_uint8", n_conv(dt="uint8"), "CONV_2D", "uint8"),
    ("conv_w16bit", n_conv(dt="int16", wdtype="int16"), "CONV_2D", "16-bit weights"),
    ("conv_per_axis", n_conv(per_axis=True), "CONV_2D", "per-axis quantised weights"),
    ("conv_fused_tanh", n_conv(act="TANH"), "CONV_2D", "fused TANH"),
    ("conv_dyn_weights", n_dyn_weights(), "CONV_2D", "non-constant weights"),
    ("conv_w65535", n_conv(k=(1, 1), ish=(1, 1, 65535, 1), oc=1), "CONV_2D", "width 65535"),
    ("conv_s4_then_conv", n_conv(stride=(4, 4), tail=True), "CONV_2D", "unsupported conv followed by a supported one"),
    ("dw_stride3", n_dw(s=(3, 3)), "DEPTHWISE_CONV_2D", "stride 3"),
    ("dw_stride4", n_dw(s=(4, 4)), "DEPTHWISE_CONV_2D", "stride 4"),
    ("dw_stride_w4_w16", n_dw(s=(1, 4)), "DEPTHWISE_CONV_2D", "stride w 4 (no folding rule for depthwise)"),
    ("dw_mult2_c1", n_dw(mult=2, ish=(1, 16, 16, 1)), "DEPTHWISE_CONV_2D", "depth multiplier 2, 1 channel"),
    ("dw_mult2_c2", n_dw(mult=2, ish=(1, 16, 16, 2)), "DEPTHWISE_CONV_2D", "depth multiplier 2, 2 channels"),
    ("tconv_s2_same", n_tconv((2, 2), (3, 3), "SAME"), "TRANSPOSE_CONV", "2x2 SAME"),
    ("tconv_s1_valid", n_tconv((1, 1), (3, 3), "VALID"), "TRANSPOSE_CONV", "1x1 VALID"),
    ("tconv_s3", n_tconv((3, 3), (3, 3), "SAME"), "TRANSPOSE_CONV", "3x3"),
    ("tconv_s2x1_h1", n_tconv((1, 2), (1, 3), "SAME", ish=(1, 1, 8, 4)), "TRANSPOSE_CONV", "WxH 2x1, ifm height 1, kernel height 1"),
    ("tconv_s2x1_h2", n_tconv((1, 2), (1, 3), "SAME", ish=(1, 2, 8, 4)), "TRANSPOSE_CONV", "WxH 2x1, ifm height 2"),
    ("tconv_same_bad_ofm", n_tconv((2, 2), (3, 3), "SAME", oshape=(1, 17, 16, 4)), "TRANSPOSE_CONV", "SAME with OFM != IFM*stride"),
    ("tconv_valid_k3s2", n_tconv((2, 2), (3, 3), "VALID"), "TRANSPOSE_CONV", "VALID 3x3 stride 2 (8 -> 17)"),
    ("tconv_valid_bad_ofm", n_tconv((2, 2), (3, 3), "VALID", oshape=(1, 16, 17, 4)), "TRANSPOSE_CONV", "VALID with wrong OFM"),
    ("maxpool_s3", n_pool(MX, (2, 2), (3, 3), "VALID"), MX, "stride 3"),
    ("maxpool_s4", n_pool(MX, (2, 2), (4, 4), "VALID"), MX, "stride 4"),
    ("maxpool_s5_k5_ifm5", n_pool(MX, (5, 5), (5, 5), "VALID", ish=(1, 5, 5, 4)), MX, "stride 5 = kernel = IFM (rewritten to stride 1 before the check)"),
    ("maxpool_kh256", n_pool(MX, (256, 1), (1, 1), "VALID", ish=(1, 260, 4, 2)), MX, "filter height 256"),
    ("maxpool_kh257", n_pool(MX, (257, 1), (1, 1), "VALID", ish=(1, 260, 4, 2)), MX, "filter height 257"),
    ("maxpool_k256x256", n_pool(MX, (256, 256), (1, 1), "VALID", ish=(1, 260, 260, 1)), MX, "filter product 65536"),
    ("maxpool_k256x257", n_pool(MX, (256, 257), (1, 1), "VALID", ish=(1, 260, 260, 1)), MX, "filter product 65792"),
    ("maxpool_s4_then_add", n_pool(MX, (2, 2), (4, 4), "VALID", tail=True), MX, "unsupported pool followed by a supported op"),
    # pools with kernel == stride > 3 around the pre-pass fixup_pool_strides (it rewrites stride and padding of a pool whose
    # window is the whole IFM BEFORE the supported-operator check): window == IFM in one dimension only, in both, swapped
    ("maxpool_k4s4_ifm8x4", n_pool(MX, (4, 4), (4, 4), "VALID", ish=(1, 8, 4, 2)), MX, "kernel = stride = IFM width, IFM taller"),
    ("maxpool_k4s4_ifm4x8", n_pool(MX, (4, 4), (4, 4), "VALID", ish=(1, 4, 8, 2)), MX, "kernel = stride = IFM height, IFM wider"),
    ("maxpool_k4x6_ifm4x6", n_pool(MX, (4, 6), (4, 6), "VALID", ish=(1, 4, 6, 2)), MX, "global pool, non-square"),
    ("maxpool_k6x4_ifm6x4", n_pool(MX, (6, 4), (6, 4), "VALID", ish=(1, 6, 4, 2)), MX, "global pool, non-square (other orientation)"),
    ("maxpool_k4x6_ifm8x6", n_pool(MX, (4, 6), (4, 6), "VALID", ish=(1, 8, 6, 2)), MX, "window = IFM width only, non-square"),
    ("maxpool_k6x4_ifm6x8", n_pool(MX, (6, 4), (6, 4), "VALID", ish=(1, 6, 8, 2)), MX, "window = IFM height only, non-square"),
    ("maxpool_k6x4_ifm4x6_same", n_pool(MX, (6, 4), (6, 4), "SAME", ish=(1, 4, 6, 2)), MX, "window = IFM with height and width swapped"),
    ("maxpool_k2s4_ifm4x4", n_pool(MX, (2, 2), (4, 4), "VALID", ish=(1, 4, 4, 2)), MX, "stride = IFM, kernel smaller"),
    ("maxpool_k4s4_ifm4x4_same", n_pool(MX, (4, 4), (4, 4), "SAME", ish=(1, 4, 4, 2)), MX, "global pool, SAME padding"),
    ("avgpool_k4s4_ifm8x4", n_pool(AV, (4, 4), (4, 4), "VALID", ish=(1, 8, 4, 2)), AV, "kernel = stride = IFM width, IFM taller"),
    ("avgpool_k4s4_ifm4x8", n_pool(AV, (4, 4), (4, 4), "VALID", ish=(1, 4, 8, 2)), AV, "kernel = stride = IFM height, IFM wider"),
    ("avgpool_k4x6_ifm4x6", n_pool(AV, (4, 6), (4, 6), "VALID", ish=(1, 4, 6, 2)), AV, "global pool, non-square"),
    ("avgpool_k6x4_ifm6x4", n_pool(AV, (6, 4), (6, 4), "VALID", ish=(1, 6, 4, 2)), AV, "global pool, non-square (other orientation)"),
    ("avgpool_k4x6_ifm8x6", n_pool(AV, (4, 6), (4, 6), "VALID", ish=(1, 8, 6, 2)), AV, "window = IFM width only, non-square"),
    ("avgpool_k5x4_ifm5x8_same", n_pool(AV, (5, 4), (5, 4), "SAME", ish=(1, 5, 8, 2)), AV, "window = IFM height only, SAME padding, stride w 4"),
    ("avgpool_k6x4_ifm4x6_same", n_pool(AV, (6, 4), (6, 4), "SAME", ish=(1, 4, 6, 2)), AV, "window = IFM with height and width swapped"),
    ("avgpool_k4s4_ifm4x4_same", n_pool(AV, (4, 4), (4, 4), "SAME", ish=(1, 4, 4, 2)), AV, "global pool, SAME padding"),
    # the other pre-pass that acts before the check: check_asymmetric_weights / fixup_asymmetric_weights
    ("conv_int8_asym_weights", n_conv(wzp=3), "CONV_2D", "int8 weights with zero point 3 (check_asymmetric_weights runs before the check)"),
    ("conv_int8_asym_weights_forced", n_conv(wzp=3), "CONV_2D", "same with --force-symmetric-int-weights"),
    ("avgpool_s3", n_pool(AV, (2, 2), (3, 3), "SAME"), AV, "stride 3"),
    ("avgpool_sh4", n_pool(AV, (2, 2), (4, 1), "VALID"), AV, "stride h 4"),
    ("avgpool_sw4_valid", n_pool(AV, (2, 2), (1, 4), "VALID"), AV, "stride w 4 VALID"),
    ("avgpool_sw4_same", n_pool(AV, (2, 2), (1, 4), "SAME"), AV, "stride w 4 SAME"),
    ("avgpool_k8_same", n_pool(AV, (8, 8), (1, 1), "SAME", ish=(1, 20, 20, 4)), AV, "filter 8x8 SAME"),
    ("avgpool_k9_same", n_pool(AV, (9, 9), (1, 1), "SAME", ish=(1, 20, 20, 4)), AV, "filter 9x9 SAME"),
    ("avgpool_k9_valid", n_pool(AV, (9, 9), (1, 1), "VALID", ish=(1, 20, 20, 4)), AV, "filter 9x9 VALID"),
    ("avgpool_kh256_valid", n_pool(AV, (256, 1), (1, 1), "VALID", ish=(1, 260, 4, 2)), AV, "filter height 256 VALID"),
    ("avgpool_kh257_valid", n_pool(AV, (257, 1), (1, 1), "VALID", ish=(1, 260, 4, 2)), AV, "filter height 257 VALID"),
    ("avgpool_k256x257_valid", n_pool(AV, (256, 257), (1, 1), "VALID", ish=(1, 260, 260, 1)), AV, "filter product 65792 VALID"),
    ("mean_hw", n_mean((1, 8, 8, 4), (1, 2)), "MEAN", "inside"),
    ("mean_h_w4096", n_mean((1, 4, 4096, 2), (1,)), "MEAN", "width 4096, only H reduced"),
    ("mean_h_w4097", n_mean((1, 4, 4097, 2), (1,)), "MEAN", "width 4097, width axis NOT reduced: inside (the limit is on the reduced extent)"),
    ("mean_w_w4097", n_mean((1, 4, 4097, 2), (2,)), "MEAN", "width 4097 reduced"),
    ("mean_int16_256x256", n_mean((1, 256, 256, 1), (1, 2), "int16"), "MEAN", "int16 product 65536"),
    ("mean_int16_256x257", n_mean((1, 256, 257, 1), (1, 2), "int16"), "MEAN", "int16 product 65792"),
    ("mean_c4096", n_mean((1, 1, 4, 4096), (3,)), "MEAN", "depth 4096 reduced"),
    ("mean_c4097", n_mean((1, 1, 4, 4097), (3,)), "MEAN", "depth 4097 reduced"),
    ("mean_hw_c4097", n_mean((1, 4, 4, 4097), (1, 2)), "MEAN", "depth 4097 not reduced"),
    ("mean_uint8_2p23", n_mean((1, 4096, 2048, 1), (1, 2), "uint8"), "MEAN", "uint8 product 2^23 (at the bound)"),
    ("mean_uint8_2p23_plus", n_mean((1, 4096, 2049, 1), (1, 2), "uint8"), "MEAN", "uint8 product above 2^23"),
    ("resize_bil_x2", n_resize(RB, (1, 4, 4, 2), (1, 8, 8, 2)), RB, "x2"),
    ("resize_bil_x3", n_resize(RB, (1, 4, 4, 2), (1, 12, 12, 2)), RB, "x3"),
    ("resize_bil_x8", n_resize(RB, (1, 4, 4, 2), (1, 32, 32, 2)), RB, "x8"),
    ("resize_bil_x16", n_resize(RB, (1, 4, 4, 2), (1, 64, 64, 2)), RB, "x16"),
    ("resize_nn_x4", n_resize(RN, (1, 4, 4, 2), (1, 16, 16, 2)), RN, "x4"),
    ("resize_nn_x2x4", n_resize(RN, (1, 4, 4, 2), (1, 8, 16, 2)), RN, "unequal scaling"),
    ("resize_bil_1x1", n_resize(RB, (1, 1, 1, 2), (1, 5, 7, 2)), RB, "IFM 1x1"),
    ("resize_bil_align_4_7", n_resize(RB, (1, 4, 4, 2), (1, 7, 7, 2), align=True), RB, "align_corners 4 -> 7"),
    ("resize_bil_align_4_8", n_resize(RB, (1, 4, 4, 2), (1, 8, 8, 2), align=True), RB, "align_corners 4 -> 8"),
    ("resize_nn_align_4_7", n_resize(RN, (1, 4, 4, 2), (1, 7, 7, 2), align=True), RN, "align_corners 4 -> 7"),
    ("resize_bil_align_1x4", n_resize(RB, (1, 1, 4, 2), (1, 1, 7, 2), align=True), RB, "align_corners, IFM height 1"),
    ("resize_bil_half_x2", n_resize(RB, (1, 4, 4, 2), (1, 8, 8, 2), half=True), RB, "half_pixel_centers x2"),
    ("resize_bil_half_x4", n_resize(RB, (1, 4, 4, 2), (1, 16, 16, 2), half=True), RB, "half_pixel_centers x4"),
    ("resize_bil_align_half", n_resize(RB, (1, 4, 4, 2), (1, 7, 7, 2), align=True, half=True), RB, "align_corners and half_pixel_centers"),
    ("resize_bil_size_mismatch", n_resize(RB, (1, 4, 4, 2), (1, 8, 8, 2), size=(8, 9)), RB, "size tensor != OFM"),
    ("add_same", n_ew("ADD", (1, 8, 8, 4), (1, 8, 8, 4)), "ADD", "inside"),
    ("add_bcast_c", n_ew("ADD", (1, 8, 8, 4), (1, 1, 1, 4)), "ADD", "broadcast H, W"),
    ("add_bcast_bad", n_ew("ADD", (1, 8, 8, 4), (1, 4, 8, 4), so=(1, 8, 8, 4)), "ADD", "8 vs 4 is not a broadcast"),
    ("add_batch2", n_ew("ADD", (2, 8, 8, 4), (2, 8, 8, 4)), "ADD", "batch 2"),
    ("add_rank5", n_ew("ADD", (1, 1, 8, 8, 4), (1, 1, 8, 8, 4)), "ADD", "5D"),
    ("add_dim65535", n_ew("ADD", (1, 1, 65535, 1), (1, 1, 65535, 1)), "ADD", "dimension 65535"),
    ("add_dim65536", n_ew("ADD", (1, 1, 65536, 1), (1, 1, 65536, 1)), "ADD", "dimension 65536"),
    ("mul_int16", n_ew("MUL", (1, 8, 8, 4), (1, 8, 8, 4), dt="int16"), "MUL", "int16"),
    ("add_int32_noquant", n_ew("ADD", (1, 8, 8, 4), (1, 8, 8, 4), dt="int32"), "ADD", "int32 without quantisation"),
    ("min_same", n_ew("MINIMUM", (1, 8, 8, 4), (1, 8, 8, 4)), "MINIMUM", "inside"),
    ("min_diff_quant", n_ew("MINIMUM", (1, 8, 8, 4), (1, 8, 8, 4), scale2=0.07), "MINIMUM", "input scale differs from output"),
    ("fc_batch4", n_fc(4), "FULLY_CONNECTED", "batch 4 (excepted from the batch constraint)"),
    ("fc_per_axis", n_fc(1, per_axis=True), "FULLY_CONNECTED", "per-axis weights"),
    ("softmax_batch3", n_softmax(3), "SOFTMAX", "batch 3 (excepted)"),
    ("argmax_d127", n_argmax((1, 4, 4, 127)), "ARG_MAX", "depth 127"),
    ("argmax_d128", n_argmax((1, 4, 4, 128)), "ARG_MAX", "depth 128"),
    ("argmax_axis1", n_argmax((1, 4, 4, 8), axis=1), "ARG_MAX", "axis 1"),
    ("l2norm_then_conv", n_cpu_type("L2_NORMALIZATION"), "L2_NORMALIZATION", "type outside supported_operators"),
    # one operator per value of each value list the report prints (data types, operator types), and one just outside
    ("add_int32_q", n_ew2("ADD", "int32"), "ADD", "tensor type int32 / int32 operator list: ADD"),
    ("mul_int32_q", n_ew2("MUL", "int32"), "MUL", "int32 operator list: MUL"),
    ("sub_int32_q", n_ew2("SUB", "int32"), "SUB", "int32 operator list: SUB"),
    ("max_int32_q", n_ew2("MAXIMUM", "int32"), "MAXIMUM", "int32 tensors, operator not in the int32 list"),
    ("add_int64_q", n_ew2("ADD", "int64"), "ADD", "tensor type int64 (not listed)"),
    ("add_int8_relu", n_ew2("ADD", "int8", 1), "ADD", "fused RELU, output int8"),
    ("mul_uint8_relu_n1", n_ew2("MUL", "uint8", 2), "MUL", "fused RELU_N1_TO_1, output uint8"),
    ("sub_int16_relu6", n_ew2("SUB", "int16", 3), "SUB", "fused RELU6, output int16"),
    ("add_int32_relu", n_ew2("ADD", "int32", 1), "ADD", "fused RELU, output int32 (not in the fused-activation output types)"),
    ("mul_int32_relu6", n_ew2("MUL", "int32", 3), "MUL", "fused RELU6, output int32"),
    ("sub_int32_relu_n1", n_ew2("SUB", "int32", 2), "SUB", "fused RELU_N1_TO_1, output int32"),
    ("conv_fused_relu", n_conv_act(1), "CONV_2D", "fused RELU"),
    ("conv_fused_relu_n1", n_conv_act(2), "CONV_2D", "fused RELU_N1_TO_1"),
    ("conv_fused_relu6", n_conv_act(3), "CONV_2D", "fused RELU6"),
    ("conv_fused_sign_bit", n_conv_act(5), "CONV_2D", "fused SIGN_BIT (not listed)"),
    ("dw_per_axis", n_dw_per_axis(), "DEPTHWISE_CONV_2D", "per-axis quantisation: DEPTHWISE_CONV_2D"),
    ("tconv_per_axis", n_tconv_per_axis(), "TRANSPOSE_CONV", "per-axis quantisation: TRANSPOSE_CONV"),
    ("pad_int32_pads", n_pad("int32"), "PAD", "pad tensor int32"),
    ("pad_int64_pads", n_pad("int64"), "PAD", "pad tensor int64"),
    ("add_scalar_input", n_ew2("ADD", "int8", 0, scalar2=True), "ADD", "scalar input, operator in the scalar-input list"),
]
THOROUGH_ACCS = compiles.U55 + compiles.U65


# ------------------------------------------------------------------------------------------------------------------
# evaluation of "all listed constraints hold" on the source operator
_real_cache = {}


def eval_listed_real(path, opcode, out_name=None):
    """constraint evaluation of the source operator with TFLite opcode `opcode` (the one producing tensor `out_name` when
    given, else the first): (rows, type supported, output names)"""
    if path not in _real_cache:
        _real_cache.clear()
        _real_cache[path] = eval_listed_real_all(path)
    for oc, rows, sup, outs in _real_cache[path]:
        if oc == opcode and (out_name is None or out_name in outs):
            return [tuple(r) for r in rows], sup, outs
    return None, False, None


def eval_listed_real_all(path):
    """reads the source model with Vela's reader and calls, for every operator, every constraint function the report lists
    for it (semantic and supported-operator ones): [(opcode, [(sentence, True/False/'raises X', function name, order)],
    type in supported_operators, output tensor names)]"""
    from ethosu.vela import model_reader
    from ethosu.vela.operation import Op
    from ethosu.vela.tflite_mapping import optype_to_builtintype
    import warnings
    with contextlib.redirect_stdout(io.StringIO()):
        nng, _ = model_reader.read_model(path, model_reader.ModelReaderOptions())
    lists, supported = live_lists()
    res_all = []
    for sg in nng.subgraphs:
        for op in sg.get_all_ops():
            if op.type in (Op.Const, Op.Placeholder, Op.SubgraphInput):
                continue
            sgc, ssc, ugc, usc = lists[op.type]
            out = []
            # report order (generic of both checkers, then specific); `order` is the position in which the drivers
            # evaluate: semantic generic, semantic specific, supported generic, supported specific
            order = {id(c): k for k, c in enumerate(sgc + ssc + ugc + usc)}
            for c in sgc + ugc + ssc + usc:
                try:
                    with contextlib.redirect_stdout(io.StringIO()), warnings.catch_warnings():
                        warnings.simplefilter("ignore")
                        v = bool(c(op)[0])
                except Exception as ex:
                    v = "raises %s" % type(ex).__name__
                out.append((c.__doc__, v, c.__name__, order[id(c)]))
            res_all.append((optype_to_builtintype(op.type), out, op.type in supported, [t.name for t in op.outputs]))
    return res_all


def squash_ws(s):
    return re.sub(r"\s+", " ", s).strip()


def op_facts(sg, op):
    """plain facts of a source operator from the flatbuffer summary (independent of Vela's reader)"""
    T = sg["tensors"]
    code = op["opcode"]
    o = op["options"] or {}
    ins = [T[i] if i >= 0 else None for i in op["inputs"]]
    outs = [T[i] for i in op["outputs"]]
    f = dict(code=code, ofm=outs[0], opts=o, ifm=None, ifm2=None, weights=None, bias=None, raw_inputs=list(op["inputs"]),
             n_intermediates=len(op.get("intermediates") or []), tensors=T)
    if code in ("CONV_2D", "DEPTHWISE_CONV_2D", "FULLY_CONNECTED"):
        f["ifm"], f["weights"] = ins[0], ins[1]
        f["bias"] = ins[2] if len(ins) > 2 else None
    elif code == "TRANSPOSE_CONV":
        f["ifm"], f["weights"] = ins[2], ins[1]
        f["bias"] = ins[3] if len(ins) > 3 else None
    elif code in ("ADD", "SUB", "MUL", "MINIMUM", "MAXIMUM"):
        f["ifm"], f["ifm2"] = ins[0], ins[1]
    else:
        f["ifm"] = ins[0] if ins else None
    f["ins"] = ins
    if f["weights"] is not None and code != "FULLY_CONNECTED":
        ws = f["weights"]["shape"]
        f["kh"], f["kw"] = ws[1], ws[2]
    if code in ("MAX_POOL_2D", "AVERAGE_POOL_2D"):
        f["kh"], f["kw"] = o.get("FilterHeight"), o.get("FilterWidth")
    f["sh"], f["sw"] = o.get("StrideH"), o.get("StrideW")
    f["dh"], f["dw"] = o.get("DilationHFactor", 1), o.get("DilationWFactor", 1)
    f["padding"] = {0: "SAME", 1: "VALID"}.get(o.get("Padding"))
    return f


def tensor_values(summary, t):
    dt = {"int8": np.int8, "uint8": np.uint8, "int16": np.int16, "int32": np.int32, "int64": np.int64}.get(t["type"])
    if dt is None or not t["data_len"]:
        return None
    return np.frombuffer(summary["_bufs"][t["buffer"]], dtype=dt).reshape(t["shape"] if t["shape"] else ())


def doc_oracle(sentence, f, summary):
    """independent reading of a sentence of the generated report on the operator facts: True / False, or None when no
    independent numeric reading is claimed (the real constraint function's answer is used then)"""
    s = squash_ws(sentence)
    rng2 = lambda lo, hi, x: lo <= x <= hi
    m = re.fullmatch(r"Tensor dimensions must be in the range \[(\d+), (\d+)\]", s)
    if m:
        lo, hi = int(m.group(1)), int(m.group(2))
        return all(rng2(lo, hi, d) for t in (f["ifm"], f["ifm2"], f["weights"], f["ofm"]) if t is not None for d in t["shape"])
    m = re.fullmatch(r"Stride values for both width and height must be (?:in the range \[(\d+), (\d+)\]|between (\d+) and (\d+))", s)
    if m:
        lo, hi = [int(x) for x in m.groups() if x is not None]
        return rng2(lo, hi, f["sw"]) and rng2(lo, hi, f["sh"])
    m = re.fullmatch(r"Dilated kernel height must be in the range \[(\d+), (\d+)\]", s)
    if m:
        return rng2(int(m.group(1)), int(m.group(2)), (f["kh"] - 1) * f["dh"] + 1)
    m = re.fullmatch(r"Product of dilated kernel width and height must be in the range \[(\d+), (\d+)\]", s)
    if m:
        return rng2(int(m.group(1)), int(m.group(2)), ((f["kh"] - 1) * f["dh"] + 1) * ((f["kw"] - 1) * f["dw"] + 1))
    m = re.fullmatch(r"The sum of the weights cannot exceed (\d+)", s)
    if m:
        w = tensor_values(summary, f["weights"])
        if w is None:
            return None
        zp = (f["weights"]["quant"] or {}).get("zero_point") or [0]
        if len(zp) != 1:
            zp = [0] if all(z == 0 for z in zp) else None
        if zp is None:
            return None
        a = np.abs(w.astype(np.int64) - zp[0])
        # per output channel: CONV_2D / TRANSPOSE_CONV weights are OHWI, DEPTHWISE 1HWC
        per = a.sum(axis=(1, 2, 3)) if f["code"] != "DEPTHWISE_CONV_2D" else a.sum(axis=(0, 1, 2))
        return int(per.max()) <= int(m.group(1))
    m = re.fullmatch(r"Optional Bias tensor values must fit within (\d+)-bits", s)
    if m:
        b = f["bias"]
        if b is None or b["type"] != "int64":
            return True
        v = tensor_values(summary, b)
        if v is None:
            return True
        n = int(m.group(1))
        return all(-(1 << (n - 1)) <= int(x) < (1 << (n - 1)) for x in v.flatten())
    m = re.fullmatch(r"IFM Tensor batch size must be (\d+)", s)
    if m:
        return all((t["shape"][0] if len(t["shape"]) >= 4 else 1) == int(m.group(1)) for t in (f["ifm"], f["ifm2"]) if t is not None)
    if s == "For depth multipliers > 1, IFM channels must be 1 and OFM channels must be equal to the depth multiplier":
        dm = f["opts"].get("DepthMultiplier", 1)
        return dm <= 1 or (f["ifm"]["shape"][3] == 1 and f["ofm"]["shape"][3] == dm)
    m = re.fullmatch(r"(VALID padding: )?Kernel filter height must be in the range \[(\d+), (\d+)\]", s)
    if m:
        return (m.group(1) is not None and f["padding"] != "VALID") or rng2(int(m.group(2)), int(m.group(3)), f["kh"])
    m = re.fullmatch(r"(VALID padding: )?Product of kernel filter width and height must be in the range \[(\d+), (\d+)\]", s)
    if m:
        return (m.group(1) is not None and f["padding"] != "VALID") or rng2(int(m.group(2)), int(m.group(3)), f["kh"] * f["kw"])
    m = re.fullmatch(r"Kernel filter values for both width and height must be in the range \[(\d+), (\d+)\]", s)
    if m:
        return rng2(int(m.group(1)), int(m.group(2)), f["kw"]) and rng2(int(m.group(1)), int(m.group(2)), f["kh"])
    if s.startswith("Stride values for width and height must match one of the following criteria: Stride values WxH must be 1x1 or 2x2 "
                    "Stride WxH 2x1 supported if ifm height and kernel height = 1"):
        sw, sh = f["sw"], f["sh"]
        return (sw, sh) in ((1, 1), (2, 2)) or ((sw, sh) == (2, 1) and f["ifm"]["shape"][1] == 1 and f["kh"] == 1)
    if s == "SAME padding: OFM dimensions must equal IFM dimensions multiplied by stride":
        return f["padding"] != "SAME" or (f["ofm"]["shape"][1] == f["ifm"]["shape"][1] * f["sh"] and f["ofm"]["shape"][2] == f["ifm"]["shape"][2] * f["sw"])
    m = re.fullmatch(r"Strides must fulfil the following criteria: - Stride h must be between (\d+) and (\d+) when ofm height is greater than 1 "
                     r"- Stride w must be between (\d+) and (\d+) when ofm height is greater than 1 or stride w must be divisible by 2 or 3 and "
                     r"ifm width must be divisible by stride_w/2 or stride_w/3", s)
    if m:
        a, b, c, d = (int(x) for x in m.groups())
        oh, ow, iw, sw, sh = f["ofm"]["shape"][1], f["ofm"]["shape"][2], f["ifm"]["shape"][2], f["sw"], f["sh"]
        hok = oh <= 1 or rng2(a, b, sh)
        alt = sw >= 1 and ((sw % 2 == 0 and iw % (sw // 2) == 0) or (sw % 3 == 0 and iw % (sw // 3) == 0))
        # the condition of the second item is read as "OFM width greater than 1" (reading most favourable to the code)
        wok = ow <= 1 or rng2(c, d, sw) or alt
        return hok and wok
    m = re.fullmatch(r"Stride width must be greater than or equal to (\d+)\. For stride width greater than (\d+), valid padding needs to be used\.", s)
    if m:
        return f["sw"] >= int(m.group(1)) and (f["sw"] <= int(m.group(2)) or f["padding"] == "VALID")
    if s.startswith("Product of reduced axes must be no greater than:"):
        nums = [int(x) for x in re.findall(r"- (\d+) for", s)]
        ax = tensor_values(summary, f["ins"][1])
        if ax is None or len(nums) != 3:
            return None
        shape = f["ifm"]["shape"]
        prod = 1
        for a in np.atleast_1d(ax).tolist():
            prod *= shape[a]
        bound = {"int8": nums[0], "uint8": nums[1], "int16": nums[2]}.get(f["ifm"]["type"])
        return None if bound is None else prod <= bound
    m = re.fullmatch(r"If (Width|Depth) axis is reduced its shape must be no greater than (\d+)\.", s)
    if m:
        ax = tensor_values(summary, f["ins"][1])
        if ax is None:
            return None
        shape = f["ifm"]["shape"]
        axes = [a % len(shape) for a in np.atleast_1d(ax).tolist()]
        idx = (len(shape) - 1) if m.group(1) == "Depth" else (1 if len(shape) < 4 else 2)
        return idx not in axes or shape[idx] <= int(m.group(2))
    m = re.fullmatch(r"IFM depth must be no greater than (\d+)", s)
    if m:
        return f["ifm"]["shape"][-1] <= int(m.group(1))
    if f["code"] == LSTM:
        v = lstm_oracle(s, f)
        if v is not None:
            return v
    # sentences ending in a value list (data types / operator types)
    main = [t for t in (f["ifm"], f["ifm2"], f["weights"], f["ofm"]) if t is not None]
    act = {0: None, 1: "RELU", 2: "RELU_N1_TO_1", 3: "RELU6", 4: "TANH", 5: "SIGN_BIT"}.get(f["opts"].get("FusedActivationFunction", 0), "?")
    m = re.fullmatch(r"Tensors must be of type: (.*)", s)
    if m:
        return all(t["type"] in m.group(1).split(", ") for t in main)
    m = re.fullmatch(r"Tensors which are int32 are only valid when op type is: (.*)", s)
    if m:
        return not any(t["type"] == "int32" for t in main) or f["code"] in m.group(1).split(", ")
    m = re.fullmatch(r"Per-axis quantization is only supported for the following op types: (.*)", s)
    if m:
        per_axis = any(t["quant"] and (len(t["quant"]["scale"]) > 1 or len(t["quant"]["zero_point"]) > 1) for t in main)
        return f["code"] in m.group(1).split(", ") or not per_axis
    m = re.fullmatch(r"The fused activation function \(if present\) must be one of type: (.*)", s)
    if m:
        return act is None or act in m.group(1).split(", ")
    m = re.fullmatch(r"If a fused activation function is present, the Output tensor must be one of type: (.*)", s)
    if m:
        return act is None or f["ofm"]["type"] in m.group(1).split(", ")
    m = re.fullmatch(r"Optional Bias tensor must be of type: (.*)", s)
    if m:
        return f["bias"] is None or f["bias"]["type"] in m.group(1).split(", ")
    m = re.fullmatch(r"Pad tensor must be of type: (.*)", s)
    if m:
        return len(f["ins"]) > 1 and f["ins"][1] is not None and f["ins"][1]["type"] in m.group(1).split(", ")
    m = re.fullmatch(r"Scalar Input tensors are only valid for op type: (.*)", s)
    if m:
        return not any(t is not None and t["shape"] == [] for t in f["ins"]) or f["code"] in m.group(1).split(", ")
    return None


_var_cache = {}


def variable_flags(path):
    """is_variable of every tensor of the first subgraph (plain flatbuffer walk)"""
    if path not in _var_cache:
        from tfl import Model
        buf = bytearray(open(path, "rb").read())
        sg = Model.Model.GetRootAsModel(buf, 0).Subgraphs(0)
        _var_cache.clear()
        _var_cache[path] = [bool(sg.Tensors(i).IsVariable()) for i in range(sg.TensorsLength())]
    return _var_cache[path]


def lstm_oracle(s, f):
    """independent reading of the LSTM sentences of the report; inputs: 0 IFM, 1-4 input weights, 5-8 recurrent weights,
    9-11 peephole, 12-15 gate biases, 16-17 projection, 18-19 states, 20-23 layer-normalisation coefficients"""
    ins = f["raw_inputs"]
    at = lambda k: ins[k] if k < len(ins) else -1
    T = f["tensors"]
    m = re.fullmatch(r"Must have (\d+) input tensors", s)
    if m:
        return len(ins) == int(m.group(1))
    m = re.fullmatch(r"Must have (\d+) intermediate tensors", s)
    if m:
        return f["n_intermediates"] == int(m.group(1))
    if s == "State tensors must be variable":
        return "is_variable" in f and all(at(k) >= 0 and f["is_variable"][at(k)] for k in (18, 19))
    if s == "IFM and OFM must have 3D shape":
        return len(f["ifm"]["shape"]) == 3 and len(f["ofm"]["shape"]) == 3
    if s == "Must not use CIFG":
        return at(1) >= 0            # CIFG couples the input gate to the forget gate: no input-to-input weights
    if s == "Must not use Peephole":
        return all(at(k) < 0 for k in (9, 10, 11))
    if s == "Must not use Projection":
        return all(at(k) < 0 for k in (16, 17))
    if s == "Must not use Normalisation":
        return all(at(k) < 0 for k in (20, 21, 22, 23))
    if s == "All input and recurrent weights must be available":
        return all(at(k) >= 0 for k in range(1, 9))
    if s == "All recurrent weights must be 2D":
        return all(len(T[at(k)]["shape"]) == 2 for k in range(5, 9) if at(k) >= 0)
    return None


def analyse_all(result, name, opcode):
    """the operator under test first, then every other operator of the source network (role "neighbour"): both halves of
    the property are decided for each of them"""
    occ = 0
    if "#" in opcode:
        opcode, occ = opcode.split("#")[0], int(opcode.split("#")[1])
    src_ops = tflsum.summarise(result["job"]["tflite"])["subgraphs"][0]["operators"]
    tgt = [i for i, o in enumerate(src_ops) if o["opcode"] == opcode]
    ti = tgt[occ] if len(tgt) > occ else None
    infos = [analyse(result, name, opcode, ti)]
    if result["status"] == "ok" and ti is not None:
        for i, o in enumerate(src_ops):
            if i != ti:
                a = analyse(result, name, o["opcode"], i)
                a["role"] = "neighbour"
                a["op_index"] = i
                infos.append(a)
    return infos


def analyse(result, name, opcode, ti=None):
    """one operator of one compiled boundary network -> dict(verdict fields) ; never raises for a well-formed result"""
    try:
        from checks import c11
    except ImportError:
        import c11
    path = result["job"]["tflite"]
    src = tflsum.summarise(path)
    s0 = src["subgraphs"][0]
    tgt = [i for i, o in enumerate(s0["operators"]) if o["opcode"] == opcode]
    info = dict(net=name, opcode=opcode, accelerator=result["job"]["args"][1], status=result["status"])
    if ti is None and not tgt:
        info["error"] = "source network has no %s" % opcode
        return info
    if ti is None:
        ti = tgt[0]
    out_names = [s0["tensors"][t]["name"] for t in s0["operators"][ti]["outputs"]]
    listed = report_lines_for(opcode)
    info["in_report"] = listed is not None
    if opcode in (MX, AV):
        try:
            pf = op_facts(s0, s0["operators"][ti])
            ih, iw = pf["ifm"]["shape"][1], pf["ifm"]["shape"][2]
            # the one case fixup_pool_strides is meant for: the window is the whole IFM and moves by itself
            info["global_pool"] = bool(pf["kh"] == pf["sh"] == ih and pf["kw"] == pf["sw"] == iw)
            info["ofm_hw"] = list(pf["ofm"]["shape"][1:3])
        except Exception:
            pass
    real, type_supported, _ = eval_listed_real(path, opcode, out_names[0] if out_names else None)
    facts = op_facts(s0, s0["operators"][ti])
    if opcode == LSTM:
        try:
            facts["is_variable"] = variable_flags(path)
        except Exception:
            pass
    rows = []
    if listed is not None and real is not None:
        docs_real = [d for d, _, _, _ in real]
        if [squash_ws(x) for x in docs_real] != [squash_ws(x) for x in listed]:
            info["listed_mismatch"] = True   # reported by the report check
        for d, v, fn, k in real:
            try:
                dv = doc_oracle(d, facts, src)
            except Exception as ex:  # an oracle that cannot be evaluated makes no claim
                dv = None
            rows.append(dict(fn=fn, real=v, doc=dv, order=k))
    info["constraints"] = [r for r in rows if r["real"] is not True or r["doc"] is False]
    # what the drivers do: evaluate in their order and stop at the first constraint that does not answer True
    first = next((r for r in sorted(rows, key=lambda r: r["order"]) if r["real"] is not True), None)
    raises = [first] if first is not None and isinstance(first["real"], str) else []
    for r in rows:   # an exception after the first False is never reached
        if isinstance(r["real"], str) and r is not first:
            r["real"] = None
    info["real_all"] = (first is None if not raises else None) if listed is not None else False
    info["doc_all"] = all((r["doc"] if r["doc"] is not None else r["real"] in (True, None)) for r in rows) if listed is not None else False
    info["failing_real"] = [r["fn"] for r in rows if r["real"] is False]
    info["failing_doc"] = [r["fn"] for r in rows if r["doc"] is False]
    info["raising"] = [(r["fn"], r["real"]) for r in raises]
    if result["status"] != "ok":
        info["placement"] = "none"
        info["crash"] = "%s at %s" % (result.get("exception", "exit code %s" % result.get("exit_code")), result.get("crash_site"))
        info["crash_site"] = (result.get("crash_site") or "").split(":")[-1] or None
        info["exception_type"] = (result.get("exception") or "").split(":")[0] or None
        return info
    outp = compiles.artefact(result)
    out = tflsum.summarise(outp)
    o0 = out["subgraphs"][0]
    psi, phi = c11.witness(s0, o0)
    on_cpu = [i for i, j in phi.items() if j == ti]
    has_npu = any(o["opcode"] == "CUSTOM" and o["custom_code"] == "ethos-u" for o in o0["operators"])
    if on_cpu:
        info["placement"] = "cpu"
        i = on_cpu[0]
        o, s = o0["operators"][i], s0["operators"][ti]
        why = None
        if c11.op_sig(o) != c11.op_sig(s):
            why = "opcode/version/options differ"
        for kind in ("inputs", "outputs"):
            if why:
                break
            if len(o[kind]) != len(s[kind]):
                why = "number of %s differs" % kind
                break
            for a, b in zip(o[kind], s[kind]):
                if a < 0 or b < 0:
                    if not (a < 0 and b < 0):
                        why = "optional %s differs" % kind
                    continue
                ta, tb = o0["tensors"][a], s0["tensors"][b]
                if c11.tens_sig(ta) != c11.tens_sig(tb) or (ta["data_len"] and ta["data_sha"] != tb["data_sha"]) or \
                        (not ta["data_len"] and psi.get(a) != b):
                    why = "%s tensor %s differs from the source (name/shape/type/quantisation/data or wiring)" % (kind[:-1], ta["name"])
        info["cpu_changed"] = why
    elif any(o["opcode"] == opcode and k not in phi for k, o in enumerate(o0["operators"])):
        info["placement"] = "cpu"
        info["cpu_changed"] = "an operator %s is present in the output but does not match the source operator" % opcode
    elif has_npu:
        # absent from the CPU operators: accelerated, provided that whatever is still visible of its result in the output
        # model comes out of an ethos-u operator (an operator that merely vanished is neither accelerated nor on the CPU)
        info["placement"] = "npu"
        names = {t["name"]: k for k, t in enumerate(o0["tensors"])}
        for nm in out_names:
            k = names.get(nm)
            if k is None:
                continue
            prod = [o for o in o0["operators"] if k in o["outputs"]]
            if prod and not all(o["opcode"] == "CUSTOM" and o["custom_code"] == "ethos-u" for o in prod):
                info["placement"] = "removed"
                info["removed_detail"] = "its result %s is produced by %s" % (nm, [o["custom_code"] or o["opcode"] for o in prod])
    else:
        info["placement"] = "removed"
    return info


def random_nets(rng, n):
    """thorough tier: random values around the documented bounds"""
    out = []
    for i in range(n):
        kind = rng.choice(["conv_stride", "conv_kernel", "maxpool", "avgpool", "mean", "resize", "dw", "add", "tconv"])
        if kind == "conv_stride":
            sh, sw, iw = rng.choice([1, 2, 3, 4]), rng.choice([1, 2, 3, 4, 5, 6, 8, 9]), rng.choice([8, 9, 10, 12, 15, 16, 18])
            out.append(("rnd%d_conv_s%dx%d_w%d" % (i, sh, sw, iw), n_conv(stride=(sh, sw), ish=(1, rng.choice([4, 12]), iw, 4), padding=rng.choice(["SAME", "VALID"])), "CONV_2D", "random stride"))
        elif kind == "conv_kernel":
            kh, kw, d = rng.choice([1, 3, 32, 63, 64, 65]), rng.choice([1, 2, 63, 64, 65]), rng.choice([1, 1, 2])
            out.append(("rnd%d_conv_k%dx%d_d%d" % (i, kh, kw, d), n_conv(k=(kh, kw), d=(d, 1), ish=(1, 140, 70, 1), oc=1), "CONV_2D", "random kernel"))
        elif kind in ("maxpool", "avgpool"):
            kh, kw = rng.choice([1, 2, 8, 9, 255, 256, 257]), rng.choice([1, 2, 8, 9, 256, 257])
            s = (rng.choice([1, 2, 3, 4]), rng.choice([1, 2, 3, 4]))
            pd = rng.choice(["SAME", "VALID"])
            out.append(("rnd%d_%s_k%dx%d_s%dx%d_%s" % (i, kind, kh, kw, s[0], s[1], pd),
                        n_pool(MX if kind == "maxpool" else AV, (kh, kw), s, pd, ish=(1, 260, 260, 1)), MX if kind == "maxpool" else AV, "random pool"))
        elif kind == "mean":
            shape = (1, rng.choice([1, 4, 255, 256, 257]), rng.choice([4, 256, 257, 4096, 4097]), rng.choice([1, 2, 8]))
            axes = rng.choice([(1, 2), (1,), (2,)])
            dt = rng.choice(["int8", "uint8", "int16"])
            out.append(("rnd%d_mean_%s_%s_%s" % (i, "x".join(map(str, shape)), "".join(map(str, axes)), dt), n_mean(shape, axes, dt), "MEAN", "random mean"))
        elif kind == "resize":
            ih, iw, f = rng.choice([1, 2, 4, 5]), rng.choice([2, 3, 4]), rng.choice([2, 3, 4, 8, 16])
            al, hp = rng.random() < 0.3, rng.random() < 0.3
            osh = (1, (ih - 1) * f + 1, (iw - 1) * f + 1, 1) if al else (1, ih * f, iw * f, 1)   # 1 channel: see resize_nn_align_4_7
            k = rng.choice([RB, RN])
            out.append(("rnd%d_%s_%dx%d_x%d_a%d_h%d" % (i, k[7:10], ih, iw, f, al, hp), n_resize(k, (1, ih, iw, 1), osh, al, hp), k, "random resize"))
        elif kind == "dw":
            s, m, c = (rng.choice([1, 3, 4]), rng.choice([1, 3, 4])), rng.choice([1, 2, 3]), rng.choice([1, 2])
            out.append(("rnd%d_dw_s%dx%d_m%d_c%d" % (i, s[0], s[1], m, c), n_dw(s=s, mult=m, ish=(1, 12, 12, c)), "DEPTHWISE_CONV_2D", "random depthwise"))
        elif kind == "add":
            s1 = [rng.choice([1, 2]), rng.choice([1, 8]), rng.choice([1, 8, 65535, 65536]), rng.choice([1, 4])]
            s2 = [s1[0]] + [rng.choice([1, d]) for d in s1[1:]]
            out.append(("rnd%d_add_%s_%s" % (i, "x".join(map(str, s1)), "x".join(map(str, s2))), n_ew(rng.choice(["ADD", "MUL", "SUB"]), s1, s2), None, "random elementwise"))
        else:
            s = rng.choice([(1, 1), (2, 2), (1, 2), (2, 1), (3, 3)])
            k = rng.choice([(1, 1), (2, 2), (3, 3), (1, 3)])
            pd = rng.choice(["SAME", "VALID"])
            out.append(("rnd%d_tconv_s%dx%d_k%dx%d_%s" % (i, s[0], s[1], k[0], k[1], pd), n_tconv(s, k, pd, ish=(1, rng.choice([1, 4]), 6, 4)), "TRANSPOSE_CONV", "random tconv"))
    return out


def pool_items(a, key):
    for k in ("global_pool", "ofm_hw"):
        if k in a:
            key[k] = a[k]
    return key


def classify(a):
    v = classify0(a)
    if v is None:
        return None
    key = pool_items(a, v[0])
    if a.get("role") == "neighbour":
        key.update({"role": "neighbour", "opcode": a["opcode"], "op_index": a["op_index"]})
    return key, v[1]


def classify0(a):
    """violation (key, what) of one analysed compilation, or None.  The documented reading of a sentence decides where one
    exists, the constraint function's own answer elsewhere (doc_all)."""
    net = a["net"]
    if a.get("error"):
        return None
    if a["placement"] == "none":
        con = (a["failing_doc"] or a["failing_real"] or [x[0] for x in a["raising"]] or [None])[0]
        return ({"kind": "crash", "net": net, "crash_site": a.get("crash_site"), "exception_type": a.get("exception_type"), "constraint": con},
                "compiler crashed (%s) on an operator %s: %s" % (a.get("crash"), "for which every listed constraint holds" if a["doc_all"]
                                                                 else "that violates listed constraint(s) %s and had to stay on the CPU" % (a["failing_doc"] or a["failing_real"] or a["raising"]), net))
    if a["placement"] == "removed":
        return ({"kind": "removed", "net": net, "opcode": a["opcode"], "all_listed_hold": bool(a["doc_all"])},
                "%s %s is neither in an ethos-u operator nor a CPU operator of the output%s (net %s)" % (
                    a["opcode"], "for which every listed constraint holds" if a["doc_all"] else "(violating a listed constraint)",
                    ": " + a["removed_detail"] if a.get("removed_detail") else "", net))
    if a["placement"] == "npu" and not a["doc_all"]:
        fr = a["failing_real"]
        con = (fr or a["failing_doc"] or [None])[0]
        cause = "enforced_constraint_not_respected" if fr else "documented_sentence_stricter_than_code"
        return ({"kind": "npu_although_listed_constraint_fails", "net": net, "constraint": con, "cause": cause},
                "%s placed on the NPU although listed constraint %s fails (%s; net %s)" % (a["opcode"], con, cause, net))
    if a["placement"] == "cpu" and a["doc_all"] and a["in_report"]:
        fr = a["failing_real"]
        con = (fr or [None])[0]
        cause = "code_stricter_than_documented_sentence" if fr else "placement_after_the_checks"
        return ({"kind": "cpu_although_all_listed_constraints_hold", "net": net, "constraint": con, "cause": cause},
                "%s stays on the CPU although every constraint the report lists for it holds (%s%s; net %s)" % (
                    a["opcode"], cause, " %s" % con if con else "", net))
    if a["placement"] == "cpu" and a.get("cpu_changed"):
        return ({"kind": "cpu_operator_changed", "net": net, "opcode": a["opcode"]},
                "CPU-resident %s (violating %s) did not stay unchanged: %s (net %s)" % (
                    a["opcode"], (a["failing_doc"] or a["failing_real"] or ["a listed constraint"])[0], a["cpu_changed"], net))
    return None


def run(tier):
    res = vlib.Result("C16", tier, "other")
    b = vlib.build_property("C16")
    vlib.proof_coverage(res, b, [
        "tools/constraints2gallina.py: dedicated Python-ast -> Gallina translator for the constraint methods (accessor table, "
        "statement table, intrinsics prelude; see its docstring) and the introspection/tracing of the live classes",
        "the documented readings in coq/model/Constraints.v (each tied to the report's sentence by documented_sentences)",
        "extraction (ExtrOcamlBasic only) + ocaml/driver.ml for the correspondence run",
        "placement: tools/tflsum.py, tools/netgen.py, Vela's reader for evaluating the listed constraints on the source operator"])
    okx, xlog = vlib.build_extraction("constraints")
    rng = random.Random(vlib.seed())
    new_violation = [False]

    def viol(key, detail, what, no_input=False):
        if res.violation(key, detail, what, no_input=no_input):
            new_violation[0] = True

    # (a) correspondence
    model_diffs, doc_diffs, cstats = run_correspondence(res, tier, rng, okx)
    # (b) report
    rproblems, rrows = check_report()
    for p in rproblems:
        key = {"kind": "report_lists_not_enforced_set", "operator": p.get("operator", "*")}
        viol(key, p, "generated report does not list exactly the enforced constraints for %s: not listed %r, listed but not enforced %r" % (
            p.get("operator", "the operator table"), p.get("enforced_but_not_listed", p.get("missing")), p.get("listed_but_not_enforced", p.get("extra"))))
    vproblems, vcount = check_value_lists()
    for p in vproblems:
        viol({"kind": "report_value_list_differs_from_enforced_set", "constraint": p["constraint"]}, p,
             "the generated report prints %r for %s but the predicate enforces cls.%s: printed but not enforced %r, enforced but not printed %r" % (
                 p["sentence"], p["constraint"], p["class_constant"], p["printed_but_not_enforced"], p["enforced_but_not_printed"]))
    for name, d in doc_diffs.items():
        if d["documented"] == 0 and d["real"] == 1:
            kind, cause = "npu_although_listed_constraint_fails", "documented_sentence_stricter_than_code"
        elif d["documented"] == 1 and d["real"] == 0:
            kind, cause = "cpu_although_all_listed_constraints_hold", "code_stricter_than_documented_sentence"
        else:
            kind, cause = "constraint_function_raises", "exception_in_constraint_function"
        viol({"kind": kind, "constraint": name, "cause": cause, "level": "constraint_function"},
             dict(d, replay="TFLiteSupportedOperators.%s on an operator with these parameters" % name),
             "the sentence the report prints for %s and the predicate the compiler enforces differ: parameters %s -> documented %s, enforced %s" % (
                 name, json.dumps(d["params"])[:160], d["documented"], d["real"]))
    # (c) placement
    nets = list(NETS) + pair_nets() + list(LSTM_NETS) + list(MEMONLY_NETS)
    n_fixed = len(nets)
    if tier == "thorough":
        nets += random_nets(random.Random("c16rnd/%d" % vlib.seed()), 150)
    jobs = []
    d = os.path.join(vlib.BUILD, "c16nets")
    os.makedirs(d, exist_ok=True)
    rot = ["ethos-u55-128", "ethos-u65-256", "ethos-u55-32", "ethos-u65-512", "ethos-u55-256", "ethos-u55-64"]
    meta = {}
    for i, (name, builder, opcode, what) in enumerate(nets):
        net = builder(random.Random("c16/" + name))
        data = net.build()
        if opcode is None:
            opcode = net.ops[0]["kind"]
        sha = hashlib.sha256(data).hexdigest()[:16]
        path = os.path.join(d, "%s-%s.tflite" % (name, sha))
        if not os.path.exists(path):
            with open(path + ".tmp%d" % os.getpid(), "wb") as f:
                f.write(data)
            os.replace(path + ".tmp%d" % os.getpid(), path)
        meta[name] = (opcode, what)
        if tier == "thorough":
            accs = THOROUGH_ACCS if i < n_fixed else [rot[i % 6], rot[(i + 3) % 6]]
        elif name.startswith("pair_conv_s4_") and name.split("_")[-1] in ("logistic", "tanh", "swish", "relu"):
            accs = THOROUGH_ACCS   # LUT fusing depends on the accelerator's SHRAM layout: all six (relu: leaky_relu)
        elif name.startswith("pair_") and name.split("_")[-1] in ("logistic", "tanh", "swish", "relu"):
            accs = [rot[i % 2], rot[2 if i % 2 == 0 else 5]]   # one with SHRAM LUT banks, one without
        else:
            accs = [rot[i % 6]] + ([rot[(i + 3) % 6]] if i % 10 == 0 else [])
        for acc in accs:
            jobs.append({"tflite": path, "sha": sha, "args": ["--accelerator-config", acc] + EXTRA_ARGS.get(name, []), "capture": False,
                         "family": "c16:" + name, "seed": "c16"})
    results = compiles.run_all(jobs, timeout=900)
    placed = collections.Counter()
    inside = outside = 0
    samples = []
    analysed = 0
    per_constraint = collections.Counter()
    operators_judged = [0]
    for r in results:
        name = r["job"]["family"][4:]
        opcode, what = meta[name]
        if r["status"] == "timeout":
            placed["timeout"] += 1
            continue
        try:
            infos = analyse_all(r, name, opcode)
        except Exception as ex:
            if len(res.notes) < 5:
                res.notes.append("analysis of %s failed: %r" % (name, ex))
            continue
        a = infos[0]
        for nb in infos[1:]:
            operators_judged[0] += 1
            v = classify(nb)
            if v:
                viol(v[0], {"analysis": nb, "probe": what, "network": r["job"]["tflite"], "args": r["job"]["args"]}, "C16: " + v[1])
        operators_judged[0] += 1
        analysed += 1
        placed[a["placement"]] += 1
        if a.get("doc_all"):
            inside += 1
        else:
            outside += 1
            for c in set(a.get("failing_doc", []) + a.get("failing_real", [])):
                per_constraint[c] += 1
        if len(samples) < 4 and a["placement"] in ("npu", "cpu") and name in ("conv_stride_h3", "conv_stride_h4", "maxpool_kh257", "mean_c4096"):
            samples.append({k: a[k] for k in ("net", "accelerator", "placement", "real_all", "doc_all", "failing_real", "failing_doc")})
        v = classify(a)
        if v:
            key, whatv = v
            viol(key, {"analysis": a, "probe": what, "network": r["job"]["tflite"], "args": r["job"]["args"],
                       "replay_cmd": "cd /verif && PYTHONPATH=%s /venv/bin/python -m ethosu.vela %s --output-dir /verif/build/c16replay %s" % (
                           vlib.REPO, r["job"]["tflite"], " ".join(r["job"]["args"]))}, "C16: " + whatv)
    res.cov.update({
        "programs": analysed, "operators_judged": operators_judged[0], "placement": dict(placed), "networks": len(nets), "compilations": len(jobs),
        "networks_all_listed_hold": inside, "networks_some_listed_fails": outside, "failing_constraint_histogram": dict(per_constraint),
        "correspondence": cstats, "model_vs_real_differences": len(model_diffs),
        "documented_vs_enforced_differences": sorted(doc_diffs), "report_rows_checked": rrows, "report_problems": len(rproblems),
        "report_value_lists_checked": vcount, "report_value_list_problems": len(vproblems),
        "generated_vs_checked_in_report": report_vs_checked_in()[:12],
        "evaluations": cstats["cases"] + analysed + rrows, "distinct_nontrivial": cstats["distinct"] + len(nets),
        "rule": "correspondence: distinct (constraint, real answer, parameters) triples evaluated on real Operation objects by the real "
                "constraint methods and by the extracted translated predicates; placement: distinct boundary networks (single operators, operator + "
                "neighbour, and <violating producer> -> <conforming follower> pairs; the pairs on all six accelerators), each compiled "
                "for 1-2 (thorough: 6) accelerators, rotating over the six, every operator of every network judged by the documented reading of every listed sentence (real constraint "
                "function where no numeric reading exists) against the operator's presence in the output model",
        "samples": samples or [{"note": "none"}],
        "disagreements_checked": len(model_diffs) + len(doc_diffs),
    })
    res.assumptions += ["sampled boundary networks and accelerators", "documented readings of the report's sentences as fixed in coq/model/Constraints.v "
                        "and tools/checks/c16.py doc_oracle (the reading most favourable to the code where a sentence is ambiguous)",
                        "strides and dilations are positive (Kernel asserts it) in the correspondence domain"]
    # a broken obligation / correspondence is always reported: the concrete inputs above may have another cause
    if not b["ok"]:
        vlib.report_broken_build(res, b, None)
    if model_diffs or not okx:
        md = model_diffs[0] if model_diffs else {}
        viol({"correspondence": md.get("constraint", "extraction"), "kind": "model_vs_real"},
             {"first": md, "count": len(model_diffs), "extraction_ok": okx, "log": "" if okx else xlog[-1500:]},
             "translated predicate and real constraint method disagree (%s)" % (md.get("constraint", "extraction failed")), no_input=True)
    if analysed == 0:
        viol({"machinery": "no boundary network analysed"}, {"placed": dict(placed)}, "no boundary compilation could be analysed", no_input=True)
    return res.finish()
