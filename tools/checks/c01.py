"""C01 -- the compiled model computes the same function as the source model (partial).
The command streams of the output file are EXECUTED by the extracted Coq interpreter hw/NpuExec.v (decode ->
register machine -> DMA / convolution / depthwise / pooling / elementwise (add, sub, mul, min, max) datapath, 8-bit table look-up, weight stream decoded by the
reference-decoder model and un-reordered through the brick-traversal model, scale records read from the
constants tensor) on random inputs, and the result is compared bit for bit with a transcription of the
TFLite reference kernels evaluated on the SOURCE model (tools/refnet.py)."""
import collections
import json
import shutil
import os
import random
import subprocess

import numpy as np

import artefacts
import compiles
import models
import refnet
import tflsum
import vlib

ELEM = {"int8": 1, "uint8": 1, "int16": 2, "int32": 4}
CASE_TIMEOUT = 1500
FAMS = ["single:conv@8", "single:dw@8", "single:maxpool@8", "single:avgpool@8", "single:fc@8", "conv_chain", "single:transpose@8",
        "single:add@8", "single:sub@8", "single:mul@8", "single:add_bcast@8", "single:mul_scalar@8", "single:concat@u8", "diamond", "siamese", "single:logistic@8", "single:tanh@8", "single:lrelu@8", "single:hswish@8",
        "single:transpose@8", "single:reshape@8", "single:pad@8", "single:slice@8", "single:concat@8", "conv_chain",
        "single:conv", "single:dw", "single:fc", "single:maxpool", "single:avgpool", "single:pad_bc@8",
        "single:quantize", "single:resize_nearest@8", "single:resize_bilinear@8", "single:tconv@8", "upscale_chain", "conv_chain_big", "weights_heavy", "single:mean@8", "single:transpose_c@8", "pow2_rescale", "single:transpose_c@8", "pow2_rescale", "single:prelu@8", "single:prelu@8", "mixed_exact", "mixed_exact", "mixed_exact",
        "single:conv_dil@8", "single:dw_dil@8", "single:avgpool_s4@8", "single:split@8", "single:mul_max@8", "single:relu_chain@8",
        "single:relu@8", "single:abs@8", "single:minimum@8", "single:maximum@8", "single:conv_head",
        "single:slice_conv@8", "single:slice_conv@8", "memcpy_reshape",
        "single:mean_axis@8", "single:pool_big@8", "single:conv_stride_asym@8", "single:squeeze_expand@8", "single:ew16",
        "single:concat_hw@8", "single:pad_conv@8", "single:fc_batch@8", "single:tconv_var", "single:resize_x@8", "single:ew_rank@8",
        "single:conv_big_kernel@8", "single:pool_then_ew@8",
        "single:splitv@8", "single:slice_op@8", "single:unpack_pack@8", "single:sqdiff@8", "single:quant_chain", "single:softmax@8", "single:softmax@8", "single:argmax@8",
        "single:mean_big@8", "single:pad_pool@8", "single:pad_pool@8", "single:slice_masks@8", "single:dw_mult@8", "single:conv_1d@8", "ew_chain", "concat_split",
        "single:exp@8", "single:rsqrt@8", "rewrite_patterns", "rewrite_patterns",
        "single:conv_groups@8", "single:conv_groups@8", "single:pool_global_stride@8",
        "single:ew_self@8", "single:concat_dup@8", "single:ew_bcast2@8", "single:split_partial@8", "single:reshape_fan@8", "cpu_fan", "cpu_fan", "single:resize_hp16@8",
        "branchy", "ew_dag", "multi_input", "split_conv", "mixed_cpu", "multi_custom", "one_channel_tail",
        "unsupported:reshape_requant", "unsupported:squeeze_requant", "single:mean_big@8"]
if os.environ.get("VERIF_C01_FAMS"):        # development aid: restrict the generated part to some families
    FAMS = os.environ["VERIF_C01_FAMS"].split(",")


def macs_of(ref):
    total = 0
    for op in ref.sg["operators"]:
        if op["opcode"] in ("CONV_2D", "DEPTHWISE_CONV_2D", "FULLY_CONNECTED"):
            w = ref.tens(op["inputs"][1])["shape"]
            o = ref.tens(op["outputs"][0])["shape"]
            n = 1
            for d in o:
                n *= d
            k = 1
            for d in w[1:]:
                k *= d
            total += n * k if op["opcode"] != "DEPTHWISE_CONV_2D" else n * w[1] * w[2]
        else:
            # every other operator costs the interpreter at least one step per output element (per window element for pools,
            # per kernel element and input channel for a transposed convolution, per input element for a mean)
            o = ref.tens(op["outputs"][0])["shape"] if op["outputs"] else []
            n = 1
            for d in o:
                n *= d
            k = 1
            opts = op.get("options") or {}
            if op["opcode"] in ("MAX_POOL_2D", "AVERAGE_POOL_2D"):
                k = int(opts.get("FilterHeight", 1)) * int(opts.get("FilterWidth", 1))
            elif op["opcode"] == "TRANSPOSE_CONV":
                w = ref.tens(op["inputs"][1])["shape"]
                for d in w[1:]:
                    k *= d
            elif op["opcode"] == "MEAN":
                i = ref.tens(op["inputs"][0])["shape"]
                k = 1
                for d in i:
                    k *= d
                k = max(1, k // max(1, n))
            elif op["opcode"] in ("RESIZE_BILINEAR", "RESIZE_NEAREST_NEIGHBOR"):
                k = 4
            total += n * k
    return total


def build_case(r, art, rng, max_macs):
    src_path = os.path.join(r["job"]["out_dir"], "model.tflite")
    if not os.path.exists(src_path):
        src_path = r["job"].get("tflite")
    ref = refnet.Ref(src_path)
    if macs_of(ref) > max_macs:
        raise refnet.Unsupported("too large for the interpreter budget")
    s = art["summary"]
    sg = s["subgraphs"][0]
    mixed = any(not (o["opcode"] == "CUSTOM" and o["custom_code"] == "ethos-u") for o in sg["operators"])
    alloc = tflsum.offline_allocation(s)
    if alloc is None:
        raise refnet.Unsupported("no arena offsets")
    if mixed:
        return build_mixed_case(r, art, ref, rng, alloc)
    inputs = {}
    runs = []
    flash = art["npu"][0]["flash"]
    runs.append([0, 0, len(flash)] + list(flash))

    def to_bytes(vals, es):
        out = []
        for v in vals:
            u = int(v) % (1 << (8 * es))
            out += [(u >> (8 * k)) & 255 for k in range(es)]
        return out
    for si, oi in zip(ref.sg["inputs"], sg["inputs"]):
        t = ref.tens(si)
        if t["type"] not in ("int8", "uint8", "int16"):
            raise refnet.Unsupported("input type %s" % t["type"])
        es = ELEM[t["type"]]
        n = int(np.prod(t["shape"])) if t["shape"] else 1
        lo, hi = refnet.QRANGE[t["type"]]
        mode = rng.choice(["rand", "rand", "extreme", "narrow"])
        fixed = (r["job"].get("inputs") or {}).get(str(len(inputs)))
        if fixed is not None:     # corpus networks kept from findings name the inputs that exposed them
            data = np.array((fixed * (n // len(fixed) + 1))[:n], dtype=np.int64)
        elif mode == "rand":
            data = np.array([rng.randint(lo, hi) for _ in range(n)], dtype=np.int64)
        elif mode == "extreme":
            data = np.array([rng.choice([lo, hi, lo + 1, hi - 1, 0]) for _ in range(n)], dtype=np.int64)
        else:
            c = rng.randint(lo, hi)
            data = np.clip(np.array([c + rng.randint(-3, 3) for _ in range(n)], dtype=np.int64), lo, hi)
        inputs[si] = data.reshape(t["shape"])
        off = alloc["offsets"][oi]
        if off < 0:
            raise refnet.Unsupported("input without arena offset")
        runs.append([1, off, n * es] + to_bytes(data, es))
    want = ref.run(inputs)
    outs = []
    expect = []
    layout = []          # (elements, element size, signed) of every output
    for si, oi in zip(ref.sg["outputs"], sg["outputs"]):
        off = alloc["offsets"][oi]
        v = want[si].reshape(-1)
        ty = ref.tens(si)["type"]
        if ty not in ELEM:
            raise refnet.Unsupported("output type %s" % ty)
        if off < 0:
            raise refnet.Unsupported("output without arena offset")
        outs.append([1, off, len(v) * ELEM[ty]])
        expect += [int(x) for x in v]
        layout.append((len(v), ELEM[ty], ty != "uint8"))
    from ethosu.vela.architecture_features import Accelerator, create_default_arch
    arch = create_default_arch(Accelerator(artefacts.job_accel(r["job"])))
    flat = [int(arch.ncores), int(arch.ofm_ublock.depth), int(arch.ifm_ublock.depth), int(arch.shram_lut_address), len(runs)]
    for run in runs:
        flat += run
    flat.append(len(outs))
    for o in outs:
        flat += o
    streams = [n["words"] for n in art["npu"]]
    if any(w is None for w in streams):
        raise refnet.Unsupported("stream does not parse")
    flat.append(len(streams))
    for w in streams:
        flat += [len(w)] + w
    tol = 1 if getattr(ref, "padded_avg", False) or getattr(ref, "requant_concat", False) or getattr(ref, "has_table_op", False) else 0
    signed = layout
    return flat, expect, tol, signed


def draw_input(r, rng, t, index):
    n = int(np.prod(t["shape"])) if t["shape"] else 1
    lo, hi = refnet.QRANGE[t["type"]]
    mode = rng.choice(["rand", "rand", "extreme", "narrow"])
    fixed = (r["job"].get("inputs") or {}).get(str(index))
    if fixed is not None:
        return np.array((fixed * (n // len(fixed) + 1))[:n], dtype=np.int64)
    if mode == "rand":
        return np.array([rng.randint(lo, hi) for _ in range(n)], dtype=np.int64)
    if mode == "extreme":
        return np.array([rng.choice([lo, hi, lo + 1, hi - 1, 0]) for _ in range(n)], dtype=np.int64)
    c = rng.randint(lo, hi)
    return np.clip(np.array([c + rng.randint(-3, 3) for _ in range(n)], dtype=np.int64), lo, hi)


class Mixed:
    """an output model with CPU operators: its operators are run in file order over ONE simulated tensor arena - an
    Ethos-U operator by the extracted interpreter (arena in, arena out), a CPU operator by the reference kernels /
    stand-ins of tools/refnet.py on the bytes found at its operands' arena offsets.  Called from the worker pool;
    returns what the interpreter returns for an NPU-only model: [1] + bytes of the network outputs, or [0]."""

    def __init__(self, r, art, alloc, inputs, hdr, outs_idx):
        self.r, self.art, self.alloc, self.inputs, self.hdr, self.outs_idx = r, art, alloc, inputs, hdr, outs_idx
        self.sg = art["summary"]["subgraphs"][0]
        self.size = sum(len(n["words"]) for n in art["npu"]) + 1000 * len(self.sg["operators"])

    def __len__(self):
        return self.size

    def nbytes(self, ti):
        t = self.sg["tensors"][ti]
        n = 1
        for d in t["shape"]:
            n *= d
        es = {"bool": 1, "float32": 4, "int64": 8, "float16": 2}.get(t["type"]) or ELEM.get(t["type"])
        if es is None:
            raise refnet.Unsupported("tensor type %s" % t["type"])
        return n * es, es, t["type"] != "uint8" and t["type"] != "bool"

    def put(self, arena, ti, arr):
        off = self.alloc["offsets"][ti]
        nb, es, _ = self.nbytes(ti)
        if off < 0:
            raise refnet.Unsupported("tensor without arena offset (put %d %s)" % (ti, self.sg["tensors"][ti]["name"]))
        k = off
        if self.sg["tensors"][ti]["type"] == "float32" and np.asarray(arr).dtype.kind == "f":
            arr = np.asarray(arr, dtype=np.float32).view(np.uint32)      # real float values travel as their bit patterns
        for v in np.asarray(arr, dtype=np.int64).reshape(-1):
            u = int(v) % (1 << (8 * es))
            for b in range(es):
                arena[k] = (u >> (8 * b)) & 255
                k += 1

    def get(self, arena, ti):
        off = self.alloc["offsets"][ti]
        nb, es, signed = self.nbytes(ti)
        if off < 0:
            raise refnet.Unsupported("tensor without arena offset (get %d %s)" % (ti, self.sg["tensors"][ti]["name"]))
        vals = []
        for k in range(off, off + nb, es):
            u = sum(arena[k + b] << (8 * b) for b in range(es))
            vals.append(u - (1 << (8 * es)) if signed and u >= (1 << (8 * es - 1)) else u)
        res = np.array(vals, dtype=np.int64).reshape(self.sg["tensors"][ti]["shape"])
        if ti in getattr(self, "real", ()):
            res = (res % (1 << 32)).astype(np.uint32).view(np.float32)
        return res

    def __call__(self):
        try:
            return self.execute()
        except refnet.Unsupported as ex:
            if os.environ.get("VERIF_C01_DEBUG"):
                print("MIXED-UNSUPPORTED", self.r.get("net_desc"), ex, flush=True)
            return [0]

    def execute(self):
        oref = refnet.Ref(self.art["path"])
        tens = self.sg["tensors"]
        size = 0
        for ti, t in enumerate(tens):
            off = self.alloc["offsets"][ti] if ti < len(self.alloc["offsets"]) else -1
            if off >= 0 and not t["data_len"]:
                size = max(size, off + self.nbytes(ti)[0])
        arena = [0] * size
        self.real = set()                 # float32 tensors that hold real values (float island), not stand-in codes
        for ti, arr in self.inputs.items():
            if self.alloc["offsets"][ti] < 0 and not any(ti in op["inputs"] for op in self.sg["operators"]):
                continue                      # a network input that nothing reads has no place in the arena
            self.put(arena, ti, arr)
        npu = iter([n for n in self.art["npu"] if n["sg"] == 0])
        for op in self.sg["operators"]:
            if op["opcode"] == "CUSTOM" and op.get("custom_code") == "ethos-u":
                n = next(npu)
                if n["words"] is None:
                    return [0]
                flash = list(n["flash"])
                flat = self.hdr + [2, 0, 0, len(flash)] + flash + [1, 0, size] + arena + [1, 1, 0, size, 1, len(n["words"])] + n["words"]
                o = models.run("exec", [flat], exe_name="npuExec", timeout=CASE_TIMEOUT)[0]
                if o[0] != 1:
                    return [0]
                arena = list(o[1:1 + size])
            else:
                val = {}
                for ti in op["inputs"]:
                    if ti >= 0 and not tens[ti]["data_len"]:
                        val[ti] = self.get(arena, ti)
                oref.step(op, val)
                for ti in op["outputs"]:
                    if np.asarray(val[ti]).dtype.kind == "f":
                        self.real.add(ti)
                    self.put(arena, ti, val[ti])
        out = [1]
        for ti in self.outs_idx:
            off = self.alloc["offsets"][ti]
            out += arena[off: off + self.nbytes(ti)[0]]
        return out


def build_mixed_case(r, art, ref, rng, alloc):
    sg = art["summary"]["subgraphs"][0]
    inputs, feed = {}, {}
    for k, (si, oi) in enumerate(zip(ref.sg["inputs"], sg["inputs"])):
        t = ref.tens(si)
        if t["type"] not in ("int8", "uint8", "int16"):
            raise refnet.Unsupported("input type %s" % t["type"])
        data = draw_input(r, rng, t, k).reshape(t["shape"])
        inputs[si], feed[oi] = data, data
    want = ref.run(inputs)
    expect, layout = [], []
    if len(ref.sg["outputs"]) != len(sg["outputs"]):
        # (one tensor listed twice among the source's outputs comes out once: the open C11 finding, not a question of values)
        raise refnet.Unsupported("number of graph outputs differs between source and output model (C11)")
    for si in ref.sg["outputs"]:
        v = want[si].reshape(-1)
        ty = ref.tens(si)["type"]
        if ty not in ELEM or ty == "int32":
            raise refnet.Unsupported("output type %s" % ty)
        expect += [int(x) for x in v]
        layout.append((len(v), ELEM[ty], ty != "uint8"))
    from ethosu.vela.architecture_features import Accelerator, create_default_arch
    arch = create_default_arch(Accelerator(artefacts.job_accel(r["job"])))
    hdr = [int(arch.ncores), int(arch.ofm_ublock.depth), int(arch.ifm_ublock.depth), int(arch.shram_lut_address)]
    tol = 1 if getattr(ref, "padded_avg", False) or getattr(ref, "requant_concat", False) or getattr(ref, "has_table_op", False) else 0
    return Mixed(r, art, alloc, feed, hdr, list(sg["outputs"])), expect, tol, layout


def decode_outputs(data, layout):
    """bytes of the output tensors -> element values"""
    vals, pos = [], 0
    for n, es, sg in layout:
        for _ in range(n):
            if pos + es > len(data):
                return vals
            u = sum(data[pos + k] << (8 * k) for k in range(es))
            vals.append(u - (1 << (8 * es)) if sg and u >= (1 << (8 * es - 1)) else u)
            pos += es
    return vals


def rewrite_cases(n, rng):
    """operator triples SPACE_TO_BATCH_ND / VALID convolution / BATCH_TO_SPACE_ND around the paddings and crops of a SAME
    and of a VALID dilated convolution: exact ones, and ones that are off on one axis or by one element"""
    cases, kinds = [], collections.Counter()
    while len(cases) < n:
        ax = []
        style = rng.choice(["same", "valid", "same", "valid", "mixed", "off", "free"])
        for a in range(2):
            i = rng.randrange(3, 13)
            k = 1 if style == "free" and rng.random() < 0.6 else rng.choice([1, 2, 3, 3])
            b = rng.choice([1, 2, 2, 3, 4])
            span = (k - 1) * b
            mode = style if style in ("same", "valid") else rng.choice(["same", "valid"])
            if style == "mixed":
                mode = ["same", "valid"][a]
            ct = rng.choice([0, 0, 0, 1, 2])
            lead = span // 2 if mode == "same" else 0
            o = i if mode == "same" else i - span
            if style == "off" and rng.random() < 0.7:
                if rng.random() < 0.5:
                    lead += rng.choice([-1, 1, 2])
                else:
                    o += rng.choice([-1, 1])
            pt = lead + ct
            if pt < 0 or o <= 0:
                ax = None
                break
            # trailing padding: up to a multiple of the block that leaves room for the result
            need = o + ct + span
            tot = max(i + pt, need)
            tot = -(-tot // b) * b
            if rng.random() < 0.2:
                tot += b
            pb = tot - i - pt
            cb = (tot // b - k + 1) * b - ct - o
            if pb < 0 or cb < 0 or tot // b - k + 1 <= 0:
                ax = None
                break
            ax.append((i, o, k, b, pt, pb, ct, cb))
        if ax is None:
            continue
        (ih, oh, kh, bh, pt, pb, ct, cb), (iw, ow, kw, bw, pl, pr, cl, cr) = ax
        kinds[style] += 1
        cases.append([ih, iw, rng.choice([1, 4, 8]), rng.choice([1, 4, 8]), kh, kw, bh, bw, pt, pb, pl, pr, ct, cb, cl, cr,
                      1 if rng.random() < 0.3 else 0])
    return cases, kinds


def rewrite_decisions(res, tier, okx):
    """correspondence of model/Rewrites.v dilated_decision with replace_dilated_convolution (run on operators that Vela's
    own reader built)"""
    import tempfile
    n = 300 if tier == "quick" else 6000
    rng = random.Random("c01rw/%d" % vlib.seed())
    cases, kinds = rewrite_cases(n, rng)
    tmp = tempfile.mkdtemp(prefix="c01rw_", dir=vlib.BUILD)
    cj, oj = os.path.join(tmp, "cases.json"), os.path.join(tmp, "out.json")
    json.dump(cases, open(cj, "w"))
    p = subprocess.run([vlib.PY, os.path.join(vlib.ROOT, "tools", "rewrite_worker.py"), cj, oj], env=vlib.py_env({"VERIF_TMP": tmp}),
                       capture_output=True, text=True, timeout=3000)
    if p.returncode != 0 or not os.path.exists(oj):
        res.violation({"machinery": "rewrite worker"}, {"stderr": p.stderr[-1500:]},
                      "C01: replace_dilated_convolution could not be run on generated operator triples", no_input=True)
        return {"cases": 0}
    impl = json.load(open(oj))
    shutil.rmtree(tmp, ignore_errors=True)
    rows = [(c, o) for c, o in zip(cases, impl) if o[0] >= 0]
    model = models.run("dilated_decision", [[c[0], c[1], o[1], o[2], c[4], c[5], c[6], c[7], c[8], c[10], c[12], c[14]] for c, o in rows]) if okx and rows else []
    dec = collections.Counter()
    bad = 0
    for (c, o), m in zip(rows, model):
        dec[(o[0], m[0])] += 1
        wrong_dil = o[0] in (1, 2) and (o[3], o[4]) != (c[6], c[7])
        if (o[0] != m[0] or wrong_dil) and bad < 5:
            bad += 1
            names = ["ih", "iw", "c", "oc", "kh", "kw", "bh", "bw", "pad_top", "pad_bottom", "pad_left", "pad_right", "crop_top", "crop_bottom",
                     "crop_left", "crop_right", "depthwise"]
            res.violation({"kind": "dilated_rewrite_decision", "case": c},
                          {"case": dict(zip(names, c)), "output_extent": o[1:3], "implementation (0 leave, 1 SAME, 2 VALID)": o[0],
                           "dilation set by the implementation": o[3:5], "model dilated_decision": m[0],
                           "replay_cmd": "cd /verif && echo '[%s]' > /tmp/c.json && PYTHONPATH=/repo /venv/bin/python tools/rewrite_worker.py /tmp/c.json /tmp/o.json && cat /tmp/o.json" % json.dumps(c)},
                          "C01: replace_dilated_convolution decides %d on SPACE_TO_BATCH_ND / convolution / BATCH_TO_SPACE_ND with paddings %s crops %s "
                          "(in %dx%d, kernel %dx%d, block %dx%d, out %dx%d) where the proved decision (props/C01.v dilated_rewrite_decision_sound) is %d: "
                          "the emitted convolution is not the chain it replaces" % (
                              o[0], [c[8], c[9], c[10], c[11]], [c[12], c[13], c[14], c[15]], c[0], c[1], c[4], c[5], c[6], c[7], o[1], o[2], m[0]))
    return {"cases": len(rows), "inconsistent_cases_skipped": len(cases) - len(rows), "styles": dict(kinds),
            "decisions (implementation, model) -> count": {"%d,%d" % k: v for k, v in sorted(dec.items())}}


def widened_kernels(res, tier, okx):
    """correspondence of model/Rewrites.v widened2 / hw_dilation with fixup_dilation_gt2 (run on operators that Vela's own
    reader built): the kernel plane the code writes, its shape and the hardware dilation it sets"""
    import tempfile
    n = 120 if tier == "quick" else 2400
    rng = random.Random("c01dil/%d" % vlib.seed())
    cases = []
    while len(cases) < n:
        kh, kw = rng.choice([1, 2, 3, 3]), rng.choice([1, 2, 3, 3])
        dh, dw = rng.choice([1, 2, 3, 4, 5, 6, 7, 8]), rng.choice([1, 2, 3, 4, 5, 6, 8, 9])
        if max(dh, dw) <= 2:
            continue
        u8 = 1 if rng.random() < 0.4 else 0
        cases.append([rng.randrange(4, 12), rng.randrange(4, 12), rng.choice([1, 4, 8]), rng.choice([1, 4, 8]), kh, kw, dh, dw, u8,
                      1 if rng.random() < 0.3 else 0])
    tmp = tempfile.mkdtemp(prefix="c01dil_", dir=vlib.BUILD)
    cj, oj = os.path.join(tmp, "cases.json"), os.path.join(tmp, "out.json")
    json.dump(cases, open(cj, "w"))
    p = subprocess.run([vlib.PY, os.path.join(vlib.ROOT, "tools", "rewrite_worker.py"), cj, oj, "dilation"], env=vlib.py_env({"VERIF_TMP": tmp}),
                       capture_output=True, text=True, timeout=3000)
    if p.returncode != 0 or not os.path.exists(oj):
        res.violation({"machinery": "rewrite worker (dilation)"}, {"stderr": p.stderr[-1500:]},
                      "C01: fixup_dilation_gt2 could not be run on generated convolutions", no_input=True)
        return {"cases": 0}
    impl = json.load(open(oj))
    shutil.rmtree(tmp, ignore_errors=True)
    model = models.run("widen_kernel", [[c[4], c[5], c[6], c[7], o["fill"]] + o["before"] for c, o in zip(cases, impl)]) if okx else []
    bad = 0
    fills = collections.Counter()
    for c, o, m in zip(cases, impl, model):
        fills["zero" if o["fill"] == 0 else "non-zero"] += 1
        if o["after"] != m and bad < 5:
            bad += 1
            res.violation({"kind": "widened_kernel", "case": c},
                          {"case [h, w, c, oc, kh, kw, dil_h, dil_w, uint8, depthwise]": c, "weights zero point": o["fill"],
                           "kernel plane (in 0, out 0) before": o["before"],
                           "implementation [hw dilation h, w, new kernel h, w, plane...]": o["after"], "model": m},
                          "C01: fixup_dilation_gt2 on a %dx%d kernel with dilation %dx%d (weights zero point %d) writes a kernel / hardware dilation "
                          "other than the proved one (props/C01.v widened_kernel_is_dilation): the emitted convolution is not the "
                          "dilated convolution of the source" % (c[4], c[5], c[6], c[7], o["fill"]))
    return {"cases": len(model), "weights_zero_point": dict(fills)}


def pad_splits(res, tier, okx):
    """correspondence of model/Rewrites.v pad_split with split_pad_to_sub_pad (run on PAD operators that Vela's own reader
    built): split or not, the axis kept, both paddings matrices, the extents of the tensor in between; and the source's
    paddings constant must be left as it was (it may be shared)"""
    import tempfile
    n = 150 if tier == "quick" else 3000
    rng = random.Random("c01pad/%d" % vlib.seed())
    cases = []
    for _ in range(n):
        style = rng.choice(["spatial", "channel", "batch", "ch+sp", "b+sp", "b+ch", "all", "none"])
        z = lambda on: [rng.choice([0, 1, 2, 3]), rng.choice([0, 0, 1, 2])] if on else [0, 0]      # noqa: E731
        b = z(style in ("batch", "b+sp", "b+ch", "all"))
        c = z(style in ("channel", "ch+sp", "b+ch", "all"))
        hh, ww = z(style in ("spatial", "ch+sp", "b+sp", "all")), z(style in ("spatial", "ch+sp", "b+sp", "all") and rng.random() < 0.7)
        cases.append([rng.choice([1, 1, 2]), rng.randrange(1, 6), rng.randrange(1, 6), rng.choice([1, 3, 8])] + b + hh + ww + c)
    tmp = tempfile.mkdtemp(prefix="c01pad_", dir=vlib.BUILD)
    cj, oj = os.path.join(tmp, "cases.json"), os.path.join(tmp, "out.json")
    json.dump(cases, open(cj, "w"))
    p = subprocess.run([vlib.PY, os.path.join(vlib.ROOT, "tools", "rewrite_worker.py"), cj, oj, "padsplit"], env=vlib.py_env({"VERIF_TMP": tmp}),
                       capture_output=True, text=True, timeout=3000)
    if p.returncode != 0 or not os.path.exists(oj):
        res.violation({"machinery": "rewrite worker (padsplit)"}, {"stderr": p.stderr[-1500:]},
                      "C01: split_pad_to_sub_pad could not be run on generated PAD operators", no_input=True)
        return {"cases": 0}
    impl = json.load(open(oj))
    shutil.rmtree(tmp, ignore_errors=True)
    model = models.run("pad_split", [c[4:] for c in cases]) if okx else []
    bad = 0
    dec = collections.Counter()
    for c, o, m in zip(cases, impl, model):
        dec["split" if m[0] == 1 else "left alone"] += 1
        mid_ok = True
        if m[0] == 1 and o["r"][0] == 1:
            moved = m[10:18]
            mid_ok = o["mid"] == [c[a] + moved[2 * a] + moved[2 * a + 1] for a in range(4)]
        if (o["r"] != m or not mid_ok or not o["untouched"]) and bad < 5:
            bad += 1
            res.violation({"kind": "pad_split", "case": c},
                          {"shape": c[:4], "paddings [[b],[h],[w],[c]]": [c[4:6], c[6:8], c[8:10], c[10:12]],
                           "implementation [split, axis, kept(8), moved(8)]": o["r"], "tensor between the two": o.get("mid"),
                           "source paddings constant untouched": o["untouched"], "model": m},
                          "C01: split_pad_to_sub_pad on a PAD of %s with paddings %s: %s (props/C01.v pad_split_sound, pad_twice_is_pad_once)" % (
                              c[:4], [c[4:6], c[6:8], c[8:10], c[10:12]],
                              "the paddings constant of the source was modified in place" if (o["r"] == m and mid_ok) else
                              "the two operators it leaves are not the split that is proved to equal the original PAD"))
    return {"cases": len(model), "decisions": dict(dec)}


def avgpool_kernels(res, tier, okx):
    """correspondence of model/Rewrites.v diag_plane with convert_avg_pool_to_conv2d: the kernel written for an average pool
    with stride >= 4 (ones on the channel diagonal at every window position, scale 1 / (h * w), zero point 0)"""
    import tempfile
    n = 40 if tier == "quick" else 600
    rng = random.Random("c01avg/%d" % vlib.seed())
    cases = []
    for _ in range(n):
        k = rng.choice([1, 2, 3, 4, 4, 5])
        st = rng.choice([4, 4, 5, 6, 2, 3])
        cases.append([rng.randrange(max(k, st), 14), rng.randrange(max(k, st), 14), rng.choice([1, 2, 3, 7, 8, 16]), k, st, 1 if rng.random() < 0.3 else 0])
    tmp = tempfile.mkdtemp(prefix="c01avg_", dir=vlib.BUILD)
    cj, oj = os.path.join(tmp, "cases.json"), os.path.join(tmp, "out.json")
    json.dump(cases, open(cj, "w"))
    p = subprocess.run([vlib.PY, os.path.join(vlib.ROOT, "tools", "rewrite_worker.py"), cj, oj, "avgconv"], env=vlib.py_env({"VERIF_TMP": tmp}),
                       capture_output=True, text=True, timeout=3000)
    if p.returncode != 0 or not os.path.exists(oj):
        res.violation({"machinery": "rewrite worker (avgconv)"}, {"stderr": p.stderr[-1500:]},
                      "C01: convert_avg_pool_to_conv2d could not be run on generated average pools", no_input=True)
        return {"cases": 0}
    impl = json.load(open(oj))
    shutil.rmtree(tmp, ignore_errors=True)
    conv = [(c, o) for c, o in zip(cases, impl) if o["converted"]]
    model = models.run("diag_plane", [[c[2]] for c, o in conv]) if okx and conv else []
    bad = 0
    for (c, o), m in zip(conv, model):
        want_scale = float(np.float32(1 / (c[3] * c[3]))).hex()
        ok = (o["shape"] == [c[3], c[3], c[2], c[2]] and o["same_plane_everywhere"] and o["plane"] == m and o["zero_point"] == 0
              and o["scale"] == want_scale and c[4] >= 4)
        if not ok and bad < 5:
            bad += 1
            res.violation({"kind": "avgpool_kernel", "case": c},
                          {"case [h, w, c, k, stride, uint8]": c, "implementation": o, "model plane (row = input channel)": m, "scale wanted": want_scale},
                          "C01: convert_avg_pool_to_conv2d on a %dx%d average pool with stride %d over %d channels writes a kernel other than the "
                          "proved one (props/C01.v diagonal_kernel_keeps_channels_apart): the convolution is not the pool" % (c[3], c[3], c[4], c[2]))
    left = [c for c, o in zip(cases, impl) if not o["converted"]]
    for c in left:
        if c[4] >= 4 and bad < 5:
            bad += 1
            res.violation({"kind": "avgpool_not_converted", "case": c}, {"case": c},
                          "C01: an average pool with stride %d was not converted (the hardware has no such stride)" % c[4])
    return {"cases": len(cases), "converted": len(conv), "left alone (stride <= 3)": len(left)}


def conv_group_slices(res, tier, okx):
    """correspondence of model/Rewrites.v group_slices with convert_conv_groups: per group the input channels it reads, the
    filters (and biases) it gets, and the fused activation of the source on every group"""
    import tempfile
    n = 40 if tier == "quick" else 600
    rng = random.Random("c01grp/%d" % vlib.seed())
    cases = [[rng.randrange(2, 7), rng.randrange(2, 7), rng.choice([2, 2, 3, 4]), rng.choice([1, 2, 4, 8]), rng.choice([1, 2, 3, 8]),
              rng.choice([1, 3]), rng.randrange(2), 1 if rng.random() < 0.75 else 0, rng.randrange(3)] for _ in range(n)]
    tmp = tempfile.mkdtemp(prefix="c01grp_", dir=vlib.BUILD)
    cj, oj = os.path.join(tmp, "cases.json"), os.path.join(tmp, "out.json")
    json.dump(cases, open(cj, "w"))
    p = subprocess.run([vlib.PY, os.path.join(vlib.ROOT, "tools", "rewrite_worker.py"), cj, oj, "groups"], env=vlib.py_env({"VERIF_TMP": tmp}),
                       capture_output=True, text=True, timeout=3000)
    if p.returncode != 0 or not os.path.exists(oj):
        res.violation({"machinery": "rewrite worker (groups)"}, {"stderr": p.stderr[-1500:]},
                      "C01: convert_conv_groups could not be run on generated grouped convolutions", no_input=True)
        return {"cases": 0}
    impl = json.load(open(oj))
    shutil.rmtree(tmp, ignore_errors=True)
    model = models.run("group_slices", [[c[2], c[2] * c[3], c[2] * c[4]] for c in cases]) if okx else []
    bad = 0
    for c, o, m in zip(cases, impl, model):
        want_act = [None, "Op.Relu", "Op.Relu6"][c[8]]
        ok = bool(o["converted"]) and o["rows"] == m and o["bias_slices_match"] and \
            all((a or None) == want_act or (a is not None and want_act is not None and a.split(".")[-1] == want_act.split(".")[-1]) for a in o["activations"])
        if not ok and bad < 5:
            bad += 1
            res.violation({"kind": "conv_group_slices", "case": c},
                          {"case [h, w, groups, in channels per group, filters per group, kernel, per-axis, bias, activation 0/RELU/RELU6]": c,
                           "implementation": o, "model rows (ic_lo ic_hi oc_lo oc_hi per group)": m},
                          "C01: convert_conv_groups on a convolution with %d groups (%d input channels and %d filters per group): the per-group "
                          "convolutions are not the slices / do not carry the activation of the proved decomposition "
                          "(props/C01.v split_convolve_concatenate_is_grouped_convolution)" % (c[2], c[3], c[4]))
    return {"cases": len(model)}


def stride_folds(res, tier, okx):
    """translation validation of fixup_strided_conv against props/C01.v width_folded_convolution_is_strided_convolution: for
    every fold the real function performs, the folded kernel must be the source kernel padded with the weights' zero point
    (located by the worker), and model/Rewrites.v fold_conditions - evaluated by the extracted model with Vela's own SAME
    padding computation before and after - must hold"""
    import tempfile
    n = 600 if tier == "quick" else 6000
    rng = random.Random("c01fold/%d" % vlib.seed())
    cases = []
    while len(cases) < n:
        sw = rng.choice([2, 3, 4, 4, 5, 6, 8])
        c = rng.choice([1, 2, 3, 4, 8])
        kw = rng.choice([1, 2, 3, 4, 5, 7, 8])
        w = rng.choice([sw * rng.randrange(2, 7), sw * rng.randrange(2, 7), rng.randrange(8, 40)])
        same = rng.randrange(2)
        if not same and w < kw + sw:
            continue
        cases.append([rng.randrange(3, 7), w, c, rng.choice([4, 8]), rng.choice([1, 3]), kw, sw, same, 1 if rng.random() < 0.3 else 0])
    tmp = tempfile.mkdtemp(prefix="c01fold_", dir=vlib.BUILD)
    cj, oj = os.path.join(tmp, "cases.json"), os.path.join(tmp, "out.json")
    json.dump(cases, open(cj, "w"))
    p = subprocess.run([vlib.PY, os.path.join(vlib.ROOT, "tools", "rewrite_worker.py"), cj, oj, "stridefold"], env=vlib.py_env({"VERIF_TMP": tmp}),
                       capture_output=True, text=True, timeout=3000)
    if p.returncode != 0 or not os.path.exists(oj):
        res.violation({"machinery": "rewrite worker (stridefold)"}, {"stderr": p.stderr[-1500:]},
                      "C01: fixup_strided_conv could not be run on generated convolutions", no_input=True)
        return {"cases": 0}
    impl = json.load(open(oj))
    shutil.rmtree(tmp, ignore_errors=True)
    folded = [(c, o) for c, o in zip(cases, impl) if o["folded"]]
    # (the position of the source kernel inside the folded one is ambiguous when its outer columns hold the zero point: every
    # position that reproduces the folded kernel is the same operator, so one position that satisfies the conditions suffices)
    qrows, qidx = [], []
    for k_, (c, o) in enumerate(folded):
        tot = max(o["l"], 0) + max(o["r"], 0)
        for l_ in (o.get("ls") or [max(o["l"], 0)]):
            qrows.append([c[7], c[1], c[6], c[5], o["n"], o["s"], l_, tot - l_])
            qidx.append(k_)
    qres = models.run("fold_check", qrows) if okx and qrows else []
    model = [None] * len(folded)
    for k_, m_ in zip(qidx, qres):
        if model[k_] is None or (m_[0] == 1 and model[k_][0] != 1):
            model[k_] = m_
    model = [m_ for m_ in model if m_ is not None] if qres else []
    bad = 0
    stats = collections.Counter()
    for (c, o), m in zip(folded, model):
        stats["SAME" if c[7] else "VALID", "kernel padded" if (o["l"] + o["r"]) else "kernel as is", "zero point" if o["zp"] else "zp 0"] += 1
        explicit = "EXPLICIT" in o["padding"]          # (a one-column / one-row OFM: the function then fixes the padding it computed before the fold)
        ifm_ok = o["ifm"][2] * o["n"] == c[1] and o["ifm"][3] == c[2] * o["n"]
        pads_ok = o["l"] < 0 or o["real_pads"] == m[1:3]      # the model's SAME padding is Vela's own function's
        ok = o["l"] >= 0 and ifm_ok and (m[0] == 1 or explicit) and pads_ok
        if not ok and bad < 5:
            bad += 1
            res.violation({"kind": "stride_fold", "case": c},
                          {"case [h, w, c, oc, kh, kw, stride_w, SAME, uint8]": c, "implementation": o,
                           "model [conditions hold, hardware padding before, after (folded positions)]": m},
                          "C01: fixup_strided_conv folds a %d-wide map with kernel width %d and stride %d (%s) by %d: %s "
                          "(props/C01.v width_folded_convolution_is_strided_convolution / fold_conditions_sound)" % (
                              c[1], c[5], c[6], "SAME" if c[7] else "VALID", o["n"],
                              "the folded kernel is not the source kernel padded with the weights' zero point" if o["l"] < 0 else
                              "the folded IFM is not the source IFM" if not ifm_ok else
                              "needed_total_padding gives another hardware padding than its model (props/C01.v needed_total_padding_is_reference)" if not pads_ok else
                              "the conditions under which the folded operator is proved to equal the source do not hold"))
    return {"cases": len(cases), "folded": len(folded), "kinds": {" / ".join(k): v for k, v in sorted(stats.items())}}


def prelu_kinds(res, tier, okx):
    """correspondence of model/Rewrites.v prelu_kind with convert_prelu on the PRELU networks of tools/netgen.py (slopes all
    below 1, all at or above 1, straddling 1, uniform, negative; int8 / uint8 / int16)"""
    import tempfile
    n = 150 if tier == "quick" else 3000
    cases = [[vlib.seed() * 100000 + i] for i in range(n)]
    tmp = tempfile.mkdtemp(prefix="c01prelu_", dir=vlib.BUILD)
    cj, oj = os.path.join(tmp, "cases.json"), os.path.join(tmp, "out.json")
    json.dump(cases, open(cj, "w"))
    p = subprocess.run([vlib.PY, os.path.join(vlib.ROOT, "tools", "rewrite_worker.py"), cj, oj, "prelu"], env=vlib.py_env({"VERIF_TMP": tmp}),
                       capture_output=True, text=True, timeout=3000)
    if p.returncode != 0 or not os.path.exists(oj):
        res.violation({"machinery": "rewrite worker (prelu)"}, {"stderr": p.stderr[-1500:]},
                      "C01: convert_prelu could not be run on generated PRELU operators", no_input=True)
        return {"cases": 0}
    impl = json.load(open(oj))
    shutil.rmtree(tmp, ignore_errors=True)
    rows = [(c, o) for c, o in zip(cases, impl) if o["kind"] >= 0]
    model = models.run("prelu_kind", [[o["zp"], o["sn"], o["sd"]] + o["codes"] for c, o in rows]) if okx and rows else []
    bad = 0
    dec = collections.Counter()
    for (c, o), m in zip(rows, model):
        dec[["RELU", "LEAKY_RELU", "MAXIMUM", "RELU + MINIMUM"][m[0]]] += 1
        if o["kind"] != m[0] and bad < 5:
            bad += 1
            res.violation({"kind": "prelu_kind", "case": c},
                          {"netgen seed": "rw%d" % c[0], "slope codes": o["codes"][:32], "zero point": o["zp"], "scale": "%d / %d" % (o["sn"], o["sd"]),
                           "implementation (0 RELU, 1 LEAKY_RELU, 2 MAXIMUM, 3 RELU + MINIMUM)": o["kind"], "model": m[0]},
                          "C01: convert_prelu turns a PRELU with slopes between %.4g and %.4g into variant %d where the proved decision is %d "
                          "(props/C01.v prelu_as_maximum needs every slope <= 1)" % (
                              (min(o["codes"]) - o["zp"]) * o["sn"] / o["sd"], (max(o["codes"]) - o["zp"]) * o["sn"] / o["sd"], o["kind"], m[0]))
    return {"cases": len(rows), "decisions": dict(dec)}


def axis_parts(res, tier, okx):
    """correspondence of model/Rewrites.v offsets_from with rewrite_concat_ops (write offsets of the copies) and
    rewrite_split_ops (read offsets of the slices) for CONCATENATION, PACK, SPLIT and SPLIT_V over ranks 2 - 4"""
    import tempfile
    n = 120 if tier == "quick" else 2400
    rng = random.Random("c01parts/%d" % vlib.seed())
    cases = []
    for _ in range(n):
        kind = rng.choice([0, 0, 1, 2, 3])
        rank = rng.choice([2, 3, 4, 4]) if kind != 3 else rng.choice([2, 3])
        axis = rng.randrange(1, rank) if kind != 3 else rng.randrange(1, rank + 1)
        k = rng.randrange(2, 5)
        es = [rng.randrange(1, 7) for _ in range(k)]
        if kind == 1:
            es = [es[0]] * k
        if kind == 3:
            es = [1] * k
        cases.append([kind, rank, axis, rng.choice([2, 3, 5])] + es)
    tmp = tempfile.mkdtemp(prefix="c01parts_", dir=vlib.BUILD)
    cj, oj = os.path.join(tmp, "cases.json"), os.path.join(tmp, "out.json")
    json.dump(cases, open(cj, "w"))
    p = subprocess.run([vlib.PY, os.path.join(vlib.ROOT, "tools", "rewrite_worker.py"), cj, oj, "parts"], env=vlib.py_env({"VERIF_TMP": tmp}),
                       capture_output=True, text=True, timeout=3000)
    if p.returncode != 0 or not os.path.exists(oj):
        res.violation({"machinery": "rewrite worker (parts)"}, {"stderr": p.stderr[-1500:]},
                      "C01: rewrite_concat_ops / rewrite_split_ops could not be run on generated operators", no_input=True)
        return {"cases": 0}
    impl = json.load(open(oj))
    shutil.rmtree(tmp, ignore_errors=True)
    model = models.run("axis_offsets", [c[4:] for c in cases]) if okx else []
    bad = 0
    kinds = collections.Counter()
    names = ["CONCATENATION", "SPLIT", "SPLIT_V", "PACK"]
    for c, o, m in zip(cases, impl, model):
        kinds[names[c[0]]] += 1
        want_axis = c[2] + (4 - (c[1] + (1 if c[0] == 3 else 0)))
        ok = o["other_axes_zero"] and o["extents"] == c[4:] and o["offsets"] == m and (o["axis4"] == want_axis or all(v == 0 for v in m[1:]))
        if not ok and bad < 5:
            bad += 1
            res.violation({"kind": "axis_parts", "case": c},
                          {"operator": names[c[0]], "rank": c[1], "axis": c[2], "extents of the parts": c[4:], "implementation": o,
                           "model offsets": m, "4-D axis expected": want_axis},
                          "C01: %s of parts %s along axis %d of rank-%d tensors: the offsets the rewrite gives the parts are not the running sums "
                          "(props/C01.v axis_parts_cover / axis_parts_disjoint): parts overlap or leave a gap" % (names[c[0]], c[4:], c[2], c[1]))
    return {"cases": len(model), "operators": dict(kinds)}


def tconv_paddings(res, tier, okx):
    """translation validation of the padding Vela gives a TRANSPOSE_CONV (fixup_conv2d_backprop + add_padding_fields, run on
    operators that Vela's reader built) against props/C01.v transposed_convolution_as_convolution: zeros in front =
    kernel - 1 - the reference's leading padding, enough zeros behind, on both axes (model/Rewrites.v tconv_pad_ok)"""
    import tempfile
    n = 150 if tier == "quick" else 3000
    rng = random.Random("c01tconv/%d" % vlib.seed())
    cases = [[rng.randrange(1, 9), rng.randrange(1, 9), rng.choice([1, 2, 4]), rng.choice([2, 4]), rng.randrange(1, 6), rng.randrange(1, 6),
              rng.choice([1, 2, 2]), rng.randrange(2)] for _ in range(n)]
    tmp = tempfile.mkdtemp(prefix="c01tconv_", dir=vlib.BUILD)
    cj, oj = os.path.join(tmp, "cases.json"), os.path.join(tmp, "out.json")
    json.dump(cases, open(cj, "w"))
    p = subprocess.run([vlib.PY, os.path.join(vlib.ROOT, "tools", "rewrite_worker.py"), cj, oj, "tconv"], env=vlib.py_env({"VERIF_TMP": tmp}),
                       capture_output=True, text=True, timeout=3000)
    if p.returncode != 0 or not os.path.exists(oj):
        res.violation({"machinery": "rewrite worker (tconv)"}, {"stderr": p.stderr[-1500:]},
                      "C01: add_padding_fields could not be run on generated TRANSPOSE_CONV operators", no_input=True)
        return {"cases": 0}
    impl = json.load(open(oj))
    shutil.rmtree(tmp, ignore_errors=True)
    rows = []
    for c, o in zip(cases, impl):
        rows.append([c[0], c[4], c[6], o["ofm"][1], o["pad"][0], o["pad"][2]])      # height axis
        rows.append([c[1], c[5], c[6], o["ofm"][2], o["pad"][1], o["pad"][3]])      # width axis
    model = models.run("tconv_pad", rows) if okx else []
    bad = 0
    stats = collections.Counter()
    for idx, (c, o) in enumerate(zip(cases, impl)):
        if not model:
            break
        mh, mw = model[2 * idx], model[2 * idx + 1]
        stats["stride %d %s" % (c[6], "SAME" if c[7] else "VALID")] += 1
        mode_ok = ("TRANSPOSE" in o["resampling"]) == (c[6] > 1) and o["stride"] == [1, 1]
        if (mh[0] != 1 or mw[0] != 1 or not mode_ok) and bad < 5:
            bad += 1
            res.violation({"kind": "tconv_padding", "case": c},
                          {"case [h, w, c, oc, kh, kw, stride, SAME]": c, "implementation": o,
                           "model height axis [ok, reference leading padding]": mh, "model width axis": mw},
                          "C01: TRANSPOSE_CONV %dx%d -> %dx%d, kernel %dx%d, stride %d, %s: the padding (top, left, bottom, right) = %s Vela gives the "
                          "convolution over the zero-inserted input is not the one under which it is proved to be the transposed convolution "
                          "(props/C01.v transposed_convolution_as_convolution / tconv_pad_ok_sound)" % (
                              c[0], c[1], o["ofm"][1], o["ofm"][2], c[4], c[5], c[6], "SAME" if c[7] else "VALID", o["pad"]))
    return {"cases": len(cases), "kinds": dict(stats)}


def conv_paddings(res, tier, okx):
    """correspondence of model/Rewrites.v conv_pads with calc_padding_and_skirt (SAME / VALID, strides 1 - 8, kernels 1 - 9,
    dilations 1 - 4, extents 1 - 300)"""
    import tempfile
    n = 2000 if tier == "quick" else 40000
    rng = random.Random("c01pads/%d" % vlib.seed())
    cases = [[rng.randrange(2), rng.choice([rng.randrange(1, 20), rng.randrange(1, 300)]), rng.choice([rng.randrange(1, 20), rng.randrange(1, 300)]),
              rng.randrange(1, 10), rng.randrange(1, 10), rng.randrange(1, 9), rng.randrange(1, 9), rng.randrange(1, 5), rng.randrange(1, 5)] for _ in range(n)]
    tmp = tempfile.mkdtemp(prefix="c01pads_", dir=vlib.BUILD)
    cj, oj = os.path.join(tmp, "cases.json"), os.path.join(tmp, "out.json")
    json.dump(cases, open(cj, "w"))
    p = subprocess.run([vlib.PY, os.path.join(vlib.ROOT, "tools", "rewrite_worker.py"), cj, oj, "padskirt"], env=vlib.py_env({"VERIF_TMP": tmp}),
                       capture_output=True, text=True, timeout=3000)
    if p.returncode != 0 or not os.path.exists(oj):
        res.violation({"machinery": "rewrite worker (padskirt)"}, {"stderr": p.stderr[-1500:]},
                      "C01: calc_padding_and_skirt could not be run", no_input=True)
        return {"cases": 0}
    impl = json.load(open(oj))
    shutil.rmtree(tmp, ignore_errors=True)
    rows = []
    for c in cases:
        rows.append([c[0], c[1], c[5], c[3], c[7]])
        rows.append([c[0], c[2], c[6], c[4], c[8]])
    model = models.run("conv_pads", rows) if okx else []
    bad = 0
    for idx, (c, o) in enumerate(zip(cases, impl)):
        if not model:
            break
        my, mx = model[2 * idx], model[2 * idx + 1]
        if o != [my[0], mx[0], my[1], mx[1]] and bad < 5:
            bad += 1
            res.violation({"kind": "conv_padding", "case": c},
                          {"case [SAME, h, w, kh, kw, stride_y, stride_x, dilation_y, dilation_x]": c, "implementation (top, left, bottom, right)": o,
                           "model (front, behind) height": my, "width": mx},
                          "C01: calc_padding_and_skirt gives %s for a %dx%d map, kernel %dx%d, stride %dx%d, dilation %dx%d (%s): not the reference's padding "
                          "(props/C01.v conv_same_padding_is_reference)" % (o, c[1], c[2], c[3], c[4], c[5], c[6], c[7], c[8], "SAME" if c[0] else "VALID"))
    return {"cases": len(cases)}


def mean_parts(res, tier, okx):
    """validation of convert_mean_to_depthwise_conv against props/C01.v axis_parts_cover / axis_parts_disjoint: the depthwise
    convolutions that reach the result must read row ranges that are the running sums of their kernel heights, together all
    rows (and all columns) that the MEAN reduces - no partial sum may be missing or counted twice"""
    import tempfile
    n = 150 if tier == "quick" else 2500
    rng = random.Random("c01mean/%d" % vlib.seed())
    cases = []
    for _ in range(n):
        mode = rng.choice([0, 0, 0, 1, 2])
        if mode == 0:
            h, w = rng.choice([(rng.randrange(1, 20), rng.randrange(1, 20)), (rng.randrange(20, 260), rng.randrange(1, 130)), (rng.randrange(60, 140), rng.randrange(60, 140))])
        elif mode == 1:
            h, w = rng.randrange(1, 400), rng.randrange(1, 12)
        else:
            h, w = rng.randrange(1, 12), rng.randrange(1, 400)
        cases.append([h, w, rng.choice([1, 2, 4]), mode, rng.randrange(2)])
    tmp = tempfile.mkdtemp(prefix="c01mean_", dir=vlib.BUILD)
    cj, oj = os.path.join(tmp, "cases.json"), os.path.join(tmp, "out.json")
    json.dump(cases, open(cj, "w"))
    p = subprocess.run([vlib.PY, os.path.join(vlib.ROOT, "tools", "rewrite_worker.py"), cj, oj, "meanparts"], env=vlib.py_env({"VERIF_TMP": tmp}),
                       capture_output=True, text=True, timeout=3000)
    if p.returncode != 0 or not os.path.exists(oj):
        res.violation({"machinery": "rewrite worker (meanparts)"}, {"stderr": p.stderr[-1500:]},
                      "C01: convert_mean_to_depthwise_conv could not be run on generated MEAN operators", no_input=True)
        return {"cases": 0}
    impl = json.load(open(oj))
    shutil.rmtree(tmp, ignore_errors=True)
    rows = [(c, o) for c, o in zip(cases, impl) if o["convs"]]
    model = models.run("axis_offsets", [[cv[2] for cv in o["convs"]] for c, o in rows]) if okx and rows else []
    bad = 0
    nconv = collections.Counter()
    for (c, o), m in zip(rows, model):
        h, w, _, mode, _ = c
        cv = o["convs"]
        nconv[min(len(cv), 4)] += 1
        want = (h * w) if mode == 0 else h if mode == 1 else w
        got = sum(x[2] * x[3] for x in cv)
        ok = [x[0] for x in cv] == m and all(x[1] == x[2] or x[2] == 1 for x in cv) and got == want and \
            all(x[4] == 0 and (x[5] == x[3] or x[3] == 1) for x in cv)
        if not ok and bad < 5:
            bad += 1
            res.violation({"kind": "mean_parts", "case": c},
                          {"case [h, w, c, mode (0 H and W, 1 H, 2 W), keep_dims]": c,
                           "convolutions reaching the result [first row, rows read, kernel h, kernel w, first column, columns read, ifm shape]": cv,
                           "model offsets for these kernel heights": m, "elements reduced": want, "elements the kernels cover": got},
                          "C01: MEAN over %dx%d (%s): the depthwise convolutions that reach the result cover %d of the %d elements / do not tile the "
                          "rows (props/C01.v axis_parts_cover, axis_parts_disjoint): a partial sum is missing or counted twice" % (
                              h, w, ["height and width", "height", "width"][mode], got, want))
    return {"cases": len(cases), "rewritten": len(rows), "convolutions per MEAN (4 = four or more)": dict(nconv)}


def pad_concats(res, tier, okx):
    """validation of convert_pad_to_concat: a PAD along the batch axis or the channels becomes a concatenation whose parts -
    constants holding the zero point in front, the source, constants behind - add up to the output along that axis; along
    the batch axis every part is one batch (one copy writes one batch). Offsets of the parts: props/C01.v axis_parts_cover"""
    import tempfile
    n = 80 if tier == "quick" else 1200
    rng = random.Random("c01padc/%d" % vlib.seed())
    cases = [[1, rng.randrange(1, 6), rng.randrange(1, 6), rng.choice([1, 3, 8, 16]), rng.choice([0, 3]), rng.randrange(0, 4), rng.randrange(0, 4)] for _ in range(n)]
    cases = [c for c in cases if c[5] + c[6] > 0]
    tmp = tempfile.mkdtemp(prefix="c01padc_", dir=vlib.BUILD)
    cj, oj = os.path.join(tmp, "cases.json"), os.path.join(tmp, "out.json")
    json.dump(cases, open(cj, "w"))
    p = subprocess.run([vlib.PY, os.path.join(vlib.ROOT, "tools", "rewrite_worker.py"), cj, oj, "padconcat"], env=vlib.py_env({"VERIF_TMP": tmp}),
                       capture_output=True, text=True, timeout=3000)
    if p.returncode != 0 or not os.path.exists(oj):
        res.violation({"machinery": "rewrite worker (padconcat)"}, {"stderr": p.stderr[-1500:]},
                      "C01: convert_pad_to_concat could not be run on generated PAD operators", no_input=True)
        return {"cases": 0}
    impl = json.load(open(oj))
    shutil.rmtree(tmp, ignore_errors=True)
    model = models.run("axis_offsets", [[q[0] for q in o["parts"]] if o["converted"] else [0] for o in impl]) if okx else []
    bad = 0
    for c, o, m in zip(cases, impl, model):
        nb, h, w, ch, axis, front, behind = c
        if axis == 0:
            want = [[1, 0, 1]] * front + [[nb, 1, 1]] + [[1, 0, 1]] * behind
        else:
            want = ([[front, 0, 1]] if front else []) + [[ch, 1, 1]] + ([[behind, 0, 1]] if behind else [])
        total = (nb if axis == 0 else ch) + front + behind
        ok = bool(o["converted"]) and o["axis"] == axis and o["parts"] == want and o["out"] == total and \
            (m[-1] + o["parts"][-1][0] == total if o["converted"] else False)
        if not ok and bad < 5:
            bad += 1
            res.violation({"kind": "pad_concat", "case": c},
                          {"case [n, h, w, c, axis, front, behind]": c, "implementation": o, "parts wanted [extent, is source, holds zero point]": want,
                           "model offsets of the implementation's parts": m},
                          "C01: convert_pad_to_concat on a PAD of %d + %d along axis %d: the parts of the concatenation are not zero-point constants "
                          "and the source adding up to the output (one batch per part along the batch axis)" % (front, behind, axis))
    return {"cases": len(cases)}


def run(tier):
    res = vlib.Result("C01", tier, "other")
    b = vlib.build_property("C01")
    okx, xlog = vlib.build_extraction("npuExec")
    okm, _ = vlib.build_extraction()
    rw_cov = rewrite_decisions(res, tier, okm and b["ok"])
    rw_cov["widened_kernels"] = widened_kernels(res, tier, okm and b["ok"])
    rw_cov["pad_splits"] = pad_splits(res, tier, okm and b["ok"])
    rw_cov["avgpool_kernels"] = avgpool_kernels(res, tier, okm and b["ok"])
    rw_cov["conv_group_slices"] = conv_group_slices(res, tier, okm and b["ok"])
    rw_cov["stride_folds"] = stride_folds(res, tier, okm and b["ok"])
    rw_cov["prelu_kinds"] = prelu_kinds(res, tier, okm and b["ok"])
    rw_cov["axis_parts"] = axis_parts(res, tier, okm and b["ok"])
    rw_cov["tconv_paddings"] = tconv_paddings(res, tier, okm and b["ok"])
    rw_cov["conv_paddings"] = conv_paddings(res, tier, okm and b["ok"])
    rw_cov["mean_parts"] = mean_parts(res, tier, okm and b["ok"])
    rw_cov["pad_concats"] = pad_concats(res, tier, okm and b["ok"])
    n = 470 if tier == "quick" else 3400
    max_macs = 1200000 if tier == "quick" else 30000000
    rng = random.Random("c01/%d" % vlib.seed())
    jobs = compiles.corpus_jobs(capture=False) + compiles.plan(FAMS, n, vlib.seed(), tag="c01", capture=False)
    results = compiles.run_all(jobs, timeout=900)
    cases, meta = [], []
    skipped = collections.Counter()
    for r in results:
        if r["status"] != "ok":
            skipped["compile " + r["status"]] += 1
            continue
        art = artefacts.load(r)
        if not art or not art["npu"]:
            skipped["no NPU operator"] += 1
            continue
        try:
            flat, expect, tol, signed = build_case(r, art, rng, max_macs)
        except refnet.Unsupported as ex:
            skipped["reference: " + str(ex)[:60]] += 1
            continue
        cases.append(flat)
        meta.append((r, expect, tol, signed))
    outs = []
    if okx and cases:
        # one interpreter process per network, longest first, from a pool: a static split would wait for its slowest share
        import concurrent.futures
        order = sorted(range(len(cases)), key=lambda i: -len(cases[i]))
        with concurrent.futures.ThreadPoolExecutor(max_workers=vlib.NCPU) as ex:
            def one(i):
                # a network whose interpretation exceeds the per-network time budget is counted as skipped, not as a verdict
                try:
                    return cases[i]() if callable(cases[i]) else models.run("exec", [cases[i]], exe_name="npuExec", timeout=CASE_TIMEOUT)[0]
                except subprocess.TimeoutExpired:
                    return [-9]
            done = list(ex.map(one, order))
        outs = [None] * len(cases)
        for i, o in zip(order, done):
            outs[i] = o
    programs, bad, samples, slow = 0, [], [], []
    kinds = collections.Counter()
    for (r, expect, tol, signed), o in zip(meta, outs):
        if o[0] == -9:
            skipped["interpreter: per-network time budget (%d s) exceeded" % CASE_TIMEOUT] += 1
            slow.append({"net": r.get("net_name"), "ops": r.get("net_desc"), "args": r["job"]["args"][:6], "seed": r["job"]["seed"]})
            continue
        if o[0] != 1:
            skipped["interpreter: operation outside the modelled subset"] += 1
            if os.environ.get("VERIF_C01_DEBUG"):
                print("OUTSIDE", r.get("net_name"), r.get("net_desc"), r["job"]["args"][:2], o[:4], flush=True)
            continue
        programs += 1
        kinds[tuple(r.get("net_desc") or [])] += 1
        got = decode_outputs(o[1:], signed)
        diffs = [(i, g, e) for i, (g, e) in enumerate(zip(got, expect)) if abs(g - e) > tol]
        if diffs or len(got) != len(expect):
            bad.append((r, diffs[:5], len(diffs), len(expect)))
        if len(samples) < 3:
            samples.append({"net": r.get("net_name"), "ops": r.get("net_desc"), "args": r["job"]["args"][:6],
                            "output_elements": len(expect), "equal": not diffs, "first_outputs": got[:8]})
    res.cov.update({
        "explanation": "Partial. Whole-network equivalence for all networks is not proved. The command streams of %d compiled networks "
                       "(convolution / depthwise / fully connected / pooling chains, elementwise add / sub / mul with broadcasts and scalars, "
                       "concatenation incl. the rescaling uint8 form, requantisation, transposed convolution, x2 resize, mean, 8-bit table activations, memory-only operators; int8, uint8 and (convolution, "
                       "depthwise, fully connected, pooling) int16, all accelerators and memory modes) were "
                       "executed by the extracted Coq interpreter hw/NpuExec.v on random inputs and compared bit for bit (one step for padded "
                       "average pools) with the TFLite reference kernels evaluated on the source model. Networks using operators the "
                       "interpreter or the reference does not model are skipped and counted. In addition the graph rewrites that replace "
                       "source operators by other operators (dilated convolutions from space-to-batch form and by kernel widening, PAD "
                       "splitting and PAD as concatenation, average pool and MEAN as convolutions, grouped and strided convolutions, PRELU, "
                       "concatenation / split offsets, transposed convolution and SAME padding) are theorems of props/C01.v about "
                       "model/Rewrites.v; the real rewrite functions are run on operators built by Vela's own reader and their decisions / "
                       "results are compared with the extracted model or validated against the conditions of the theorems "
                       "(rewrite_decision_correspondence)." % programs,
        "evaluations": len(results), "distinct_nontrivial": len(kinds),
        "rule": "distinct operator sequences among the executed networks; every executed network has at least one NPU operator",
        "programs_executed": programs, "rewrite_decision_correspondence": rw_cov, "skipped": dict(skipped), "over_time_budget": slow[:10], "samples": samples or [{"note": "none"}],
    })
    vlib.proof_coverage(res, b, ["coq/hw/NpuExec.v: datapath semantics (accumulate, bias, scale with rounding mode, zero points, clamp), "
                                 "model/MlwDecode.v and model/Reorder.v (validated against the C decoder / encoder by the C07 check)",
                                 "tools/refnet.py: transcription of the TFLite reference kernels (conv, depthwise, fully connected, pooling, add, sub, mul, "
                                 "concatenation with scaling, pad, reshape, transpose, strided slice, relu)",
                                 "tools/tflsum.py"])
    res.assumptions += ["sampled networks and inputs", "table-based activations, MEAN, softmax and bilinear resize are compared with one step of tolerance and only as the last operator of a network; "
                        "LSTM and 16-bit table activations are not executed; the rewrite theorems model one spatial axis of values minus the zero point",
                        "the elementwise operand-scaling semantics of hw/NpuExec.v (input shift 20/15, 32-bit scaling of one operand with double "
                        "rounding, the other shifted one bit less; zero points and the 16-bit activation range not applied to 32-bit feature maps; "
                        "x2 nearest / zero-insertion resampling) is a reading of the hardware interface calibrated against the reference kernels"]
    for r, diffs, nd, ne in bad:
        res.violation({"net": r.get("net_name"), "seed": r["job"]["seed"], "kind": "output_differs"},
                      {"job": r["job"], "ops": r.get("net_desc"), "differing_elements": nd, "of": ne,
                       "first_differences(index, npu, reference)": diffs,
                       "replay_cmd": "cd /verif && /venv/bin/python tools/vela_worker.py %s/job.json" % r["job"]["out_dir"]},
                      "C01: executing the compiled model gives %d of %d output elements different from the reference kernels "
                      "(net %s ops %s, %s)" % (nd, ne, r.get("net_name"), r.get("net_desc"), " ".join(r["job"]["args"][:2])))
    if not bad:
        if not b["ok"]:
            vlib.report_broken_build(res, b, None)
        elif not okx or programs == 0:
            res.violation({"machinery": "no program executed"}, {"extraction_ok": okx, "log": xlog[-800:], "skipped": dict(skipped)},
                          "no compiled network could be executed", no_input=True)
    return res.finish()
