"""C06 -- the register command stream encodes exactly the operations it was given.

Proof side (coq/props/C06.v): elision_transparent (every call history), no_truncation, field_fits,
stream_wellformed, alignment_checks_complete about coq/model/Emit.v.
This module ties the model to the source (device H) and evaluates the property on the implementation:
  1. the real CommandStreamEmitter is driven directly with random call sequences and compared word for word
     with the extracted model; the derived-field and check_* models are compared with the real helpers;
  2. random legal operation lists go through api.npu_generate_register_command_stream; the words are decoded by
     the extracted hw/Npu.v decoder and an INDEPENDENT oracle (written from the register documentation in
     ethos_u55_regs.py and the API documentation) compares every decoded register with the fields of the input
     operation; framing (waits, single STOP) is judged on the raw words; the recorded emitter calls of each run
     are replayed through the framing model (stream_calls) and compared word for word;
  3. malformed streams: out-of-range fields must be rejected (never silently masked), mis-aligned
     addresses/strides/lengths must raise;
  4. D2: every stream of the shared compilation plan is decoded from the OUTPUT FILE and compared with the
     NpuOperation list captured at run time.
"""
import collections
import copy
import random

import vlib
import models

FAMS = ["conv_chain", "conv_chain_big", "single", "diamond", "mixed_cpu", "lut_heavy", "conv_chain_big", "single"]

DT = {"UINT8": (8, False), "INT8": (8, True), "UINT16": (16, False), "INT16": (16, True), "INT32": (32, True)}
MEM2MEM = 259   # (1 << 8) | 3 : DMA region field 3 with the "internal" bit, see npu_set_dma0_src_region_t

# enum values of the register documentation (ethos_u55_regs.py), by name
POOL_MODE = {"MAX": 0, "AVERAGE": 1, "REDUCE_SUM": 2}
EW_MODE = {"MUL": 0, "ADD": 1, "SUB": 2, "MIN": 3, "MAX": 4, "LRELU": 5, "ABS": 6, "CLZ": 7, "SHR": 8, "SHL": 9}
UNARY = ("LRELU", "ABS", "CLZ")
ACT = {"NONE_OR_RELU": 0, "TANH": 3, "SIGMOID": 4}
RESAMPLE = {"NONE": 0, "NEAREST": 1, "TRANSPOSE": 2}
ROUNDING = {"TFL": 0, "TRUNCATE": 1, "NATURAL": 2}
ACC_FORMAT = {"Acc32": 0, "Acc40": 1, "Acc16": 2}   # INT_32BIT, INT_40BIT, FP_S5_10

_regs = None


def regs():
    """opcode numbers from the register documentation: name -> key of the decoder's register file"""
    global _regs
    if _regs is None:
        from ethosu.vela.ethos_u55_regs.ethos_u55_regs import cmd0, cmd1
        k = {}
        for m in cmd0:
            k["0:" + m.name[4:]] = int(m.value)        # strip "NPU_"
        for m in cmd1:
            k["1:" + m.name[4:]] = 1024 + int(m.value)
        _regs = k
    return _regs


# ------------------------------------------------------------------------------------------------ decoding
def parse_events(flat):
    """flat output of the extracted decode_stream -> list of events or None"""
    if not flat or flat[0] != 1:
        return None
    i, n, evs = 1, len(flat), []
    while i < n:
        t = flat[i]
        if t == 1:
            c, p, cnt = flat[i + 1], flat[i + 2], flat[i + 3]
            kv = flat[i + 4:i + 4 + 2 * cnt]
            evs.append(("op", c, p, dict(zip(kv[0::2], kv[1::2]))))
            i += 4 + 2 * cnt
        elif t == 2:
            evs.append(("wait", flat[i + 1], flat[i + 2]))
            i += 3
        elif t == 3:
            evs.append(("stop", flat[i + 1]))
            i += 2
        else:
            evs.append(("other", flat[i + 1], flat[i + 2]))
            i += 3
    return evs


def py_decode(words):
    """independent plain reader of the word format (command_no_payload_t / command_with_payload_t):
    list of (is_cmd1, code, param, data) or None"""
    out, i = [], 0
    while i < len(words):
        w = words[i]
        if not (0 <= w < (1 << 32)) or (w >> 10) & 0xF:
            return None
        mode = (w >> 14) & 3
        if mode == 1:
            if i + 1 >= len(words) or not (0 <= words[i + 1] < (1 << 32)):
                return None
            out.append((1, w & 0x3FF, w >> 16, words[i + 1]))
            i += 2
        elif mode == 0:
            out.append((0, w & 0x3FF, w >> 16, 0))
            i += 1
        else:
            return None
    return out


OPCODES = {2: "Conv2D", 3: "ConvDepthWise", 5: "Pooling", 6: "ElementWise", 16: "Dma"}


def framing_oracle(words):
    """waits precede the operation they guard; exactly one STOP, at the end.  None or a reason."""
    cmds = py_decode(words)
    if cmds is None:
        return "stream does not decode (reserved bits / payload mode / truncated payload)"
    stops = [i for i, c in enumerate(cmds) if c[0] == 0 and c[1] == 0]
    if len(stops) != 1:
        return "%d NPU_OP_STOP commands in the stream" % len(stops)
    if stops[0] != len(cmds) - 1:
        return "NPU_OP_STOP is not the last command"
    pending = False
    for pay, code, param, _ in cmds:
        is_wait = pay == 0 and code in (0x11, 0x12)
        is_op = pay == 0 and code in OPCODES
        if pending and not (is_wait or is_op):
            return "a wait command is not directly followed by the operation it guards (code %#x follows)" % code
        pending = is_wait or (pending and not is_op)
        if pay == 0 and code < 256 and not (is_wait or is_op or code == 0):
            return "unexpected operation code %#x" % code
    return None


# ------------------------------------------------------------------------------------------------ the oracle
def default_strides(fm):
    """byte strides of a densely stored feature map: NHWC [y][x][c]; NHCWB16 [y][c/16][x][16]"""
    elem = DT[fm["data_type"]][0] // 8
    w, d = fm["shape"]["width"], fm["shape"]["depth"]
    if fm["layout"] == "NHWC":
        return {"depth": elem, "width": d * elem, "height": w * d * elem}
    return {"depth": 16 * elem * w, "width": 16 * elem, "height": elem * w * ((d + 15) // 16) * 16}


def quant_of(fm):
    q = fm.get("quantization")
    if q is None:
        return None, 0
    return q.get("scale_f32"), int(q.get("zero_point") or 0)


def quantise(v, fm):
    """round(v / scale) + zero point (ties away from zero); returns (value, exact?)"""
    import numpy as np
    s, zp = quant_of(fm)
    s = 1.0 if s is None else s
    x = float(np.float32(v)) / float(np.float32(s))
    r = int(abs(x) + 0.5)
    r = r if x >= 0 else -r
    exact = abs(abs(x) - int(abs(x)) - 0.5) > 1e-3
    return zp + r, exact


class Want:
    """expected register contents of one operation"""

    def __init__(self):
        self.items = []   # (register name, expected value or (lo, hi) or None for presence, field description, signed?)

    def eq(self, reg, val, what, signed=False):
        self.items.append((reg, int(val), what, signed))

    def rng(self, reg, lo, hi, what):
        self.items.append((reg, (lo, hi), what, True))

    def present(self, reg, what):
        self.items.append((reg, None, what, False))


def want_fm(w, p, fm, dims):
    bits, signed = DT[fm["data_type"]]
    t = fm["tiles"]
    w.eq("0:SET_%s_REGION" % p, fm["region"], p + " region")
    for i in range(4):
        w.eq("1:SET_%s_BASE%d" % (p, i), t["addresses"][i], "%s tile %d base address" % (p, i))
    w.eq("0:SET_%s_HEIGHT0_M1" % p, t["height_0"] - 1, p + " tile height_0")
    if t["height_1"] != 0:      # 0 = documented "unused": the register is then don't-care
        w.eq("0:SET_%s_HEIGHT1_M1" % p, t["height_1"] - 1, p + " tile height_1")
    w.eq("0:SET_%s_WIDTH0_M1" % p, t["width_0"] - 1, p + " tile width_0")
    if dims == "ofm":
        w.eq("0:SET_OFM_HEIGHT_M1", fm["shape"]["height"] - 1, "OFM height")
        w.eq("0:SET_OFM_WIDTH_M1", fm["shape"]["width"] - 1, "OFM width")
        w.eq("0:SET_OFM_DEPTH_M1", fm["shape"]["depth"] - 1, "OFM depth")
    elif dims == "ifm":
        w.eq("0:SET_IFM_DEPTH_M1", fm["shape"]["depth"] - 1, "IFM depth")
    st = fm.get("strides")
    if st is not None:
        used = ("depth", "height", "width")
    else:
        st = default_strides(fm)
        used = ("height", "width") if fm["layout"] == "NHWC" else ("height", "depth")
    for ax, nm in (("depth", "C"), ("height", "Y"), ("width", "X")):
        if ax in used:
            w.eq("1:SET_%s_STRIDE_%s" % (p, nm), st[ax], "%s stride %s" % (p, nm))


def want_zero_point(w, p, fm):
    w.eq("0:SET_%s_ZERO_POINT" % p, quant_of(fm)[1], p + " zero point", signed=True)


def shram_expect(d, cls, acc_name, part_kernel):
    """SHRAM layout the architecture code assigns to this operation's block config (C15 proves that code);
    here only WHICH register each layout field goes to is at stake.  None when it cannot be computed."""
    from ethosu.vela.architecture_features import Block, SHRAMElements
    from ethosu.vela.architecture_allocator import try_block_config
    from ethosu.vela.operation import Kernel, NpuBlockType
    from ethosu.vela.ethos_u55_regs.ethos_u55_regs import resampling_mode
    arch = _arch(acc_name)
    bt = {"NpuConv2DOperation": NpuBlockType.ConvolutionMxN, "NpuConvDepthWiseOperation": NpuBlockType.ConvolutionDepthWise,
          "NpuElementWiseOperation": NpuBlockType.ElementWise}.get(cls)
    if cls == "NpuPoolingOperation":
        bt = NpuBlockType.ReduceSum if d["sub_op_type"] == "REDUCE_SUM" else NpuBlockType.Pooling

    def blk(s):
        return Block(s["width"], s["height"], s["depth"])
    fms = [d["ifm"], d["ofm"]] + ([d["ifm2"]] if d.get("ifm2") else [])
    scaled = not any(f.get("quantization") is None or f["quantization"].get("scale_f32") is None for f in fms)
    has2 = d.get("ifm2") is not None and d.get("ifm2_scalar") is None
    k = d.get("kernel")
    kern = Kernel(1, 1) if k is None else Kernel(k["width"], k["height"], k["stride_x"], k["stride_y"], k["dilation_x"], k["dilation_y"])
    act = d.get("activation")
    lut = act is not None and act["op_type"] == "TABLE_LOOKUP"
    try:
        cfg = try_block_config(blk(d["block_config"]), arch, bt, blk(d["ofm"]["shape"]), blk(d["ifm"]["shape"]),
                               blk(d["ifm2"]["shape"]) if has2 else None, d.get("ifm2_scalar") is not None,
                               DT[d["ifm"]["data_type"]][0], part_kernel, kern, 2 if lut else 0, scaled,
                               resampling_mode[d["ifm_upscale"]])
    except Exception:
        return None
    if cfg is None:
        return None
    return {"ib_end": int(cfg.layout.ib_end), "ab_start": int(cfg.layout.ab_start), "ib_start2": int(cfg.layout.ib_start2),
            "acc": ACC_FORMAT[{int(SHRAMElements.Acc16): "Acc16", int(SHRAMElements.Acc32): "Acc32",
                               int(SHRAMElements.Acc40): "Acc40"}[int(cfg.acc_type)]]}


_archs = {}


def _arch(acc_name):
    if acc_name not in _archs:
        from ethosu.vela.architecture_features import Accelerator, create_default_arch
        _archs[acc_name] = create_default_arch(Accelerator(acc_name))
    return _archs[acc_name]


def expected(d, cls, acc_name, ncores):
    """(op code, op param, Want) for the serialised API operation d"""
    w = Want()
    if cls == "NpuDmaOperation":
        w.eq("0:SET_DMA0_SRC_REGION", d["src"]["region"], "DMA source region")
        w.eq("1:SET_DMA0_SRC", d["src"]["address"], "DMA source address")
        w.eq("0:SET_DMA0_DST_REGION", d["dest"]["region"], "DMA destination region")
        w.eq("1:SET_DMA0_DST", d["dest"]["address"], "DMA destination address")
        w.eq("1:SET_DMA0_LEN", d["src"]["length"], "DMA length")
        return 16, d["channel"] * 16 + d["mode"], w
    ifm, ofm = d["ifm"], d["ofm"]
    ew = cls == "NpuElementWiseOperation"
    sub = d.get("sub_op_type")
    act = d.get("activation")
    # ---- IFM
    want_fm(w, "IFM", ifm, "ifm")
    want_zero_point(w, "IFM", ifm)
    bits, signed = DT[ifm["data_type"]]
    prec = (1 if signed else 0) | ({8: 0, 16: 1, 32: 2}[bits] << 2) | ((1 if ifm["layout"] == "NHCWB16" else 0) << 6)
    explicit = d.get("rescale") is not None
    s_in, s_in2, s_out = quant_of(ifm)[0], (quant_of(d["ifm2"])[0] if d.get("ifm2") else None), quant_of(ofm)[0]
    if ew and sub in ("ADD", "SUB", "MUL") and act is not None and act["op_type"] in ("TANH", "SIGMOID"):
        s_out = 1 / 0x3000           # the table's input scale replaces the OFM scale
    if ew and sub in ("ADD", "SUB") and not explicit and None not in (s_in, s_in2, s_out):
        # the scale mode is judged together with the operand order and the scale registers (addsub_denotes)
        w.items.append(("0:SET_IFM_PRECISION", ("mask", 0xFCFF, prec), "IFM precision (type, layout)", False))
        w.items.append(("custom", addsub_denotes(s_in, s_in2, s_out, bits), "operand scaling (order, scale mode, OPA/OPB/OFM scale)", False))
    else:
        w.eq("0:SET_IFM_PRECISION", prec, "IFM precision (type, layout, scale mode)")
    w.eq("0:SET_IFM_UPSCALE", RESAMPLE[d["ifm_upscale"]], "IFM upscale mode")
    if d.get("padding") is not None:
        for k in ("top", "left", "bottom", "right"):
            w.eq("0:SET_IFM_PAD_" + k.upper(), d["padding"][k], "padding " + k)
    # ---- OFM
    want_fm(w, "OFM", ofm, "ofm")
    want_zero_point(w, "OFM", ofm)
    obits, osigned = DT[ofm["data_type"]]
    oprec = (1 if osigned else 0) | ({8: 0, 16: 1, 32: 2}[obits] << 1) | ((1 if ofm["layout"] == "NHCWB16" else 0) << 6)
    oprec |= ROUNDING[d["rounding_mode"]] << 14
    glob = None
    if cls in ("NpuConv2DOperation", "NpuConvDepthWiseOperation"):
        glob = 0                       # per-channel scales come from the scale stream
    elif ew:
        glob = 1 if sub in ("ADD", "SUB", "MUL", "LRELU", "ABS") else 0
    else:
        r = d.get("rescale")
        if isinstance(r, dict) and "per_channel" in r:
            glob = 0 if r["per_channel"] else 1
        else:
            glob = 1 if (sub in ("AVERAGE", "REDUCE_SUM") and sum(d["padding"].values()) == 0) else 0
    w.eq("0:SET_OFM_PRECISION", oprec | (glob << 8), "OFM precision (type, layout, global-scale bit, rounding)")
    # ---- kernel
    part_kernel = cls == "NpuConv2DOperation" and d.get("block_traversal") == "PART_KERNEL_FIRST"
    if not ew:
        k = d["kernel"]
        w.eq("0:SET_KERNEL_HEIGHT_M1", k["dilation_y"] * (k["height"] - 1), "dilated kernel height")
        w.eq("0:SET_KERNEL_WIDTH_M1", k["dilation_x"] * (k["width"] - 1), "dilated kernel width")
        sx, sy = k["stride_x"] - 1, k["stride_y"] - 1
        if 0 <= sx < 16 and 0 <= sy < 16 and k["dilation_x"] in (1, 2) and k["dilation_y"] in (1, 2):
            bits_ = (sx & 1) | ((sy & 1) << 1) | ((1 if part_kernel else 0) << 2) | ((k["dilation_x"] - 1) << 3) | \
                    ((k["dilation_y"] - 1) << 4) | ((sx >> 1) << 6) | ((sy >> 1) << 9)
        else:
            bits_ = 1 << 20    # no encoding exists: whatever is written is a truncation
        w.eq("0:SET_KERNEL_STRIDE", bits_, "kernel stride/dilation/traversal bits")
    # ---- weights and scales
    for nm, lst in (("WEIGHT", d.get("weights") or []), ("SCALE", d.get("biases") or [])):
        if not lst:
            continue
        w.eq("0:SET_%s_REGION" % nm, lst[0]["region"], nm.lower() + " region")
        for core in range(2):
            suffix = "" if core == 0 else "1"
            if core < len(lst):
                w.eq("1:SET_%s%s_BASE" % (nm, suffix), lst[core]["address"], "%s base core %d" % (nm.lower(), core))
                w.eq("1:SET_%s%s_LENGTH" % (nm, suffix), lst[core]["length"], "%s length core %d" % (nm.lower(), core))
            elif core < ncores:
                w.eq("1:SET_%s%s_LENGTH" % (nm, suffix), 0, "%s length of idle core %d" % (nm.lower(), core))
    # ---- activation
    lut = act is not None and act["op_type"] == "TABLE_LOOKUP"
    if lut:
        aval = 16 + act["lookup_table_index"] if 0 <= act["lookup_table_index"] < 8 else 1 << 20
        if ofm["data_type"] == "INT32":
            aval |= 3 << 12
    else:
        aval = ACT[act["op_type"]] if act is not None else 0
    w.eq("0:SET_ACTIVATION", aval, "activation function / clip range")
    dmin = -(1 << (obits - 1)) if osigned else 0
    dmax = (1 << (obits - 1)) - 1 if osigned else (1 << obits) - 1
    for which, dflt in (("min", dmin), ("max", dmax)):
        v = act.get(which) if act is not None else None
        q, exact = (dflt, True) if v is None else quantise(v, ofm)
        lo, hi = (q, q) if exact else (q - 1, q + 1)
        cl = (lambda x: max(x, -32768, dmin, -128 if (lut and ofm["data_type"] == "INT32") else x)) if which == "min" else \
             (lambda x: min(x, 32767, dmax, 127 if (lut and ofm["data_type"] == "INT32") else x))
        w.rng("0:SET_ACTIVATION_" + which.upper(), cl(lo), cl(hi), "activation " + which)
    # ---- block config and SHRAM layout
    bc = d["block_config"]
    w.eq("0:SET_OFM_BLK_HEIGHT_M1", bc["height"] - 1, "block config height")
    w.eq("0:SET_OFM_BLK_WIDTH_M1", bc["width"] - 1, "block config width")
    w.eq("0:SET_OFM_BLK_DEPTH_M1", bc["depth"] - 1, "block config depth")
    has2 = d.get("ifm2") is not None and d.get("ifm2_scalar") is None
    sh = shram_expect(d, cls, acc_name, part_kernel)
    if sh is not None:
        w.eq("0:SET_IFM_IB_END", sh["ib_end"], "SHRAM IB_END")
        w.eq("0:SET_AB_START", sh["ab_start"], "SHRAM AB_START")
        if has2:
            w.eq("0:SET_IFM2_IB_START", sh["ib_start2"], "SHRAM IFM2_IB_START")
        w.eq("0:SET_ACC_FORMAT", sh["acc"], "accumulator format")
    else:
        for r_ in ("0:SET_IFM_IB_END", "0:SET_AB_START", "0:SET_ACC_FORMAT") + (("0:SET_IFM2_IB_START",) if has2 else ()):
            w.present(r_, "SHRAM layout register")
    w.rng("0:SET_BLOCKDEP", 0, 3, "block dependency")
    # ---- scaling
    if ew:
        r = d.get("rescale")
        if sub in ("ADD", "SUB", "MUL") and (r if sub == "MUL" else r is not None):
            w.eq("1:SET_OFM_SCALE", int(r[0]) + (int(r[1]) << 32), "explicit OFM scale/shift")
            if sub != "MUL":
                w.eq("1:SET_OPA_SCALE", 1, "operand A scale (none)")
                w.eq("1:SET_OPB_SCALE", 1, "operand B scale (none)")
        elif sub in ("ADD", "SUB", "MUL") and None in (s_in, s_in2, s_out):
            w.eq("1:SET_OFM_SCALE", 1, "OFM scale of unquantised operands")
            if sub != "MUL":
                w.eq("1:SET_OPA_SCALE", 1, "operand A scale (none)")
                w.eq("1:SET_OPB_SCALE", 1, "operand B scale (none)")
        elif sub in ("MIN", "MAX", "CLZ", "SHR", "SHL"):
            w.eq("1:SET_OFM_SCALE", 1, "OFM scale of an unscaled elementwise operation")
        elif sub == "MUL":
            from ethosu.vela import scaling      # the reference multipliers (C09)
            m_, sh_ = scaling.elementwise_mul_scale(s_in, s_in2, s_out)
            if 0 <= sh_ < 64:
                w.eq("1:SET_OFM_SCALE", int(m_) + (int(sh_) << 32), "OFM scale/shift of the product (input scales / output scale)")
            else:
                w.rng("1:SET_OFM_SCALE", 0, (64 << 32) - 1, "derived OFM scale (32-bit scale, shift below 64)")
        else:
            w.rng("1:SET_OFM_SCALE", 0, (64 << 32) - 1, "derived OFM scale (32-bit scale, shift below 64)")
            if sub in ("ADD", "SUB"):      # presence and range; the values are judged by addsub_denotes
                w.rng("1:SET_OPA_SCALE", 0, (64 << 32) - 1, "derived operand A scale")
                w.rng("1:SET_OPB_SCALE", 0, (1 << 32) - 1, "derived operand B scale")
    elif cls == "NpuPoolingOperation" and glob == 1:
        r = d.get("rescale")
        if isinstance(r, dict) and "multiplier" in r:
            w.eq("1:SET_OFM_SCALE", int(r["multiplier"][0]) + (int(r["shift"][0]) << 32), "explicit OFM scale/shift")
        elif s_in is None or s_out is None:
            if not (act is not None and act["op_type"] in ("TANH", "SIGMOID")) and not d.get("fused_quantize") and r is None:
                w.eq("1:SET_OFM_SCALE", 1, "OFM scale of unquantised pooling")
        else:
            w.rng("1:SET_OFM_SCALE", 0, (64 << 32) - 1, "derived OFM scale (32-bit scale, shift below 64)")
    # ---- second operand
    if ew and sub not in UNARY:
        ifm2 = d["ifm2"]
        scalar = d.get("ifm2_scalar") is not None
        if not scalar:
            want_fm(w, "IFM2", ifm2, None)
        want_zero_point(w, "IFM2", ifm2)
        b2, s2 = DT[ifm2["data_type"]]
        w.eq("0:SET_IFM2_PRECISION", (1 if s2 else 0) | ({8: 0, 16: 1, 32: 2}[b2] << 2) |
             ((1 if ifm2["layout"] == "NHCWB16" else 0) << 6), "IFM2 precision")
        bc_ = (1 << 6) if d.get("reversed_operands") else 0
        if scalar:
            bc_ |= 1 << 7
            q, exact = quantise(d["ifm2_scalar"], ifm2)
            w.rng("0:SET_IFM2_SCALAR", q if exact else q - 1, q if exact else q + 1, "quantised scalar operand")
        else:
            for bit, ax in ((0, "height"), (1, "width"), (2, "depth")):
                if ifm["shape"][ax] != ifm2["shape"][ax]:
                    bc_ |= 1 << bit
        w.eq("0:SET_IFM2_BROADCAST", bc_, "IFM2 broadcast / operand order / scalar bits")
    code = {"NpuConv2DOperation": 2, "NpuConvDepthWiseOperation": 3, "NpuPoolingOperation": 5, "NpuElementWiseOperation": 6}[cls]
    par = POOL_MODE[sub] if cls == "NpuPoolingOperation" else (EW_MODE[sub] if ew else 0)
    return code, par, w


def addsub_denotes(s_ifm, s_ifm2, s_out, bits):
    """ADD/SUB of two quantised feature maps without explicit rescale.  What the registers mean (register
    documentation): IFM2_BROADCAST bit 6 = operand order (0: operand A = IFM, B = IFM2; 1: A = IFM2, B = IFM);
    IFM_PRECISION[9:8] = scale mode (0: A and B scaled by the 16-bit OPA_SCALE / OPB_SCALE; 1: operand A rescaled
    by the 32-bit OPA_SCALE, B only shifted; 2: operand B rescaled, A only shifted).  The decoded registers denote
    the input operation when the rescaled feature map is the input with the SMALLER scale and the multipliers are
    the reference's (scaling.py, C09) for this operation's quantisations -- whatever the operand order.
    Returns a function snapshot -> None | (expected, decoded)."""
    def check(snap):
        from ethosu.vela import scaling
        R = regs()
        order = (snap.get(R["0:SET_IFM2_BROADCAST"], 0) >> 6) & 1
        mode = (snap.get(R["0:SET_IFM_PRECISION"], 0) >> 8) & 3
        opa, opb, ofm = snap.get(R["1:SET_OPA_SCALE"]), snap.get(R["1:SET_OPB_SCALE"]), snap.get(R["1:SET_OFM_SCALE"])
        got = {"operand_order": order, "scale_mode": mode, "OPA_SCALE": opa, "OPB_SCALE": opb, "OFM_SCALE": ofm}
        if None in (opa, opb, ofm):
            return ("OPA/OPB/OFM scale written", got)
        s_a, s_b = (s_ifm2, s_ifm) if order else (s_ifm, s_ifm2)
        if mode in (1, 2):
            sel, other = (s_a, s_b) if mode == 1 else (s_b, s_a)
            if sel > other:
                return ("scale mode %d with operand order %d rescales the input with scale %r; the input with the smaller "
                        "scale %r has to be rescaled (scale mode %d)" % (mode, order, sel, other, 3 - mode), got)
            in_scale, in_shift, out_scale, out_shift, _ = scaling.advanced_elementwise_add_sub_scale(s_ifm, s_ifm2, s_out, bits)
            if not (0 <= in_shift < 64 and 0 <= out_shift < 64):
                return None
            want = {"OPA_SCALE": int(in_scale) + (int(in_shift) << 32), "OFM_SCALE": int(out_scale) + (int(out_shift) << 32)}
            if opa != want["OPA_SCALE"] or ofm != want["OFM_SCALE"]:
                return (want, got)
            return None
        if mode == 0:
            ra, rb, out_scale, out_shift = scaling.simplified_elementwise_add_sub_scale(s_a, s_b, s_out)
            if not (1 <= out_shift < 64):
                return None
            full = (int(ra), int(rb), int(out_scale) + (int(out_shift) << 32))
            half = (int(ra // 2), int(rb // 2), int(out_scale) + ((int(out_shift) - 1) << 32))    # same products, one bit less
            if (opa, opb, ofm) not in (full, half):
                return ({"(OPA, OPB, OFM) one of": [full, half]}, got)
            return None
        return ("a documented scale mode (0, 1, 2)", got)
    return check


def judge(d, cls, acc_name, ncores, ev):
    """compare one decoded operation event with the input operation: list of (field, expected, decoded)"""
    code, par, w = expected(d, cls, acc_name, ncores)
    bad = []
    if ev[0] != "op" or ev[1] != code:
        return [("operation command", code, ev[1] if len(ev) > 1 else None)]
    if ev[2] != par:
        bad.append(("operation parameter (mode / channel)", par, ev[2]))
    snap = ev[3]
    R = regs()
    for reg, val, what, signed in w.items:
        if reg == "custom":
            r_ = val(snap)
            if r_ is not None:
                bad.append((what, r_[0], r_[1]))
            continue
        key = R[reg]
        if key not in snap:
            bad.append((what + " [register never written]", val, None))
            continue
        got = snap[key]
        is0 = reg.startswith("0:")
        if val is None:
            continue
        if isinstance(val, tuple) and val[0] == "mask":
            if (got & val[1]) != val[2]:
                bad.append((what, val[2], got))
        elif isinstance(val, tuple):
            lo, hi = val
            g = got - 65536 if (is0 and got >= 32768 and lo < 0) else got
            if not (lo <= g <= hi):
                bad.append((what, [lo, hi], g))
        else:
            g = got - 65536 if (signed and is0 and val < 0 and got >= 32768) else got
            if g != val:
                bad.append((what, val, g))
    return bad


# ------------------------------------------------------------------------------------------------ generators
ACCS = ["ethos-u55-32", "ethos-u55-64", "ethos-u55-128", "ethos-u55-256", "ethos-u65-256", "ethos-u65-512"]
NCORES = {a: (2 if a == "ethos-u65-512" else 1) for a in ACCS}


def npu_acc(acc_name):
    from ethosu.vela.api import NpuAccelerator
    return getattr(NpuAccelerator, acc_name.replace("ethos-u", "Ethos_U").replace("-", "_"))


class Gen:
    """random LEGAL operations of the public API (all randomness from self.rng)"""

    def __init__(self, rng, acc_name):
        from ethosu.vela import api
        self.api, self.rng, self.acc_name, self.acc = api, rng, acc_name, npu_acc(acc_name)
        self.u65 = "u65" in acc_name
        self.limit = (1 << 40) if self.u65 else (1 << 32)
        self.cfg_cache = {}

    def pick_dim(self, hi=40):
        r = self.rng
        return r.choice([1, 1, 2, 3, 4, 7, 8, 9, 15, 16, 17, 31, 32, 33]) if r.random() < 0.7 else r.randrange(1, hi + 1)

    def addr(self, align, room):
        r = self.rng
        top = self.limit - room - (1 << 20)     # head room for the address steps of variant()
        base = r.choice([0, 0, 16 * r.randrange(0, 4096), 1 << 20, r.randrange(0, 1 << 24), (1 << 31) - (1 << 16), top,
                         r.randrange(0, max(1, top))])
        base = min(max(base, 0), top)
        return base - base % align

    def quant(self, dtype, allow_none=True):
        r, api = self.rng, self.api
        if allow_none and r.random() < 0.08:
            return None
        bits, signed = DT[dtype.name]
        lo, hi = (-(1 << (bits - 1)), (1 << (bits - 1)) - 1) if signed else (0, (1 << bits) - 1)
        if bits > 16:
            zp = 0
        else:
            zp = r.choice([0, 0, lo, hi, 128 if hi >= 128 else 0, r.randrange(lo, hi + 1)])
        scale = r.choice([1.0, 0.5, 0.25, 0.125, 2.0 ** -7, 0.007843138, 0.20392157, 0.0235, 1.5])
        if allow_none and r.random() < 0.04:
            scale = None
        return api.NpuQuantization(scale_f32=scale, zero_point=zp)

    def fm(self, shape, dtype, allow_none_quant=True, tiles=True):
        r, api = self.rng, self.api
        f = api.NpuFeatureMap()
        f.data_type = dtype
        f.shape = shape
        f.layout = r.choice([api.NpuLayout.NHWC, api.NpuLayout.NHCWB16])
        f.region = r.choice([0, 1, 1, 2, 3, 7])
        f.quantization = self.quant(dtype, allow_none_quant)
        f.name = None
        elem = dtype.size_in_bytes()
        b16 = f.layout == api.NpuLayout.NHCWB16
        align = 16 if b16 else elem
        h, w, d = shape.height, shape.width, shape.depth
        if b16:
            sx, sc, sy = 16 * elem, 16 * elem * w, elem * w * ((d + 15) // 16) * 16
        else:
            sc, sx, sy = elem, d * elem, w * d * elem
        if r.random() < 0.3:      # explicit, possibly padded strides
            pad = r.choice([0, 0, 1, 3]) * 16
            if b16:
                sy2 = sy + pad
                f.strides = api.NpuShape3D(height=sy2, width=sx, depth=sc)
            else:
                sx2 = sx + r.choice([0, elem, 16 * elem])
                sy2 = w * sx2 + r.choice([0, elem, 64 * elem])
                f.strides = api.NpuShape3D(height=sy2, width=sx2, depth=sc)
                sx, sy = sx2, sy2
            sy = f.strides.height
        size = sy * h + 4096
        mode = r.choice(["one", "one", "one0", "v", "h", "four"]) if tiles else "one"
        a = [self.addr(align, size) for _ in range(4)]
        if mode == "one" or (mode == "v" and h < 2) or (mode == "h" and w < 2) or (mode == "four" and (h < 2 or w < 2)):
            f.tiles = api.NpuTileBox(height_0=h, height_1=h, width_0=w, addresses=[a[0], 0, 0, 0])
        elif mode == "one0":
            f.tiles = api.NpuTileBox(height_0=h, height_1=0, width_0=w, addresses=[a[0], 0, 0, 0])
        elif mode == "v":
            f.tiles = api.NpuTileBox(height_0=r.randrange(1, h), height_1=h, width_0=w, addresses=[a[0], 0, a[2], 0])
        elif mode == "h":
            f.tiles = api.NpuTileBox(height_0=h, height_1=h, width_0=r.randrange(1, w), addresses=[a[0], a[1], 0, 0])
        else:
            f.tiles = api.NpuTileBox(height_0=r.randrange(1, h), height_1=r.randrange(1, h), width_0=r.randrange(1, w), addresses=a)
        return f

    def activation(self, op, allow_lut=True):
        r, api = self.rng, self.api
        k = r.random()
        if k < 0.35:
            return None
        if k < 0.7:
            a = api.NpuActivation(api.NpuActivationOp.NONE_OR_RELU)
            s = op.ofm.quantization.scale_f32 if (op.ofm.quantization and op.ofm.quantization.scale_f32) else 1.0
            if r.random() < 0.7:
                a.min = r.choice([0.0, -1.0, s * r.randrange(-100, 20), -1000.0])
            if r.random() < 0.6:
                a.max = r.choice([6.0, 1.0, s * r.randrange(0, 200), 100000.0])
            return a
        if k < 0.8 and op.ifm.quantization is not None and op.ifm.quantization.scale_f32 is not None:
            return api.NpuActivation(r.choice([api.NpuActivationOp.TANH, api.NpuActivationOp.SIGMOID]))
        if allow_lut:
            a = api.NpuActivation(api.NpuActivationOp.TABLE_LOOKUP)
            a.lookup_table_index = r.randrange(0, 8)
            return a
        return None

    def ranges(self, n, unaligned_addr=False):
        r, api = self.rng, self.api
        out = []
        for _ in range(n):
            ln = 16 * r.choice([1, 2, 5, 60, 481, r.randrange(1, 4096)])
            a = self.addr(16, ln)
            if unaligned_addr and r.random() < 0.5:
                a += r.randrange(1, 16)
            out.append(api.NpuAddressRange(region=r.choice([0, 0, 1, 2]), address=a, length=ln))
        rg = out[0].region
        return [api.NpuAddressRange(rg, x.address, x.length) for x in out]

    def block_config(self, op):
        api = self.api
        k = op.kernel
        key = (type(op).__name__, tuple(op.ifm.shape), tuple(op.ofm.shape), tuple(op.ifm2.shape) if op.ifm2 else None,
               op.ifm2_scalar is not None, op.ifm.data_type, op.ifm_upscale, getattr(op, "block_traversal", None),
               getattr(op, "sub_op_type", None), (k.width, k.height, k.stride_x, k.stride_y, k.dilation_x, k.dilation_y) if k else None,
               op.activation.op_type if op.activation else None,
               all(f is None or f.quantization is not None for f in (op.ifm, op.ifm2, op.ofm)),
               all(f is None or (f.quantization is not None and f.quantization.scale_f32 is not None) for f in (op.ifm, op.ifm2, op.ofm)))
        if key not in self.cfg_cache:
            try:
                self.cfg_cache[key] = api.npu_find_block_configs(op, self.acc)
            except AssertionError:
                self.cfg_cache[key] = []
        cfgs = self.cfg_cache[key]
        return self.rng.choice(cfgs) if cfgs else None

    def conv_like(self, depthwise):
        r, api = self.rng, self.api
        op = api.NpuConvDepthWiseOperation() if depthwise else api.NpuConv2DOperation()
        idt = r.choice([api.NpuDataType.UINT8, api.NpuDataType.INT8, api.NpuDataType.INT8, api.NpuDataType.INT16])
        odt = r.choice([idt, idt, api.NpuDataType.INT32, api.NpuDataType.UINT8, api.NpuDataType.INT16])
        kw, kh = r.choice([1, 1, 2, 3, 3, 5, 7]), r.choice([1, 1, 2, 3, 3, 5, 8])
        op.kernel = api.NpuKernel(kw, kh, r.choice([1, 1, 2, 3]), r.choice([1, 1, 2, 3]), r.choice([1, 1, 2]), r.choice([1, 1, 2]))
        op.ifm_upscale = r.choice([api.NpuResamplingMode.NONE] * 4 + [api.NpuResamplingMode.NEAREST, api.NpuResamplingMode.TRANSPOSE])
        oh, ow = self.pick_dim(), self.pick_dim()
        if r.random() < 0.1:
            oh = r.choice([255, 256, 257, 1000, 65535, 65536])
        ic = self.pick_dim(64)
        oc = ic if depthwise else self.pick_dim(64)
        pad = api.NpuPadding(top=r.randrange(0, kh), left=r.randrange(0, kw), bottom=r.randrange(0, kh), right=r.randrange(0, kw))
        ih = max(1, (oh - 1) * op.kernel.stride_y + op.kernel.dilation_y * (kh - 1) + 1 - pad.top - pad.bottom)
        iw = max(1, (ow - 1) * op.kernel.stride_x + op.kernel.dilation_x * (kw - 1) + 1 - pad.left - pad.right)
        if op.ifm_upscale != api.NpuResamplingMode.NONE:
            ih, iw = (ih + 1) // 2, (iw + 1) // 2
        ih, iw = min(ih, 65536), min(iw, 65536)
        op.padding = pad
        op.ifm = self.fm(api.NpuShape3D(ih, iw, ic), idt, allow_none_quant=False)
        op.ofm = self.fm(api.NpuShape3D(oh, ow, oc), odt, allow_none_quant=False)
        nw = 2 if (NCORES[self.acc_name] == 2 and r.random() < 0.8) else 1
        op.weights = self.ranges(nw)
        op.biases = self.ranges(nw, unaligned_addr=True) if r.random() < 0.85 else []
        if not depthwise:
            op.block_traversal = r.choice([api.NpuBlockTraversal.DEPTH_FIRST, api.NpuBlockTraversal.PART_KERNEL_FIRST])
        op.rounding_mode = r.choice([api.NpuRoundingMode.TFL, api.NpuRoundingMode.TFL, api.NpuRoundingMode.TRUNCATE, api.NpuRoundingMode.NATURAL])
        op.activation = self.activation(op)
        return op

    def pooling(self):
        r, api = self.rng, self.api
        sub = r.choice([api.NpuPoolingOp.MAX, api.NpuPoolingOp.AVERAGE, api.NpuPoolingOp.AVERAGE, api.NpuPoolingOp.REDUCE_SUM])
        op = api.NpuPoolingOperation(sub)
        idt = r.choice([api.NpuDataType.UINT8, api.NpuDataType.INT8, api.NpuDataType.INT16])
        odt = idt
        if sub == api.NpuPoolingOp.REDUCE_SUM:
            idt = r.choice([api.NpuDataType.INT8, api.NpuDataType.INT16, api.NpuDataType.INT32])
            odt = api.NpuDataType.INT32
        kw, kh = (1, 1) if sub == api.NpuPoolingOp.REDUCE_SUM else (r.choice([1, 2, 3, 8]), r.choice([1, 2, 3, 8]))
        op.kernel = api.NpuKernel(kw, kh, r.choice([1, 2, 3]), r.choice([1, 2, 3]))
        oh, ow, c = self.pick_dim(), self.pick_dim(), self.pick_dim(64)
        pad = api.NpuPadding(0, 0, 0, 0) if r.random() < 0.5 else \
            api.NpuPadding(top=r.randrange(0, kh), left=r.randrange(0, kw), bottom=r.randrange(0, kh), right=r.randrange(0, kw))
        ih = max(1, (oh - 1) * op.kernel.stride_y + kh - pad.top - pad.bottom)
        iw = max(1, (ow - 1) * op.kernel.stride_x + kw - pad.left - pad.right)
        op.padding = pad
        op.ifm = self.fm(api.NpuShape3D(ih, iw, c), idt)
        if op.ifm.quantization is None:
            op.ifm.quantization = api.NpuQuantization(None, 0)
        if sub == api.NpuPoolingOp.REDUCE_SUM:
            op.ifm.layout = api.NpuLayout.NHWC
            op.ifm.strides = None
            elem = idt.size_in_bytes()
            t = op.ifm.tiles
            op.ifm.tiles = api.NpuTileBox(t.height_0, t.height_1, t.width_0, [a - a % elem for a in t.addresses])
        op.ofm = self.fm(api.NpuShape3D(oh, ow, 1 if sub == api.NpuPoolingOp.REDUCE_SUM else c), odt)
        if op.ofm.quantization is None:
            op.ofm.quantization = api.NpuQuantization(None, 0)
        op.rounding_mode = r.choice([api.NpuRoundingMode.TFL, api.NpuRoundingMode.NATURAL])
        op.ifm_upscale = r.choice([api.NpuResamplingMode.NONE] * 5 + [api.NpuResamplingMode.NEAREST])
        op.activation = self.activation(op)
        if op.activation is not None and op.activation.op_type in (api.NpuActivationOp.TANH, api.NpuActivationOp.SIGMOID) and \
                (op.ifm.quantization is None or op.ifm.quantization.scale_f32 is None):
            op.activation = None
        op.fused_quantize = r.random() < 0.1 and all(f.quantization is not None and f.quantization.scale_f32 is not None for f in (op.ifm, op.ofm))
        if r.random() < 0.1:
            op.rescale = r.choice([1.0, 0.5, 2.0, 0.75])
        return op

    def elementwise(self):
        r, api = self.rng, self.api
        E = api.NpuElementWiseOp
        sub = r.choice([E.ADD, E.ADD, E.SUB, E.MUL, E.MUL, E.MIN, E.MAX, E.ABS, E.LRELU, E.CLZ, E.SHR, E.SHL])
        op = api.NpuElementWiseOperation(sub)
        if sub in (E.CLZ, E.SHR, E.SHL):
            idt = odt = api.NpuDataType.INT32
        else:
            idt = r.choice([api.NpuDataType.UINT8, api.NpuDataType.INT8, api.NpuDataType.INT16, api.NpuDataType.INT32])
            odt = r.choice([idt, idt, api.NpuDataType.INT32 if sub == E.MUL else idt])
        h, w, c = self.pick_dim(), self.pick_dim(), self.pick_dim(64)
        need_q = sub in (E.ABS, E.LRELU)
        op.ifm = self.fm(api.NpuShape3D(h, w, c), idt, allow_none_quant=not need_q)
        op.ofm = self.fm(api.NpuShape3D(h, w, c), odt, allow_none_quant=not need_q)
        if need_q and op.ofm.quantization.scale_f32 is None:
            op.ofm.quantization = api.NpuQuantization(0.25, op.ofm.quantization.zero_point)
        if sub not in (E.ABS, E.LRELU, E.CLZ):
            k = r.random()
            if k < 0.2:
                op.ifm2 = self.fm(api.NpuShape3D(1, 1, 1), idt, tiles=False)
                if op.ifm2.quantization is None or op.ifm2.quantization.scale_f32 is None:
                    op.ifm2.quantization = api.NpuQuantization(0.5, 0)
                zp2 = op.ifm2.quantization.zero_point
                sc2 = r.choice([1.0, 0.5, 0.25, 2.0 ** -7])
                op.ifm2.quantization = api.NpuQuantization(sc2, zp2)
                lo, hi = idt.min_value(), idt.max_value()
                lo, hi = max(lo, -32768), min(hi, 32767)     # the scalar register has 16 bits
                v = r.choice([lo, hi, 0, 1, r.randrange(max(lo, -1000), min(hi, 1000) + 1)])
                op.ifm2_scalar = float((v - zp2) * sc2)
            else:
                bh, bw, bc = (r.random() < 0.2), (r.random() < 0.2), (r.random() < 0.2)
                op.ifm2 = self.fm(api.NpuShape3D(1 if bh else h, 1 if bw else w, 1 if bc else c), idt)
            op.reversed_operands = r.random() < 0.3
        if sub in (E.ADD, E.SUB, E.MUL) and r.random() < 0.3:
            op.rescale = (r.choice([1, 3, 1 << 30, (1 << 31) - 1, r.randrange(1, 1 << 32)]), r.choice([0, 1, 30, 31, 63, r.randrange(0, 64)]))
        op.rounding_mode = r.choice([api.NpuRoundingMode.TFL, api.NpuRoundingMode.NATURAL, api.NpuRoundingMode.TRUNCATE])
        op.activation = self.activation(op)
        if op.activation is not None and op.activation.op_type in (api.NpuActivationOp.TANH, api.NpuActivationOp.SIGMOID):
            if sub not in (E.ADD, E.SUB, E.MUL):
                op.activation = None
        return op

    def dma(self):
        r, api = self.rng, self.api
        internal = r.random() < 0.3
        ln = 16 * r.choice([1, 2, 7, 64, 128, r.randrange(1, 1024)])
        if self.u65 and not internal and r.random() < 0.6:
            ln = r.randrange(1, 5000)
        if internal:
            ln = min(ln, 2048)
        sa = self.addr(1 if self.u65 else 16, ln)
        shram = _arch(self.acc_name).shram_size_bytes
        da = (16 * r.randrange(0, (shram - ln) // 16 + 1)) if internal else self.addr(1 if self.u65 else 16, ln)
        op = api.NpuDmaOperation(api.NpuAddressRange(r.choice([0, 0, 1, 2]), sa, ln),
                                 api.NpuAddressRange(MEM2MEM if internal else r.choice([1, 1, 2]), da, ln))
        op.channel = r.choice([0, 0, 0, 1])
        op.mode = r.choice([0, 0, 0, 1])
        return op

    def block_op(self):
        """one legal block operation with a valid block config"""
        for _ in range(30):
            k = self.rng.random()
            op = self.conv_like(False) if k < 0.35 else self.conv_like(True) if k < 0.5 else self.pooling() if k < 0.7 else self.elementwise()
            bc = self.block_config(op)
            if bc is not None:
                op.block_config = bc
                return op
        raise RuntimeError("no block configuration found for 30 generated operations")

    def variant(self, op):
        """a similar operation (so that elision sees near-identical register histories)"""
        r, api = self.rng, self.api
        if isinstance(op, api.NpuDmaOperation):
            n = self.dma()
            if r.random() < 0.5:
                n.src = api.NpuAddressRange(op.src.region, n.src.address, n.src.length)
            return n
        n = copy.copy(op)
        for nm in ("ifm", "ifm2", "ofm"):
            if getattr(op, nm) is not None:
                setattr(n, nm, copy.copy(getattr(op, nm)))
        k = r.random()
        if k < 0.25:
            return n                                   # identical
        if k < 0.55:                                   # other addresses
            f = n.ofm if r.random() < 0.5 else n.ifm
            al = 16 if f.layout == api.NpuLayout.NHCWB16 else f.data_type.size_in_bytes()
            t = f.tiles
            a = list(t.addresses)
            i = r.randrange(0, 4)
            if self.u65 and r.random() < 0.4:
                # same payload word, other high bits: only the parameter field of the cmd1 changes
                a[i] = a[i] + (1 << 32) * r.choice([1, 2, 5]) if a[i] + (6 << 32) < self.limit - (1 << 36) else a[i] % (1 << 32)
            else:
                a[i] = a[i] + al * r.choice([1, 16, 4096, -1])
            a[i] = max(a[i], 0)
            f.tiles = api.NpuTileBox(t.height_0, t.height_1, t.width_0, a)
            return n
        if k < 0.7:                                    # other zero point / region
            f = r.choice([x for x in (n.ifm, n.ofm, n.ifm2 if n.ifm2_scalar is None else None) if x is not None])
            if f.quantization is not None:
                bits, signed = DT[f.data_type.name]
                zp = 0 if bits > 16 else r.randrange(-(1 << (bits - 1)) if signed else 0, (1 << (bits - 1)) if signed else (1 << bits))
                f.quantization = api.NpuQuantization(f.quantization.scale_f32, zp)
            f.region = r.choice([0, 1, 2])
            return n
        if k < 0.8 and isinstance(n, api.NpuElementWiseOperation) and getattr(n, "rescale", None) is not None:
            n.rescale = (n.rescale[0], (n.rescale[1] + r.choice([1, 5])) % 64)     # same scale word, other shift
            return n
        if k < 0.85 and n.weights:
            n.weights = self.ranges(len(n.weights))
            if n.biases:
                n.biases = self.ranges(len(n.biases), unaligned_addr=True)
            return n
        n.activation = self.activation(n) if not (isinstance(n, api.NpuPoolingOperation) or isinstance(n, api.NpuElementWiseOperation)) else n.activation
        n.rounding_mode = r.choice(list(api.NpuRoundingMode))
        bc = self.block_config(n)
        if bc is None:
            return copy.copy(op)
        n.block_config = bc
        return n

    def ew_scale_grid(self):
        """binary ADD / SUB / MUL of quantised feature maps without explicit rescale: operand order x data type x
        equal / differing input scales x output scales (the operand-scaling clause of the property), in lists of
        up to 12 so that IFM_PRECISION / OPA_SCALE / OFM_SCALE are also elided against each other"""
        r, api = self.rng, self.api
        E = api.NpuElementWiseOp
        pairs = [(0.25, 0.5), (0.5, 0.25), (0.0123, 0.0771), (0.0771, 0.0123), (0.5, 0.5), (0.0235, 0.0235), (0.007843138, 0.20392157)]
        ops = []
        for sub in (E.ADD, E.SUB, E.MUL):
            for rev in (False, True):
                for dt in (api.NpuDataType.INT8, api.NpuDataType.UINT8, api.NpuDataType.INT16):
                    for s1, s2 in pairs:
                        op = api.NpuElementWiseOperation(sub)
                        h, w, c = self.pick_dim(), self.pick_dim(), self.pick_dim(32)
                        bh = r.random() < 0.15
                        op.ifm = self.fm(api.NpuShape3D(h, w, c), dt, allow_none_quant=False)
                        op.ifm2 = self.fm(api.NpuShape3D(1 if bh else h, w, c), dt, allow_none_quant=False)
                        op.ofm = self.fm(api.NpuShape3D(h, w, c), dt, allow_none_quant=False)
                        zp = 0 if dt == api.NpuDataType.INT16 else r.choice([0, 3, 127])
                        op.ifm.quantization = api.NpuQuantization(s1, zp)
                        op.ifm2.quantization = api.NpuQuantization(s2, 0)
                        op.ofm.quantization = api.NpuQuantization(r.choice([0.6, 0.25, 0.5, 0.0784, 1.0 / 256]), zp)
                        op.reversed_operands = rev
                        op.rounding_mode = r.choice([api.NpuRoundingMode.TFL, api.NpuRoundingMode.NATURAL])
                        if r.random() < 0.15:
                            op.activation = api.NpuActivation(r.choice([api.NpuActivationOp.TANH, api.NpuActivationOp.SIGMOID]))
                        bc = self.block_config(op)
                        if bc is None:
                            continue
                        op.block_config = bc
                        ops.append(op)
        r.shuffle(ops)
        lists, i = [], 0
        while i < len(ops):
            n = r.choice([1, 2, 5, 12])
            lists.append(ops[i:i + n])
            i += n
        return lists

    def op_list(self):
        r = self.rng
        n = r.choice([1, 1, 2, 2, 3, 4, 5, 6, 8, 10, 12])
        bases = [self.dma() if r.random() < 0.25 else self.block_op() for _ in range(r.choice([1, 1, 2, 3]))]
        ops = []
        while len(ops) < n:
            b = r.choice(bases)
            o = b if (ops and r.random() < 0.15) else self.variant(b)
            if r.random() < 0.5:
                bases.append(o)
            ops.append(o)
        return ops


# ------------------------------------------------------------------------------------------------ correspondence
TAGS = {"cmd0": 0, "cmd1o": 1, "cmd1a": 2, "wait": 3, "op": 4}


def random_calls(rng, n):
    """call sequence for the real CommandStreamEmitter: any opcode member, any integer value, few distinct
    values per register so that elision happens"""
    from ethosu.vela.ethos_u55_regs.ethos_u55_regs import cmd0, cmd1
    c0 = list(cmd0)
    c1 = list(cmd1)
    set0 = [m for m in c0 if m.value >= 256]
    pool0 = rng.sample(set0, rng.choice([1, 2, 4, 8, len(set0)]))
    pool1 = rng.sample(c1, rng.choice([1, 2, 4, 8, len(c1)]))
    vals = [0, 1, 2, 65535, 65536, 65537, -1, -65536, (1 << 32) - 1, 1 << 32, (1 << 32) + 1, (1 << 40) - 16, 1 << 47, (1 << 48) + 5,
            -(1 << 33), rng.getrandbits(16), rng.getrandbits(32), rng.getrandbits(48), -rng.getrandbits(20)]
    vals = rng.sample(vals, rng.choice([2, 3, 5, len(vals)]))
    calls = []
    for _ in range(n):
        k = rng.random()
        if k < 0.4:
            calls.append(("cmd0", rng.choice(pool0 if rng.random() < 0.95 else c0), rng.choice(vals), 0))
        elif k < 0.6:
            calls.append(("cmd1o", rng.choice(pool1), rng.choice(vals), rng.choice(vals + [0, 0, 0])))
        elif k < 0.8:
            calls.append(("cmd1a", rng.choice(pool1), rng.choice(vals), 0))
        elif k < 0.87:
            calls.append(("wait", rng.choice([cmd0.NPU_OP_KERNEL_WAIT, cmd0.NPU_OP_DMA_WAIT]), rng.choice([0, 0, 1, 3, 5000]), rng.choice([0, 1, 2, 3, 70000])))
        else:
            calls.append(("op", rng.choice([m for m in c0 if m.value < 256]), rng.choice([0, 0, 1, 2, 9, 65535, 65536 + 3, -1]), 0))
    return calls


def drive_real(calls):
    from ethosu.vela import register_command_stream_generator as g
    e = g.CommandStreamEmitter()
    for kind, cmd, a, b in calls:
        if kind == "cmd0":
            e.cmd0_with_param(cmd, a)
        elif kind == "cmd1o":
            e.cmd1_with_offset(cmd, a, b)
        elif kind == "cmd1a":
            e.cmd1_with_address(cmd, a)
        elif kind == "wait":
            e.cmd_wait(cmd, a, b)
        else:
            e.cmd_do_operation(cmd, a)
    return [int(e.offset), int(e.reg_machine[0].bank_idx), int(e.reg_machine[1].bank_idx)] + [int(x) for x in e.to_list()]


def flat_calls(calls):
    out = [len(calls)]
    for kind, cmd, a, b in calls:
        out += [TAGS[kind], int(cmd.value), int(a), int(b)]
    return out


class Recorder:
    """records the calls made on the real CommandStreamEmitter (class-level wrappers that call through)"""

    def __init__(self):
        from ethosu.vela import register_command_stream_generator as g
        from enum import Enum
        self.g, self.log, self.on = g, [], False
        E = g.CommandStreamEmitter
        self.orig = {n: getattr(E, n) for n in ("cmd0_with_param", "cmd1_with_offset", "cmd1_with_address", "cmd_wait", "cmd_do_operation")}
        rec = self

        def c0(self_, cmd, param):
            if rec.on:
                rec.log.append(("cmd0", cmd, int(param.value) if isinstance(param, Enum) else int(param), 0))
            return rec.orig["cmd0_with_param"](self_, cmd, param)

        def c1o(self_, cmd, offset, param=0x0):
            if rec.on and not rec.inner:
                rec.log.append(("cmd1o", cmd, int(offset), int(param)))
            return rec.orig["cmd1_with_offset"](self_, cmd, offset, param)

        def c1a(self_, cmd, offset):
            if rec.on:
                rec.log.append(("cmd1a", cmd, int(offset), 0))
            rec.inner = True
            try:
                return rec.orig["cmd1_with_address"](self_, cmd, offset)
            finally:
                rec.inner = False

        def cw(self_, cmd, channel, count):
            if rec.on:
                rec.log.append(("wait", cmd, int(channel), int(count)))
            return rec.orig["cmd_wait"](self_, cmd, channel, count)

        def cop(self_, cmd, param=0):
            if rec.on:
                rec.log.append(("op", cmd, int(param), 0))
            return rec.orig["cmd_do_operation"](self_, cmd, param)
        self.inner = False
        E.cmd0_with_param, E.cmd1_with_offset, E.cmd1_with_address, E.cmd_wait, E.cmd_do_operation = c0, c1o, c1a, cw, cop

    def restore(self):
        for n, f in self.orig.items():
            setattr(self.g.CommandStreamEmitter, n, f)

    def run(self, ops, acc):
        from ethosu.vela import api
        self.log, self.on = [], True
        try:
            return api.npu_generate_register_command_stream(ops, acc), list(self.log)
        finally:
            self.on = False


def frames_of(log):
    """recorded calls -> flat input of the framing model (frame_stream), or None when the calls do not have the
    shape  [PARALLEL_MODE] { writes.. [BLOCKDEP] [KERNEL_WAIT] [DMA_WAIT] OP }* STOP"""
    calls = list(log)
    if not calls or calls[-1][0] != "op" or calls[-1][1].name != "NPU_OP_STOP" or calls[-1][2] != 0xFFFF:
        return None
    calls.pop()
    flat = [0, 0]
    if calls and calls[0][0] == "cmd0" and calls[0][1].name == "NPU_SET_PARALLEL_MODE":
        flat = [1, calls[0][2]]
        calls.pop(0)
    frames, cur = [], []
    for c in calls:
        cur.append(c)
        if c[0] == "op":
            frames.append(cur)
            cur = []
    if cur:
        return None
    flat.append(len(frames))
    for fr in frames:
        op = fr.pop()
        kw = dw = -1
        while fr and fr[-1][0] == "wait":
            wt = fr.pop()
            if wt[2] != 0:
                return None
            if wt[1].name == "NPU_OP_DMA_WAIT" and dw < 0 and kw < 0:
                dw = wt[3]
            elif wt[1].name == "NPU_OP_KERNEL_WAIT" and kw < 0:
                kw = wt[3]
            else:
                return None
        bd = None
        if fr and fr[-1][0] == "cmd0" and fr[-1][1].name == "NPU_SET_BLOCKDEP":
            bd = fr.pop()[2]
        if any(c[0] in ("wait", "op") for c in fr):
            return None
        flat += flat_calls(fr) + [1 if bd is not None else 0, bd or 0, kw, dw, int(op[1].value), op[2]]
    return flat


def helper_cases(rng, n):
    """(model command, model input, real value) triples for the derived-field and check_* models"""
    from ethosu.vela import api
    from ethosu.vela import register_command_stream_generator as g
    from ethosu.vela import register_command_stream_util as u
    from ethosu.vela.errors import ByteAlignmentError, ByteSizeError
    from ethosu.vela.ethos_u55_regs.ethos_u55_regs import cmd0
    out = []

    def params(fn):
        e = g.CommandStreamEmitter()
        fn(e)
        return [int(wd) >> 16 for wd in e.to_list()]

    def raises(fn):
        try:
            fn()
            return 1
        except (ByteAlignmentError, ByteSizeError):
            return 0
    dts = list(api.NpuDataType)
    for i in range(n):
        # kernel
        kw, kh = rng.choice([1, 2, 3, 8, 64, rng.randrange(1, 300)]), rng.choice([1, 2, 3, 8, 64, rng.randrange(1, 300)])
        sx, sy = rng.choice([1, 2, 3, 4, 16, rng.randrange(1, 17)]), rng.choice([1, 2, 3, 4, 16, rng.randrange(1, 17)])
        dx, dy = rng.choice([1, 2]), rng.choice([1, 2])
        pk = rng.random() < 0.5
        k = api.NpuKernel(kw, kh, sx, sy, dx, dy)
        got = params(lambda e: g.generate_kernel(e, k, api.NpuBlockTraversal.PART_KERNEL_FIRST if pk else api.NpuBlockTraversal.DEPTH_FIRST))
        out.append(("kernel_fields", [kw, kh, sx, sy, dx, dy, int(pk)], got))
        # precision
        dt = rng.choice(dts)
        lay = rng.choice(list(api.NpuLayout))
        ots, gs = rng.randrange(0, 3), rng.random() < 0.5
        rm = rng.choice(list(api.NpuRoundingMode))
        fm = api.NpuFeatureMap()
        fm.data_type, fm.layout = dt, lay
        fm.shape = api.NpuShape3D(rng.randrange(1, 70), rng.randrange(1, 70), rng.randrange(1, 70))
        op = api.NpuConv2DOperation()
        op.ofm, op.rounding_mode = fm, rm
        got = params(lambda e: g.generate_ifm_precision(e, fm, ots, cmd0.NPU_SET_IFM_PRECISION)) + \
            params(lambda e: g.generate_ofm_precision(e, op, gs))
        out.append(("precision_fields", [int(dt.is_signed()), dt.size_in_bits(), int(lay == api.NpuLayout.NHCWB16), ots, int(gs),
                                         g.rounding_mode_map[rm]], got))
        st = u.get_strides(fm)
        out.append(("default_strides", [int(lay == api.NpuLayout.NHCWB16), dt.size_in_bytes(), fm.shape.width, fm.shape.depth],
                    [int(st.depth), int(st.height), int(st.width)]))
        # check_* guards
        a_ = rng.choice([0, 16, 24, 1, 2, 3, 4, 32, 120, 128, rng.randrange(0, 1 << 34), -16, -3])
        n_ = rng.choice([1, 2, 4, 16])
        out.append(("checks", [0, a_, n_], [raises(lambda: u.check_alignment(a_, n_))]))
        out.append(("checks", [1, a_, n_], [raises(lambda: u.check_length(a_, n_))]))
        sc, sy_, sx_ = [rng.choice([16, 32, 2, 1, 24, 8, 46, 2852, rng.randrange(1, 5000)]) for _ in range(3)]
        out.append(("checks", [2, int(lay == api.NpuLayout.NHCWB16), dt.size_in_bytes(), sc, sy_, sx_],
                    [raises(lambda: u.check_strides(fm, api.NpuShape3D(height=sy_, width=sx_, depth=sc)))]))
        addrs = [rng.choice([0, 16, 24, 2, 3, 512, rng.randrange(0, 1 << 33)]) for _ in range(4)]
        acc = rng.choice(ACCS)
        arch = _arch(acc)
        from ethosu.vela.tensor import TensorFormat
        q16 = int(arch.storage_rounding_quantums[TensorFormat.NHCWB16][-1])
        out.append(("checks", [3, int(lay == api.NpuLayout.NHCWB16), dt.size_in_bytes(), q16] + addrs,
                    [raises(lambda: u.check_addresses(addrs, lay, dt.size_in_bytes(), arch))]))
        sr, dr = rng.choice([0, 1, 2, MEM2MEM]), rng.choice([0, 1, 2, MEM2MEM])
        sa, da, ln = [rng.choice([0, 16, 256, 512, 120, 8, 1, rng.randrange(0, 1 << 20)]) for _ in range(3)]
        dop = api.NpuDmaOperation(api.NpuAddressRange(sr, sa, ln), api.NpuAddressRange(dr, da, ln))
        out.append(("checks", [4, int(arch.is_ethos_u65_system), sr, sa, dr, da, ln], [raises(lambda: u.check_dma_op(dop, arch))]))
        # weights / biases guards through generate_weights / generate_biases
        wa, wl = rng.choice([0, 16, 120, 128, 8]), rng.choice([16, 24, 32, 0, 7696, 13])
        out.append(("checks", [5, wa, wl], [raises(lambda: g.generate_weights(g.CommandStreamEmitter(), [api.NpuAddressRange(0, wa, wl)], arch))]))
        out.append(("checks", [6, wl], [raises(lambda: g.generate_biases(g.CommandStreamEmitter(), [api.NpuAddressRange(0, wa, wl)], arch))]))
        # LUT activation, broadcast, address split
        idx, i32 = rng.randrange(0, 8), rng.random() < 0.5
        act = api.NpuActivation(api.NpuActivationOp.TABLE_LOOKUP)
        act.lookup_table_index = idx
        ofm = api.NpuFeatureMap()
        ofm.data_type = api.NpuDataType.INT32 if i32 else api.NpuDataType.INT8
        ofm.quantization = None
        a1 = params(lambda e: g.generate_activation(e, act, ofm))[0]
        eo = api.NpuElementWiseOperation(api.NpuElementWiseOp.ADD)
        eo.ifm, eo.ifm2 = api.NpuFeatureMap(), api.NpuFeatureMap()
        bh, bw, bc = rng.random() < 0.5, rng.random() < 0.5, rng.random() < 0.5
        eo.ifm.shape = api.NpuShape3D(4, 5, 6)
        eo.ifm2.shape = api.NpuShape3D(1 if bh else 4, 1 if bw else 5, 1 if bc else 6)
        rv, scal = rng.random() < 0.5, rng.random() < 0.3
        eo.reversed_operands = rv
        eo.ifm2_scalar = 1.0 if scal else None
        b1 = params(lambda e: g.generate_ifm2_broadcast(e, eo))[0]
        ad = rng.choice([0, 16, (1 << 32) - 16, 1 << 32, (1 << 40) - 16, rng.randrange(0, 1 << 40)])
        e2 = g.CommandStreamEmitter()
        e2.cmd1_with_address(g.cmd1.NPU_SET_IFM_BASE0, ad)
        wds = e2.to_list()
        out.append(("misc_fields", [idx, int(i32), int(rv), int(scal), int(bh), int(bw), int(bc), ad], [a1, b1, int(wds[1]), int(wds[0]) >> 16]))
        # operand order / scale mode of ADD/SUB with differing input scales (always the advanced branch)
        so = api.NpuElementWiseOperation(rng.choice([api.NpuElementWiseOp.ADD, api.NpuElementWiseOp.SUB]))
        sdt = rng.choice([api.NpuDataType.INT8, api.NpuDataType.UINT8, api.NpuDataType.INT16])
        s1, s2 = rng.sample([0.25, 0.5, 0.0123, 0.0771, 0.007843138, 0.20392157, 1.5], 2)
        so.ifm, so.ifm2, so.ofm = api.NpuFeatureMap(), api.NpuFeatureMap(), api.NpuFeatureMap()
        for f_, sc_ in ((so.ifm, s1), (so.ifm2, s2), (so.ofm, rng.choice([0.6, 0.25, 0.0784]))):
            f_.data_type = sdt
            f_.quantization = api.NpuQuantization(sc_, 0)
        so.reversed_operands = rng.random() < 0.5
        m_ = int(g.generate_scaling_for_elementwise(g.CommandStreamEmitter(), so))
        sel_ifm = (m_ == 2) if so.reversed_operands else (m_ == 1)      # register documentation, see addsub_denotes
        out.append(("scale_mode", [int(so.reversed_operands), int(s1 < s2)], [m_, int(sel_ifm)]))
    return out


# ------------------------------------------------------------------------------------------------ serialised op -> API object
def rebuild(d, cls):
    """API operation from its serialised form (tools/wrap.py ser); used by replays"""
    from ethosu.vela import api
    from ethosu.vela.operation import ExplicitScaling

    def fm(x):
        if x is None:
            return None
        f = api.NpuFeatureMap()
        f.data_type = api.NpuDataType[x["data_type"]]
        f.region = x["region"]
        f.shape = api.NpuShape3D(**x["shape"])
        f.tiles = api.NpuTileBox(**x["tiles"])
        q = x.get("quantization")
        f.quantization = None if q is None else api.NpuQuantization(q["scale_f32"], q["zero_point"])
        f.layout = api.NpuLayout[x["layout"]]
        f.strides = None if x.get("strides") is None else api.NpuShape3D(**x["strides"])
        f.name = x.get("name")
        return f
    if cls == "NpuDmaOperation":
        op = api.NpuDmaOperation(api.NpuAddressRange(**d["src"]), api.NpuAddressRange(**d["dest"]))
        op.channel, op.mode = d["channel"], d["mode"]
        return op
    if cls == "NpuConv2DOperation":
        op = api.NpuConv2DOperation()
        op.block_traversal = api.NpuBlockTraversal[d["block_traversal"]]
    elif cls == "NpuConvDepthWiseOperation":
        op = api.NpuConvDepthWiseOperation()
    elif cls == "NpuPoolingOperation":
        op = api.NpuPoolingOperation(api.NpuPoolingOp[d["sub_op_type"]])
        r = d.get("rescale")
        op.rescale = ExplicitScaling(r["per_channel"], r["shift"], r["multiplier"]) if isinstance(r, dict) else r
    else:
        op = api.NpuElementWiseOperation(api.NpuElementWiseOp[d["sub_op_type"]])
        op.reversed_operands = d["reversed_operands"]
        op.rescale = None if d.get("rescale") is None else tuple(d["rescale"])
    op.ifm, op.ifm2, op.ofm = fm(d["ifm"]), fm(d.get("ifm2")), fm(d["ofm"])
    op.ifm2_scalar = d.get("ifm2_scalar")
    k = d.get("kernel")
    op.kernel = None if k is None else api.NpuKernel(k["width"], k["height"], k["stride_x"], k["stride_y"], k["dilation_x"], k["dilation_y"])
    op.weights = [api.NpuAddressRange(**x) for x in d.get("weights") or []]
    op.biases = [api.NpuAddressRange(**x) for x in d.get("biases") or []]
    op.padding = None if d.get("padding") is None else api.NpuPadding(**d["padding"])
    a = d.get("activation")
    if a is not None:
        op.activation = api.NpuActivation(api.NpuActivationOp[a["op_type"]])
        op.activation.min, op.activation.max, op.activation.lookup_table_index = a["min"], a["max"], a["lookup_table_index"]
    op.block_config = api.NpuShape3D(**d["block_config"])
    op.rounding_mode = api.NpuRoundingMode[d["rounding_mode"]]
    op.fused_quantize = d["fused_quantize"]
    op.ifm_upscale = api.NpuResamplingMode[d["ifm_upscale"]]
    return op


# ------------------------------------------------------------------------------------------------ malformed streams
def _set_shape(fm_, api, **kw):
    s = fm_.shape._asdict()
    s.update(kw)
    fm_.shape = api.NpuShape3D(**s)


def range_mutations(api):
    """(field, applicable?, mutate) : push ONE field beyond its register"""
    A = api

    def blk(o):
        return not isinstance(o, A.NpuDmaOperation)

    def nonew(o):
        return blk(o) and not isinstance(o, A.NpuElementWiseOperation)

    def tiles(f, **kw):
        t = f.tiles._asdict()
        t.update(kw)
        f.tiles = A.NpuTileBox(**t)

    def zp(f, v):
        f.quantization = A.NpuQuantization(f.quantization.scale_f32 if f.quantization else None, v)

    def kern(o, **kw):
        k = copy.copy(o.kernel)
        for n_, v in kw.items():
            setattr(k, n_, v)
        o.kernel = k
    M = [
        ("OFM height", blk, lambda o, r: _set_shape(o.ofm, A, height=r.choice([65537, 70000, 1 << 20]))),
        ("OFM width", blk, lambda o, r: _set_shape(o.ofm, A, width=r.choice([65537, 70000]))),
        ("OFM depth", blk, lambda o, r: _set_shape(o.ofm, A, depth=r.choice([65537, 131072 + 8]))),
        ("IFM depth", blk, lambda o, r: _set_shape(o.ifm, A, depth=r.choice([65537, 70000]))),
        ("IFM tile height_0", blk, lambda o, r: tiles(o.ifm, height_0=r.choice([65537, 70000]))),
        ("OFM tile width_0", blk, lambda o, r: tiles(o.ofm, width_0=r.choice([65537, 70000]))),
        ("dilated kernel height", nonew, lambda o, r: kern(o, height=r.choice([65537, 40000 * 2]))),
        ("dilated kernel width", nonew, lambda o, r: kern(o, width=65538)),
        ("kernel stride/dilation/traversal bits", nonew, lambda o, r: kern(o, **r.choice([{"stride_x": 20}, {"stride_y": 17}, {"dilation_x": 3}, {"dilation_y": 4}]))),
        ("padding top", lambda o: nonew(o), lambda o, r: setattr(o, "padding", o.padding._replace(top=r.choice([65536, 70000])))),
        ("IFM zero point", blk, lambda o, r: zp(o.ifm, r.choice([65536 + 3, 70000, -40000, -65536]))),
        ("OFM zero point", blk, lambda o, r: zp(o.ofm, r.choice([65536 + 3, 70000, -40000]))),
        ("IFM region", blk, lambda o, r: setattr(o.ifm, "region", r.choice([8, 300, 65536 + 1]))),
        ("weight length core 0", lambda o: blk(o) and o.weights, lambda o, r: setattr(o, "weights", [o.weights[0]._replace(address=0, length=(1 << 32) + 16)] + o.weights[1:])),
        ("scale length core 0", lambda o: blk(o) and o.biases, lambda o, r: setattr(o, "biases", [o.biases[0]._replace(address=0, length=(1 << 32) + 32)] + o.biases[1:])),
        ("weight base core 0", lambda o: blk(o) and o.weights, lambda o, r: setattr(o, "weights", [o.weights[0]._replace(address=1 << 48)] + o.weights[1:])),
        ("OFM tile 0 base address", blk, lambda o, r: tiles(o.ofm, addresses=[(1 << 48) + 16] + list(o.ofm.tiles.addresses[1:]))),
        ("explicit OFM scale/shift", lambda o: isinstance(o, A.NpuElementWiseOperation) and o.sub_op_type in (A.NpuElementWiseOp.ADD, A.NpuElementWiseOp.MUL),
         lambda o, r: setattr(o, "rescale", r.choice([((1 << 32) + 5, 3), (7, 65536 + 2)]))),
        ("quantised scalar operand", lambda o: isinstance(o, A.NpuElementWiseOperation) and o.ifm2_scalar is not None and o.ifm2.data_type == A.NpuDataType.INT32,
         lambda o, r: (setattr(o.ifm2, "quantization", A.NpuQuantization(1.0, 0)), setattr(o, "ifm2_scalar", float(r.choice([1 << 20, -(1 << 31), 65536, 40000]))))),
        ("activation function / clip range", lambda o: blk(o) and o.activation is not None and o.activation.op_type == A.NpuActivationOp.TABLE_LOOKUP,
         lambda o, r: setattr(o.activation, "lookup_table_index", r.choice([8, 9, 65536]))),
        ("block config depth", blk, lambda o, r: setattr(o, "block_config", o.block_config._replace(depth=65536 + o.block_config.depth))),
        ("operation parameter (mode / channel)", lambda o: isinstance(o, A.NpuDmaOperation), lambda o, r: setattr(o, "channel", r.choice([4096, 5000]))),
        ("DMA source region", lambda o: isinstance(o, A.NpuDmaOperation), lambda o, r: setattr(o, "src", o.src._replace(region=65536 + 1))),
    ]
    return M


def align_mutations(api, u65):
    A = api

    def blk(o):
        return not isinstance(o, A.NpuDmaOperation)

    def fm_addr(f, r):
        t = f.tiles
        a = list(t.addresses)
        i = r.randrange(0, 4)
        a[i] += (8 if f.layout == A.NpuLayout.NHCWB16 else 1) if r.random() < 0.7 else 1
        f.tiles = A.NpuTileBox(t.height_0, t.height_1, t.width_0, a)

    def needs_align(f):
        return f is not None and (f.layout == A.NpuLayout.NHCWB16 or f.data_type.size_in_bytes() > 1)

    def strides(f, r):
        elem = f.data_type.size_in_bytes()
        b16 = f.layout == A.NpuLayout.NHCWB16
        if f.strides is None:
            w, d = f.shape.width, f.shape.depth
            f.strides = A.NpuShape3D(depth=16 * elem * w, height=elem * w * ((d + 15) // 16) * 16, width=16 * elem) if b16 else \
                A.NpuShape3D(depth=elem, height=w * d * elem, width=d * elem)
        s = f.strides
        if b16:
            f.strides = s._replace(height=s.height + 8) if r.random() < 0.5 else s._replace(depth=s.depth + r.choice([8, 1]))
        else:
            f.strides = s._replace(height=s.height + 1) if r.random() < 0.5 else s._replace(width=s.width + 1)

    def dma_int(o):
        return isinstance(o, A.NpuDmaOperation) and (not u65 or o.dest.region == MEM2MEM)
    M = [
        ("IFM base address", lambda o: blk(o) and needs_align(o.ifm), lambda o, r: fm_addr(o.ifm, r)),
        ("OFM base address", lambda o: blk(o) and needs_align(o.ofm), lambda o, r: fm_addr(o.ofm, r)),
        ("IFM2 base address", lambda o: blk(o) and o.ifm2 is not None and o.ifm2_scalar is None and needs_align(o.ifm2), lambda o, r: fm_addr(o.ifm2, r)),
        ("IFM strides", lambda o: blk(o) and needs_align(o.ifm), lambda o, r: strides(o.ifm, r)),
        ("OFM strides", lambda o: blk(o) and needs_align(o.ofm), lambda o, r: strides(o.ofm, r)),
        ("weight base", lambda o: blk(o) and o.weights, lambda o, r: setattr(o, "weights", [o.weights[0]._replace(address=o.weights[0].address + r.choice([8, 1]))] + o.weights[1:])),
        ("weight length", lambda o: blk(o) and o.weights, lambda o, r: setattr(o, "weights", o.weights[:-1] + [o.weights[-1]._replace(length=o.weights[-1].length + r.choice([8, 1]))])),
        ("scale length", lambda o: blk(o) and o.biases, lambda o, r: setattr(o, "biases", [o.biases[0]._replace(length=o.biases[0].length + 8)] + o.biases[1:])),
        ("DMA destination address", dma_int, lambda o, r: setattr(o, "dest", o.dest._replace(address=o.dest.address + r.choice([8, 1])))),
        ("DMA length", dma_int, lambda o, r: (setattr(o, "src", o.src._replace(length=o.src.length + 8)), setattr(o, "dest", o.dest._replace(length=o.dest.length + 8)))),
        ("DMA source address", lambda o: isinstance(o, A.NpuDmaOperation) and (not u65 or o.src.region == MEM2MEM), lambda o, r: setattr(o, "src", o.src._replace(address=o.src.address + 8))),
    ]
    return M


def clone_op(op, api):
    n = copy.copy(op)
    if not isinstance(op, api.NpuDmaOperation):
        for nm in ("ifm", "ifm2", "ofm", "activation"):
            if getattr(op, nm) is not None:
                setattr(n, nm, copy.copy(getattr(op, nm)))
        n.weights, n.biases = list(op.weights), list(op.biases)
    return n


def malformed_cases(rng, n, kind):
    """yields (acc_name, ops, index of the mutated operation, field)"""
    from ethosu.vela import api
    out = []
    tries = 0
    while len(out) < n and tries < 20 * n:
        tries += 1
        acc = rng.choice(ACCS)
        g = Gen(rng, acc)
        muts = range_mutations(api) if kind == "range" else align_mutations(api, g.u65)
        field, ok, mut = muts[(len(out) + tries) % len(muts)] if rng.random() < 0.7 else rng.choice(muts)
        base = g.dma() if ("DMA" in field or "channel" in field) else g.block_op()
        if not ok(base):
            continue
        ops = [g.variant(base) for _ in range(rng.choice([0, 0, 1, 2]))]
        bad = clone_op(base, api)
        mut(bad, rng)
        ops.append(bad)
        out.append((acc, ops, len(ops) - 1, field))
    return out


# ------------------------------------------------------------------------------------------------ the check
def ser_ops(ops):
    import wrap
    return [{"cls": type(o).__name__, "api": wrap.ser(o)} for o in ops]


def judge_stream(ops_ser, acc_name, ncores, words, evs):
    """all mismatches of one stream: list of (op index, field, expected, decoded)"""
    out = []
    fr = framing_oracle(words)
    if fr:
        out.append((None, "framing: " + fr, None, None))
    if evs is None:
        out.append((None, "stream does not decode", None, None))
        return out
    opev = [e for e in evs if e[0] == "op"]
    if len(opev) != len(ops_ser):
        out.append((None, "number of operation commands", len(ops_ser), len(opev)))
        return out
    if not evs or evs[-1][0] != "stop" or sum(1 for e in evs if e[0] == "stop") != 1:
        out.append((None, "framing: not exactly one stop event at the end", None, None))
    for i, (o, ev) in enumerate(zip(ops_ser, opev)):
        for f, want, got in judge(o["api"], o["cls"], acc_name, ncores, ev):
            out.append((i, f, want, got))
    if "u65" in acc_name and opev:
        first = opev[0][3]
        if first.get(regs()["0:SET_PARALLEL_MODE"]) != ncores - 1:
            out.append((0, "parallel mode (cores - 1)", ncores - 1, first.get(regs()["0:SET_PARALLEL_MODE"])))
    return out


def run(tier):
    import artefacts
    import compiles
    from ethosu.vela import api
    import time
    res = vlib.Result("C06", tier, "proof")
    phases = {}
    t_ = time.time()

    def lap(name):
        nonlocal t_
        phases[name] = round(time.time() - t_, 1)
        t_ = time.time()
    b = vlib.build_property("C06")
    lap("coq_build")
    vlib.proof_coverage(res, b, [
        "coq/hw/Npu.v decode/exec: the meaning of command words (modelled from the register documentation)",
        "coq/model/Emit.v is a hand model of CommandStreamEmitter/RegisterMachine, of the framing of generate_command_stream, of "
        "the derived fields and of the check_* guards: tied by the correspondence runs below (device H); opcode classification, "
        "payload bit, word size and n_banks are regenerated from the source (gen/GenEmitTables.v)",
        "which emitter call each field of an NpuOperation goes to (generate_*) is NOT proved: it is compared per field by an "
        "independent oracle on random legal operation lists and on every compiled stream",
        "SHRAM layout values are taken from architecture_allocator.try_block_config (proved in C15); only their register "
        "assignment is judged here",
        "extraction (ExtrOcamlBasic) + ocaml/driver.ml"])
    okx, xlog = vlib.build_extraction("emit")
    okd, dlog = vlib.build_extraction()
    lap("extraction_builds")
    rng = random.Random(vlib.seed())
    big = tier != "quick"
    bad = []          # (key, detail, what): concrete failing inputs of the property
    diffs = []        # model / implementation differences
    cov = collections.Counter()

    # ---- 1. emitter: real class vs model on random call sequences
    n_seq = 400 if not big else 8000
    seqs = [random_calls(rng, rng.choice([1, 2, 5, 20, 80, 200])) for _ in range(n_seq)]
    real = []
    for c in seqs:
        try:
            real.append(drive_real(c))
        except Exception as ex:
            real.append(["exception", repr(ex)])
    n_elided_seq = 0
    if okx:
        mod = models.run_parallel("emit_calls", [flat_calls(c) for c in seqs], exe_name="emit")
        for c, a, m in zip(seqs, real, mod):
            plain = sum(1 if k[0] in ("cmd0", "wait", "op") else 2 for k in c)
            if a[0] != "exception" and len(a) - 3 < plain:
                n_elided_seq += 1
            if a != m:
                diffs.append(("emitter", {"calls": [[k[0], k[1].name, k[2], k[3]] for k in c][:60], "impl": a[:40], "model": m[:40]}))
        # ---- derived fields and check_* guards
        hc = helper_cases(rng, 150 if not big else 3000)
        by = collections.defaultdict(list)
        for cmd, inp, want in hc:
            by[cmd].append((inp, want))
        for cmd, l in by.items():
            outs = models.run(cmd, [i for i, _ in l], exe_name="emit")
            for (i, want), o in zip(l, outs):
                o2 = [x & 0xFFFF for x in o] if cmd in ("kernel_fields", "precision_fields") else \
                    [o[0] & 0xFFFF, o[1] & 0xFFFF, o[2], o[3]] if cmd == "misc_fields" else o
                cov["helper_cases"] += 1
                if o2 != want:
                    diffs.append((cmd, {"input": i, "impl": want, "model": o}))
    cov["emitter_call_sequences"] = n_seq
    cov["emitter_call_sequences_with_elision"] = n_elided_seq

    lap("emitter_and_helper_correspondence")
    # ---- 2. random legal operation lists through the public API
    n_lists = 220 if not big else 6000
    rec = Recorder()
    runs = []
    todo = []
    for acc in (["ethos-u55-128", "ethos-u65-512"] if not big else ACCS):
        g = Gen(rng, acc)
        todo += [(g, ops) for ops in g.ew_scale_grid()]
    cov["operand_scaling_grid_lists"] = len(todo)
    for i in range(n_lists):
        g = Gen(rng, ACCS[i % len(ACCS)])
        todo.append((g, None))
    try:
        for g, ops in todo:
            acc = g.acc_name
            if ops is None:
                ops = g.op_list()
            so = ser_ops(ops)
            try:
                words, log = rec.run(ops, g.acc)
            except Exception as ex:
                bad.append(({"kind": "legal_list_rejected", "exception": type(ex).__name__},
                            {"accelerator": acc, "ops": so, "exception": repr(ex)},
                            "a legal operation list was rejected by npu_generate_register_command_stream: %r" % (ex,)))
                continue
            runs.append((acc, so, [int(x) for x in words], log))
    finally:
        rec.restore()
    evs_all = [parse_events(o) for o in models.run_parallel("decode_stream", [r[2] for r in runs])] if (okd and runs) else []
    kinds = collections.Counter()
    lens = collections.Counter()
    n_ops = 0
    n_elided_lists = 0
    frame_cases, frame_meta = [], []
    for (acc, so, words, log), evs in zip(runs, evs_all):
        lens[len(so)] += 1
        for o in so:
            kinds[o["cls"].replace("Npu", "").replace("Operation", "") + (":" + o["api"]["sub_op_type"] if "sub_op_type" in o["api"] else "")] += 1
        n_ops += len(so)
        plain = sum(1 if k[0] in ("cmd0", "wait", "op") else 2 for k in log)
        if plain > len(words):
            n_elided_lists += 1
        mm = judge_stream(so, acc, NCORES[acc], words, evs)
        if mm:
            i, f, want, got = mm[0]
            bad.append(({"kind": "decoded_register_differs", "field": f},
                        {"accelerator": acc, "ops": so, "op_index": i, "mismatches": mm[:10], "words": words[:600]},
                        "decoded stream differs from the input operation: %s (operation %s: expected %s, decoded %s)" % (f, i, want, got)))
        fl = frames_of(log)
        if fl is None:
            diffs.append(("framing shape", {"accelerator": acc, "calls": [[k[0], k[1].name, k[2], k[3]] for k in log][:80]}))
        else:
            frame_cases.append(fl)
            frame_meta.append((acc, words))
    if okx and frame_cases:
        for (acc, words), o in zip(frame_meta, models.run_parallel("frame_stream", frame_cases, exe_name="emit")):
            if o != words:
                diffs.append(("frame_stream", {"accelerator": acc, "impl": words[:80], "model": o[:80]}))
    cov["op_lists"] = len(runs)
    cov["operations_judged"] = n_ops

    lap("legal_operation_lists")
    # ---- 3. malformed streams
    n_mal = 120 if not big else 2500
    trunc = collections.Counter()
    for kind in ("range", "align"):
        cases = malformed_cases(rng, n_mal, kind)
        acc_streams, acc_meta = [], []
        for acc, ops, idx, field in cases:
            cov["malformed_" + kind] += 1
            try:
                words = api.npu_generate_register_command_stream(ops, npu_acc(acc))
            except Exception:
                cov["malformed_%s_rejected" % kind] += 1
                continue
            if kind == "align":
                bad.append(({"kind": "misaligned_accepted", "field": field},
                            {"accelerator": acc, "ops": ser_ops(ops), "op_index": idx},
                            "a mis-aligned %s was accepted without an exception" % field))
                continue
            acc_streams.append([int(x) for x in words])
            acc_meta.append((acc, ops, idx, field))
        if acc_streams and okd:
            for (acc, ops, idx, field), o in zip(acc_meta, models.run_parallel("decode_stream", acc_streams)):
                evs = parse_events(o)
                so = ser_ops(ops)
                opev = [e for e in (evs or []) if e[0] == "op"]
                mm = judge(so[idx]["api"], so[idx]["cls"], acc, NCORES[acc], opev[idx]) if len(opev) == len(ops) else [("stream shape", None, None)]
                if mm:
                    trunc[field] += 1
                    if trunc[field] == 1:
                        bad.append(({"kind": "silent_truncation", "field": field},
                                    {"accelerator": acc, "ops": so, "op_index": idx, "mismatches": mm[:6]},
                                    "out-of-range %s is neither rejected nor encoded: expected %s, the stream decodes to %s" % (mm[0][0], mm[0][1], mm[0][2])))
                else:
                    cov["malformed_range_encoded_exactly"] += 1
    cov["malformed_range_silently_truncated"] = sum(trunc.values())

    lap("malformed_streams")
    # ---- 4. D2: every stream of the shared compilation plan, decoded from the output file
    jobs = compiles.corpus_jobs() + compiles.plan(FAMS, 64 if not big else 1600, vlib.seed(), tag="d2", capture=True)
    results = compiles.run_all(jobs, timeout=900)
    lap("compilations")
    d2_words, d2_meta = [], []
    stat = collections.Counter()
    for r in results:
        stat[r["status"]] += 1
        if r["status"] != "ok":
            continue
        art = artefacts.load(r)
        if not art or not art["capture"]:
            continue
        caps = art["capture"]["streams"]
        for k, npu in enumerate(art["npu"]):
            if npu["words"] is None:
                cov["d2_unparsed_payload"] += 1
                continue
            match = [st for st in caps if st["words"] == npu["words"]]
            st = match[0] if match else (caps[k] if k < len(caps) else None)
            if st is None:
                cov["d2_no_captured_list"] += 1
                continue
            if not match:
                cov["d2_file_words_differ_from_generated"] += 1
            d2_words.append(npu["words"])
            d2_meta.append((r, k, st))
    d2_ops = 0
    samples = []
    if okd and d2_words:
        for (r, k, st), fw, o in zip(d2_meta, d2_words, models.run_parallel("decode_stream", d2_words)):
            evs = parse_events(o)
            so = [{"cls": x["cls"], "api": x["api"]} for x in st["ops"]]
            mm = judge_stream(so, st["accelerator"], st["ncores"], fw, evs)
            d2_ops += len(so)
            if len(samples) < 3:
                samples.append({"net": r.get("net_name"), "args": r["job"]["args"][:4], "npu_ops": len(so),
                                "kinds": dict(collections.Counter(x["cls"] for x in so)), "accepted": not mm})
            if mm:
                i, f, want, got = mm[0]
                bad.append(({"kind": "compiled_stream_differs", "field": f, "net": r.get("net_name"), "seed": r["job"]["seed"]},
                            {"job": r["job"], "stream": k, "op_index": i, "mismatches": mm[:10],
                             "op": so[i] if i is not None and i < len(so) else None,
                             "replay_cmd": "cd /verif && /venv/bin/python tools/vela_worker.py %s/job.json" % r["job"]["out_dir"]},
                            "compiled stream differs from the captured operation list: %s (net %s, operation %s: expected %s, decoded %s)"
                            % (f, r.get("net_name"), i, want, got)))
    lap("compiled_streams_judged")
    cov["phase_seconds"] = phases
    cov["d2_streams"] = len(d2_words)
    cov["d2_operations_judged"] = d2_ops

    res.cov.update(dict(cov))
    res.cov.update({
        "programs": len(d2_words), "compile_status": dict(stat),
        "evaluations": n_seq + cov["helper_cases"] + n_ops + 2 * n_mal + d2_ops,
        "distinct_nontrivial": n_elided_lists + n_elided_seq,
        "rule": "non-trivial = an operation list (through the public API) or an emitter call sequence in which at least one "
                "register write was elided; evaluations = call sequences + helper cases + operations judged register by "
                "register (random lists, compiled streams) + malformed operations",
        "op_kind_distribution": dict(kinds), "list_length_distribution": {str(k): v for k, v in sorted(lens.items())},
        "silently_truncated_fields": dict(trunc),
        "model_vs_impl_differences": len(diffs),
        "samples": samples + [{"accelerator": a, "ops": [o["cls"] for o in so], "n_words": len(w)} for a, so, w, _ in runs[:3]],
    })
    res.assumptions += ["hw/Npu.v word format and register keys", "the set of operation lists and compilations is sampled",
                        "derived scale values (C09) are only range-checked unless the operation carries them explicitly"]
    if not okx or not okd:
        res.notes.append("extraction build failed: " + (xlog if not okx else dlog)[-600:])
    seen = set()
    per_kind = collections.Counter()
    for key, detail, what in bad:
        kk = (key.get("kind"), key.get("field"))
        if kk in seen or per_kind[key.get("kind")] >= 6:
            continue
        seen.add(kk)
        per_kind[key.get("kind")] += 1
        res.violation(key, detail, "C06: " + what)
    if not res.violations:      # nothing but known findings (or nothing at all) so far
        if not b["ok"]:
            vlib.report_broken_build(res, b, None)
        elif diffs or not okx or not okd:
            name, d = diffs[0] if diffs else ("extraction", {"log": (xlog if not okx else dlog)[-800:]})
            res.violation({"correspondence": name}, dict(d, n_differences=len(diffs)),
                          "correspondence of coq/model/Emit.v (%s) with the implementation no longer holds" % name, no_input=True)
    elif not b["ok"]:
        res.notes.append("proof build broken as well: %s" % (b["errors"][:1] or b["failed_files"]))
    if diffs:
        res.notes.append("model/implementation differences: %d, first: %s" % (len(diffs), str(diffs[0])[:600]))
    return res.finish()


def replay(path):
    """re-run a replay file on the real generator and print the oracle's verdict"""
    import json
    from ethosu.vela import api
    d = json.load(open(path))["detail"]
    ops = [rebuild(o["api"], o["cls"]) for o in d["ops"]]
    try:
        words = api.npu_generate_register_command_stream(ops, npu_acc(d["accelerator"]))
    except Exception as ex:
        print("generator raised", repr(ex))
        return
    evs = parse_events(models.run("decode_stream", [[int(x) for x in words]])[0])
    for m in judge_stream(d["ops"], d["accelerator"], NCORES[d["accelerator"]], [int(x) for x in words], evs):
        print(m)


if __name__ == "__main__":
    import sys
    sys.path.insert(0, vlib.REPO)
    replay(sys.argv[1])
